"""E1 runner: builds the fact base for /repo's *current working tree* and loads it.

Facts are cached under /verif/.work/facts/<tree-hash>/<config>/ ; the hash covers
every source/manifest file of the workspace plus the driver binary, so an edited
tree is always re-analysed.  One cargo invocation per feature configuration, with
a fresh CARGO_TARGET_DIR (cargo would otherwise skip the wrapper).
"""
import fcntl
import glob
import hashlib
import json
import os
import shutil
import subprocess
import sys
import time

VERIF = os.path.dirname(os.path.dirname(os.path.dirname(os.path.dirname(os.path.abspath(__file__)))))
REPO = os.environ.get("KONST_REPO", "/repo")
WORK = os.path.join(VERIF, ".work")
DRIVER_DIR = os.path.join(VERIF, "engine", "facts")
DRIVER = os.path.join(DRIVER_DIR, "target", "release", "konst-facts")

CONFIGS = {
    # name: (cargo feature args)
    "FULL": ["--features", "konst/rust_latest_stable konst/alloc"],
    "DEBUG": ["--features", "konst/rust_latest_stable konst/alloc konst/debug"],
    "MIN": ["--no-default-features", "--features", "konst/rust_1_83"],
}
CRATES = ["konst", "konst_kernel", "konst_proc_macros"]



class _Done:
    def __init__(self, rc, out, err):
        self.returncode, self.stdout, self.stderr = rc, out, err


def _run(cmd, timeout, stderr_to_stdout=True, **kw):
    """subprocess.run with a wall-clock limit: a compiler (or a proc macro running inside it) that does not finish is killed with its
    whole process group and reported as a failed compilation (rc 124) - a check never hangs and never leaves strays behind"""
    import signal
    p = subprocess.Popen(cmd, stdout=subprocess.PIPE, stderr=subprocess.STDOUT if stderr_to_stdout else subprocess.PIPE, text=True,
                         start_new_session=True, **kw)
    try:
        out, err = p.communicate(timeout=timeout)
        return _Done(p.returncode, out, err)
    except subprocess.TimeoutExpired:
        try:
            os.killpg(p.pid, signal.SIGKILL)
        except OSError:
            pass
        try:
            out, err = p.communicate(timeout=10)
        except Exception:
            out, err = "", ""
        msg = "error: timed out after %d s: %s\n" % (timeout, " ".join(cmd[:4]))
        return _Done(124, (out or "") + msg, (err or "") + msg if not stderr_to_stdout else None)

def _nightly_sysroot():
    return subprocess.check_output(["rustc", "+nightly", "--print", "sysroot"], text=True).strip()


_SYSROOT = None


def sysroot():
    global _SYSROOT
    if _SYSROOT is None:
        _SYSROOT = _nightly_sysroot()
    return _SYSROOT


def base_env():
    env = dict(os.environ)
    env["CARGO_NET_OFFLINE"] = "true"
    env["LD_LIBRARY_PATH"] = os.path.join(sysroot(), "lib") + ":" + env.get("LD_LIBRARY_PATH", "")
    env.pop("RUSTC_WRAPPER", None)
    return env


def ensure_driver():
    """Build the driver if the binary is missing or older than its source."""
    src = os.path.join(DRIVER_DIR, "src", "main.rs")
    if os.path.exists(DRIVER) and os.path.getmtime(DRIVER) >= os.path.getmtime(src):
        return
    r = subprocess.run(["cargo", "build", "--release", "--offline"], cwd=DRIVER_DIR, env=base_env(),
                       stdout=subprocess.PIPE, stderr=subprocess.STDOUT, text=True)
    if r.returncode != 0:
        sys.stderr.write(r.stdout)
        raise SystemExit("cannot build fact driver")


def tree_hash():
    h = hashlib.sha256()
    files = []
    for top in ("konst", "konst_kernel", "konst_proc_macros", "konst_macro_rules"):
        for root, dirs, fs in os.walk(os.path.join(REPO, top)):
            dirs[:] = [d for d in dirs if d not in ("target", ".git")]
            for f in fs:
                if f.endswith((".rs", ".toml", ".stderr")):
                    files.append(os.path.join(root, f))
    for f in ("Cargo.toml", "Cargo.lock"):
        p = os.path.join(REPO, f)
        if os.path.exists(p):
            files.append(p)
    files.sort()
    for f in files:
        h.update(f.encode())
        with open(f, "rb") as fh:
            h.update(hashlib.sha256(fh.read()).digest())
    with open(os.path.join(DRIVER_DIR, "src", "main.rs"), "rb") as fh:
        h.update(fh.read())
    return h.hexdigest()[:20]


class Lock:
    def __init__(self, name):
        os.makedirs(WORK, exist_ok=True)
        self.path = os.path.join(WORK, name + ".lock")

    def __enter__(self):
        self.fh = open(self.path, "w")
        fcntl.flock(self.fh, fcntl.LOCK_EX)
        return self

    def __exit__(self, *a):
        fcntl.flock(self.fh, fcntl.LOCK_UN)
        self.fh.close()


def facts_dir(config, th=None):
    th = th or tree_hash()
    return os.path.join(WORK, "facts", th, config)


def _prune(keep_hash):
    root = os.path.join(WORK, "facts")
    if not os.path.isdir(root) or os.environ.get("VERIF_NO_PRUNE"):
        return          # (VERIF_NO_PRUNE: machinery self-tests that analyse several scratch trees at once)
    now = time.time()
    for d in os.listdir(root):
        if d != keep_hash:
            full = os.path.join(root, d)
            try:
                # a cache that was touched in the last half hour may belong to a check of another tree that is still running
                # (several working trees analysed side by side): leave it for a later run to remove
                newest = max([os.path.getmtime(full)] + [os.path.getmtime(os.path.join(full, x)) for x in os.listdir(full)])
                if now - newest < 1800:
                    continue
            except OSError:
                pass
            shutil.rmtree(full, ignore_errors=True)


def build(config, th=None):
    """Run the driver over the workspace for `config`; returns the facts dir."""
    th = th or tree_hash()
    d = facts_dir(config, th)
    done = os.path.join(d, "DONE")
    if os.path.exists(done):
        return d
    with Lock("facts-" + config):
        if os.path.exists(done):
            return d
        ensure_driver()
        _prune(th)
        shutil.rmtree(d, ignore_errors=True)
        out = os.path.join(d, "out")
        os.makedirs(out)
        env = base_env()
        env["RUSTFLAGS"] = "-Zmir-opt-level=0 -Awarnings -Cdebug-assertions=off"
        env["RUSTC_WORKSPACE_WRAPPER"] = DRIVER
        env["KONST_FACTS_OUT"] = out
        env["KONST_FACTS_CONFIG"] = config
        env["CARGO_TARGET_DIR"] = os.path.join(d, "target")
        cmd = ["cargo", "+nightly", "check", "--offline", "-p", "konst", "-p", "konst_kernel",
               "-p", "konst_proc_macros"] + CONFIGS[config]
        t0 = time.time()
        r = _run(cmd, 2400, cwd=REPO, env=env)
        if r.returncode != 0:
            with open(os.path.join(d, "build.log"), "w") as fh:
                fh.write(r.stdout)
            raise BuildError(config, r.stdout)
        for c in CRATES:
            if not glob.glob(os.path.join(out, c + "-*.json")):
                raise BuildError(config, "no fact file for crate %s (driver skipped?)\n%s" % (c, r.stdout))
        with open(done, "w") as fh:
            fh.write("%.2f\n" % (time.time() - t0))
    return d


class BuildError(Exception):
    def __init__(self, config, log):
        Exception.__init__(self, "cargo check failed for config %s" % config)
        self.config = config
        self.log = log


def rmeta(config, th=None):
    d = build(config, th)
    deps = os.path.join(d, "target", "debug", "deps")
    c = glob.glob(os.path.join(deps, "libkonst-*.rmeta"))
    if len(c) != 1:
        raise SystemExit("expected exactly one libkonst rmeta in %s, found %d" % (deps, len(c)))
    return c[0], deps


def load_crates(config, th=None):
    d = build(config, th)
    res = {}
    for c in CRATES:
        f = sorted(glob.glob(os.path.join(d, "out", c + "-*.json")))[0]
        with open(f) as fh:
            res[c] = json.load(fh)
    return res


def witness_facts(name, source, config="FULL", th=None, hir=False, extra_args=()):
    """Compile a witness crate (source text) with the driver against konst's rmeta.

    Returns (facts_json_or_None, diagnostics_text, returncode).  Cached by content hash.
    """
    th = th or tree_hash()
    rm, deps = rmeta(config, th)
    key = hashlib.sha256((source + "|" + " ".join(extra_args) + ("|hir" if hir else "")).encode()).hexdigest()[:16]
    wd = os.path.join(WORK, "facts", th, "witness", "%s-%s-%s" % (name, config, key))
    res_file = os.path.join(wd, "result.json")
    if os.path.exists(res_file):
        with open(res_file) as fh:
            meta = json.load(fh)
        facts = None
        if meta["facts"]:
            with open(os.path.join(wd, meta["facts"])) as fh:
                facts = json.load(fh)
        return facts, meta["diag"], meta["rc"]
    # build in a private directory and publish it with one rename: two threads/processes asking for the same witness at the
    # same time (duplicate generated literals, parallel self-test runs) must not trample each other
    final_wd = wd
    import threading
    wd = "%s.tmp-%d-%d" % (final_wd, os.getpid(), threading.get_ident())
    shutil.rmtree(wd, ignore_errors=True)
    os.makedirs(wd)
    src = os.path.join(wd, name + ".rs")
    with open(src, "w") as fh:
        fh.write(source)
    env = base_env()
    env["KONST_FACTS_OUT"] = wd
    env["KONST_FACTS_CONFIG"] = config
    if hir:
        env["KONST_FACTS_HIR"] = "1"
    cmd = [DRIVER, src, "--crate-name", name, "--edition", "2021", "--crate-type", "lib",
           "--emit=metadata", "-o", os.path.join(wd, "lib%s.rmeta" % name),
           "-Zmir-opt-level=0", "-Awarnings", "-Cdebug-assertions=off",
           "-L", "dependency=" + deps, "--extern", "konst=" + rm] + list(extra_args)
    r = _run(cmd, 900, env=env)
    fs = glob.glob(os.path.join(wd, name + "-*.json"))
    facts = None
    fname = None
    if r.returncode == 0 and fs:
        fname = os.path.basename(fs[0])
        with open(fs[0]) as fh:
            facts = json.load(fh)
    with open(os.path.join(wd, "result.json"), "w") as fh:
        json.dump({"facts": fname, "diag": r.stdout.replace(wd, final_wd), "rc": r.returncode}, fh)
    try:
        os.remove(os.path.join(wd, "lib%s.rmeta" % name))
    except OSError:
        pass
    try:
        if not os.path.exists(final_wd):
            os.rename(wd, final_wd)
        else:
            shutil.rmtree(wd, ignore_errors=True)
    except OSError:
        shutil.rmtree(wd, ignore_errors=True)
    return facts, r.stdout.replace(wd, final_wd), r.returncode


# ---------------------------------------------------------------------------
# E6 — accept / reject harness (stable rustc, JSON diagnostics)
# ---------------------------------------------------------------------------
def stable_rmeta(th=None):
    """`cargo check` konst once with the default (stable) toolchain and FULL features; returns (rmeta, deps dir)"""
    th = th or tree_hash()
    d = os.path.join(WORK, "facts", th, "STABLE")
    done = os.path.join(d, "DONE")
    if not os.path.exists(done):
        with Lock("stable"):
            if not os.path.exists(done):
                _prune(th)
                shutil.rmtree(d, ignore_errors=True)
                os.makedirs(d)
                env = base_env()
                env["CARGO_TARGET_DIR"] = os.path.join(d, "target")
                env["RUSTFLAGS"] = "-Awarnings"
                r = _run(["cargo", "check", "--offline", "-p", "konst", "--features", "rust_latest_stable alloc"], 2400, cwd=REPO, env=env)
                if r.returncode != 0:
                    raise BuildError("STABLE", r.stdout)
                with open(done, "w") as fh:
                    fh.write("ok\n")
    deps = os.path.join(d, "target", "debug", "deps")
    c = glob.glob(os.path.join(deps, "libkonst-*.rmeta"))
    if len(c) != 1:
        raise SystemExit("expected exactly one stable libkonst rmeta, found %d" % len(c))
    return c[0], deps


def _expansion_chain(span):
    out = []
    e = span.get("expansion")
    while e:
        out.append(e.get("macro_decl_name"))
        e = e["span"].get("expansion")
    return out


def compile_program(name, source, th=None):
    """compile one program against konst with stable rustc; -> {"ok": bool, "errors": [{code, message, macros, labels}]}"""
    th = th or tree_hash()
    rm, deps = stable_rmeta(th)
    key = hashlib.sha256(source.encode()).hexdigest()[:20]
    wd = os.path.join(WORK, "facts", th, "programs")
    os.makedirs(wd, exist_ok=True)
    cache = os.path.join(wd, key + ".json")
    if os.path.exists(cache):
        with open(cache) as fh:
            return json.load(fh)
    src = os.path.join(wd, key + ".rs")
    with open(src, "w") as fh:
        fh.write(source)
    env = base_env()
    cmd = ["rustc", "--edition", "2021", "--crate-name", "prog", "--crate-type", "lib", "--emit=metadata",
           "-o", os.path.join(wd, key + ".rmeta"), "--error-format=json", "-Awarnings",
           "-L", "dependency=" + deps, "--extern", "konst=" + rm, src]
    r = _run(cmd, 600, stderr_to_stdout=False, env=env)
    errors = []
    for line in r.stderr.splitlines():
        if not line.startswith("{"):
            continue
        try:
            d = json.loads(line)
        except ValueError:
            continue
        if d.get("level") != "error" or d.get("message", "").startswith("aborting due to"):
            continue
        macros = []
        labels = []
        for sp in d.get("spans", []):
            macros.extend(m for m in _expansion_chain(sp) if m)
            if sp.get("label"):
                labels.append(sp["label"])
        for ch in d.get("children", []):
            labels.append(ch.get("message", ""))
        errors.append({"code": (d.get("code") or {}).get("code"), "message": d["message"], "macros": macros, "labels": labels})
    if r.returncode == 124:
        errors.append({"code": None, "message": "the compiler did not finish within the time limit", "macros": [], "labels": []})
    res = {"ok": r.returncode == 0, "errors": errors}
    with open(cache, "w") as fh:
        json.dump(res, fh)
    for ext in (".rmeta", ".rs"):
        try:
            os.remove(os.path.join(wd, key + ext))
        except OSError:
            pass
    return res


def compile_many(programs, th=None, workers=16):
    """programs: [(name, source)] -> list of results in order"""
    from concurrent.futures import ThreadPoolExecutor
    th = th or tree_hash()
    stable_rmeta(th)
    uniq = {}
    for name, src in programs:
        uniq.setdefault(src, name)
    items = list(uniq.items())
    with ThreadPoolExecutor(max_workers=workers) as ex:
        res = list(ex.map(lambda it: compile_program(it[1], it[0], th), items))
    by_src = {src: r for (src, _), r in zip(items, res)}
    return [by_src[src] for _, src in programs]
