"""Check runner: rule bookkeeping, violation keys, known findings, evidence files."""
import importlib
import re
import json
import os
import sys
import time
import traceback

from . import facts, mir

VERIF = facts.VERIF
EVID = os.environ.get("VERIF_EVIDENCE") or os.path.join(VERIF, "evidence")   # override only for machinery self-tests
REPORTS = os.path.join(EVID, "reports")
KNOWN = os.path.join(VERIF, "known_findings.json")

_PROGRAMS = {}
_SIGS = None


def _known_sigs():
    global _SIGS
    if _SIGS is None:
        _SIGS = {}
        try:
            with open(os.path.join(os.path.dirname(__file__), "known_fns.txt")) as fh:
                for l in fh:
                    if "\t" in l:
                        k, v = l.rstrip("\n").split("\t", 1)
                        _SIGS[k] = v
        except OSError:
            pass
    return _SIGS


class Ctx:
    def __init__(self, prop, tier, seed):
        self.prop = prop
        self.tier = tier
        self.seed = seed
        self.t0 = time.time()
        self.violations = []      # dicts
        self.rules = {}           # rule -> {"instances": n, "nontrivial": set(), "samples": []}
        self.notes = []
        self.assumptions = []
        self.level = "other"
        self.explanation = ""
        self.extra = {}
        self.th = facts.tree_hash()
        self.configs_used = []

    # ---- fact access ---------------------------------------------------------
    def program(self, config="FULL"):
        key = (self.th, config)
        if key not in _PROGRAMS:
            _PROGRAMS[key] = mir.load_program(config, self.th)
        if config not in self.configs_used:
            self.configs_used.append(config)
        return _PROGRAMS[key]

    def configs(self):
        return ["FULL", "DEBUG"] if self.tier == "quick" else ["FULL", "DEBUG", "MIN"]

    # ---- bookkeeping -----------------------------------------------------------
    def _rule(self, rule):
        return self.rules.setdefault(rule, {"instances": 0, "nontrivial": set(), "samples": []})

    def instance(self, rule, key, nontrivial=True, sample=None):
        """record that `rule` decided one instance identified by `key`"""
        r = self._rule(rule)
        r["instances"] += 1
        if nontrivial:
            r["nontrivial"].add(str(key))
        if sample is not None and len(r["samples"]) < 3:
            r["samples"].append(sample)

    def violation(self, rule, key, msg, where=None, detail=None):
        """key must not contain line numbers; it identifies the construct"""
        full = "%s|%s" % (rule, key)
        for v in self.violations:
            if v["key"] == full:
                return
        if isinstance(where, str):
            where = re.sub(r"\.tmp-\d+-\d+", "", where)     # witness crates are compiled in a private directory, then renamed
        self.violations.append({"rule": rule, "key": full, "msg": msg, "where": where, "detail": detail})

    def floor(self, rule, minimum, what=""):
        n = self.rules.get(rule, {"instances": 0})["instances"]
        if n < minimum:
            self.violation("FLOOR", "%s" % rule,
                           "rule %s matched %d instances, floor is %d %s (anchor missing or renamed: fail closed)"
                           % (rule, n, minimum, what))

    def anchor(self, prog, key, impl_self=None):
        """fetch a body by stripped path; a missing anchor is a (fail-closed) violation"""
        try:
            b = prog.get(key, impl_self)
        except KeyError as e:
            self.violation("ANCHOR", "%s|%s" % (prog.config, key), str(e))
            return None
        if b is None:
            b = self._renamed(prog, key)
        if b is None:
            self.violation("ANCHOR", "%s|%s" % (prog.config, key),
                           "anchored function %s not found in config %s" % (key, prog.config))
        return b

    def _renamed(self, prog, key):
        """a private function that was only renamed: the unique function of the same module with the recorded signature whose
        name the reference vocabulary (kv/known_fns.txt) does not know.  The rules then run on it as on the old name."""
        sigs = _known_sigs()
        want = sigs.get(key)
        if want is None:
            return None
        mod = key.rsplit("::", 1)[0] + "::"
        cands = []
        for k, bs in prog.by_key.items():
            if k.startswith(mod) and "::" not in k[len(mod):] and k not in sigs:
                for b in bs:
                    sig = "(%s) -> %s" % (", ".join(b.rec.get("sig_inputs") or []), b.rec.get("sig_output") or "")
                    if sig == want and b.rec.get("vis") != "pub":
                        cands.append(b)
        if len(cands) == 1:
            self.note("anchor %s resolved to the renamed %s (same module, same signature)" % (key, cands[0].key))
            return cands[0]
        return None

    def note(self, s):
        self.notes.append(s)

    # ---- finishing ---------------------------------------------------------------
    def finish(self):
        known = []
        if os.path.exists(KNOWN):
            with open(KNOWN) as fh:
                known = json.load(fh)["findings"]
        known_keys = {k["key"]: k for k in known if k["property"] == self.prop and k["status"] == "known"}
        os.makedirs(REPORTS, exist_ok=True)
        # remove stale reports of this property
        for f in os.listdir(REPORTS):
            if f.startswith(self.prop + "-"):
                os.remove(os.path.join(REPORTS, f))
        n_new = 0
        n_known = 0
        lines = []
        for i, v in enumerate(self.violations):
            rp = os.path.join(REPORTS, "%s-%d.json" % (self.prop, i))
            with open(rp, "w") as fh:
                json.dump({"property": self.prop, "tier": self.tier, **v}, fh, indent=1, default=str)
            if v["key"] in known_keys:
                n_known += 1
                lines.append("KNOWN-FINDING: property=%s %s [%s]" % (self.prop, known_keys[v["key"]]["what"], v["key"]))
            else:
                n_new += 1
                lines.append("VIOLATION property=%s replay=%s" % (self.prop, rp))
                lines.append("  rule=%s key=%s" % (v["rule"], v["key"]))
                lines.append("  %s" % v["msg"])
                if v.get("where"):
                    lines.append("  at %s" % v["where"])
        instances = sum(r["instances"] for r in self.rules.values())
        distinct = sum(len(r["nontrivial"]) for r in self.rules.values())
        samples = []
        for name, r in sorted(self.rules.items()):
            for smp in r["samples"][:2]:
                samples.append({"rule": name, "case": smp})
        if not samples:
            samples = [{"rule": "-", "case": "no instances"}]
        cov = {
            "explanation": self.explanation or "static rules over rustc MIR facts",
            "evaluations": max(instances, 0),
            "distinct_nontrivial": distinct,
            "rule": "one evaluation = one rule instance decided on the current tree (function, call site, table case set, "
                    "program); distinct_nontrivial = distinct instance keys for which the rule had premises to decide",
            "samples": samples[:12],
            "rules": {name: {"instances": r["instances"], "distinct": len(r["nontrivial"])}
                      for name, r in sorted(self.rules.items())},
            "configs": self.configs_used,
            "tree_hash": self.th,
            "known_findings_reported": n_known,
        }
        cov.update(self.extra)
        ev = {
            "property_id": self.prop,
            "tier": self.tier,
            "seed": self.seed,
            "level": self.level,
            "coverage": cov,
            "assumptions": self.assumptions,
            "wall_s": round(time.time() - self.t0, 2),
            "violations": n_new,
        }
        os.makedirs(EVID, exist_ok=True)
        with open(os.path.join(EVID, "%s.json" % self.prop), "w") as fh:
            json.dump(ev, fh, indent=1, default=str)
        try:
            self._print(lines, instances, distinct, n_new, n_known)
        except BrokenPipeError:
            pass
        return 1 if n_new else 0

    def _print(self, lines, instances, distinct, n_new, n_known):
        for l in lines:
            print(l)
        print("%s %s: %d rule instances (%d distinct), %d violations, %d known findings, %.1fs" % (
            self.prop, self.tier, instances, distinct, n_new, n_known, time.time() - self.t0))
        for name, r in sorted(self.rules.items()):
            print("   %-28s %4d instances" % (name, r["instances"]))
        return 1 if n_new else 0


def main(argv):
    import argparse
    ap = argparse.ArgumentParser()
    ap.add_argument("prop")
    ap.add_argument("--tier", default=os.environ.get("VERIF_TIER", "quick"))
    ap.add_argument("--replay", default=None)
    a = ap.parse_args(argv)
    if a.replay:
        with open(a.replay) as fh:
            print(json.dumps(json.load(fh), indent=1))
    tier = a.tier if a.tier in ("quick", "thorough") else "quick"
    seed = int(os.environ.get("VERIF_SEED", "0") or 0)
    prop = a.prop.upper()
    ctx = Ctx(prop, tier, seed)
    try:
        mod = importlib.import_module("kv.props.%s" % prop.lower())
        mod.run(ctx)
    except facts.BuildError as e:
        # the tree does not build in a configuration the check needs: nothing can be decided
        ctx.violation("BUILD", e.config, "cargo check failed for configuration %s:\n%s" % (e.config, e.log[-3000:]))
    except Exception:
        ctx.violation("INTERNAL", "exception", "checker raised an exception (fail closed):\n" + traceback.format_exc())
    if os.environ.get("VERIF_TOUCH"):
        os.makedirs(os.environ["VERIF_TOUCH"], exist_ok=True)
        with open(os.path.join(os.environ["VERIF_TOUCH"], prop + ".txt"), "w") as fh:
            fh.write("\n".join(sorted(mir.TOUCHED)) + "\n")
    return ctx.finish()
