"""Exact value sets of integer predicates built from comparisons with constants and bit/arithmetic operations with constants.

A set of W-bit unsigned values is a sorted tuple of disjoint, non-adjacent closed intervals.  `trueset(t, hole, W, dom)` returns
{ v in dom : t[hole := v] is true } for a boolean term t whose integer leaves are f(hole) with f composed of
  x ^ c, x & c, x | c, !x, x >> k, x.wrapping_sub(c), x.wrapping_add(c), x - c / x + c (no wrap: the wrapping value restricted to the
  non-wrapping inputs), widening casts
and whose atoms compare such an f(hole) with a constant.  The computation is backward (pre-images): bijective operations map interval sets
to interval sets exactly (xor: aligned-block recursion; add/sub: rotation), `&`, `|` and `>>` by pre-image of each interval.  No
enumeration of values, no solver; raises Opaque for anything else (the caller fails closed).
"""
from .byteset import Opaque


def norm(ivs):
    out = []
    for a, b in sorted(ivs):
        if a > b:
            continue
        if out and out[-1][1] >= a - 1:
            out[-1][1] = max(out[-1][1], b)
        else:
            out.append([a, b])
    return tuple((a, b) for a, b in out)


def inter(x, y):
    out = []
    for a, b in x:
        for c, d in y:
            lo, hi = max(a, c), min(b, d)
            if lo <= hi:
                out.append((lo, hi))
    return norm(out)


def union(x, y):
    return norm(list(x) + list(y))


def compl(x, W):
    out = []
    cur = 0
    top = (1 << W) - 1
    for a, b in x:
        if a > cur:
            out.append((cur, a - 1))
        cur = b + 1
    if cur <= top:
        out.append((cur, top))
    return norm(out)


def xor_image(S, c, W):
    """{ v ^ c : v in S }"""
    out = []

    def rec(lo, hi, base, k):
        # node [base, base + 2^k)
        n_lo, n_hi = base, base + (1 << k) - 1
        if hi < n_lo or lo > n_hi:
            return
        if lo <= n_lo and n_hi <= hi:
            img = (base ^ c) & ~((1 << k) - 1)
            out.append((img, img + (1 << k) - 1))
            return
        half = 1 << (k - 1)
        rec(lo, hi, base, k - 1)
        rec(lo, hi, base + half, k - 1)
    for a, b in S:
        rec(a, b, 0, W)
    return norm(out)


def rotate(S, d, W):
    """{ (v + d) mod 2^W : v in S }"""
    M = 1 << W
    d %= M
    out = []
    for a, b in S:
        a2, b2 = a + d, b + d
        if b2 < M:
            out.append((a2, b2))
        elif a2 >= M:
            out.append((a2 - M, b2 - M))
        else:
            out.append((a2, M - 1))
            out.append((0, b2 - M))
    return norm(out)


def and_preimage(S, c, W, budget=200000, within=None):
    """{ x in within : x & c in S }   (within: interval set the argument is known to lie in; None = all W-bit values)"""
    out = []
    n = [0]

    def rec(base, k):
        if within is not None and not inter(((base, base + (1 << k) - 1),), within):
            return
        n[0] += 1
        if n[0] > budget:
            raise Opaque("value-set computation too large (x & %#x)" % c)
        mask = (1 << k) - 1
        lo = base & c                      # low k bits of base are 0
        hi = lo | (c & mask)
        hull = ((lo, hi),)
        got = inter(hull, S)
        if not got:
            return
        if got == hull and (c & mask) in (0, mask):
            out.append((base, base + mask))     # image of the block is exactly [lo, hi] (or the single point lo)
            return
        if got == hull and _dense(lo, c & mask, S):
            out.append((base, base + mask))
            return
        if k == 0:
            if any(a <= lo <= b for a, b in S):
                out.append((base, base))
            return
        rec(base, k - 1)
        rec(base + (1 << (k - 1)), k - 1)

    def _dense(lo, cm, S_):
        # every value lo | sub (sub a submask of cm) lies in S when the whole hull does
        return any(a <= lo and lo + cm <= b for a, b in S_)
    rec(0, W)
    return norm(out) if within is None else inter(norm(out), within)


def image_hull(t, hole, W, dom):
    """an interval set that contains { value of t : hole in dom } (used only to prune pre-image computations)"""
    top = ((0, (1 << W) - 1),)
    if t == hole:
        return dom
    if t[0] == "cast":
        return image_hull(t[3], hole, W, dom)
    if t[0] == "bin":
        cb = _const(t[3])
        ca = _const(t[2])
        if t[1] == "Shr" and cb is not None and ca is None:
            return norm([(a >> cb, b >> cb) for a, b in image_hull(t[2], hole, W, dom)])
        if t[1] == "BitAnd" and (ca is None) != (cb is None):
            c = cb if ca is None else ca
            return ((0, c),)
        if t[1] == "BitXor" and (ca is None) != (cb is None):
            x, c = (t[2], cb) if ca is None else (t[3], ca)
            return xor_image(image_hull(x, hole, W, dom), c, W)
    return top


def shr_preimage(S, k, W):
    top = (1 << W) - 1
    return norm([(a << k, min(top, (b << k) | ((1 << k) - 1))) for a, b in S if (a << k) <= top])


def reflect(S, W):
    """{ ~v : v in S }"""
    top = (1 << W) - 1
    return norm([(top - b, top - a) for a, b in S])


def _const(t):
    if t[0] == "int":
        return t[1]
    if t[0] == "char":
        return t[1]
    if t[0] == "cast" and t[1] == "int2int":
        return _const(t[3])
    if t[0] == "bin" and len(t) == 4:
        a, b = _const(t[2]), _const(t[3])
        if a is None or b is None:
            return None
        op = t[1]
        if op in ("Add", "AddUnchecked"):
            return a + b
        if op in ("Sub", "SubUnchecked") and a >= b:
            return a - b
        if op == "Mul":
            return a * b
        if op == "BitXor":
            return a ^ b
        if op == "BitAnd":
            return a & b
        if op == "BitOr":
            return a | b
        if op == "Shl":
            return a << b
        if op == "Shr":
            return a >> b
    return None


WIDTH = {"u8": 8, "u16": 16, "u32": 32, "char": 32, "u64": 64, "usize": 64, "u128": 128}


def preimage(t, S, hole, W, dom):
    """{ v in dom : value of integer term t at hole = v lies in S }"""
    if t == hole:
        return inter(S, dom)
    k = t[0]
    if k == "cast" and t[1] in ("int2int", "char2int", "transmute"):
        w2 = WIDTH.get(t[2])
        if w2 is None or w2 < W:
            raise Opaque("narrowing or signed cast in a value-set predicate: %r" % (t[2],))
        return preimage(t[3], inter(S, ((0, (1 << W) - 1),)), hole, W, dom)
    if k == "bin":
        op, a, b = t[1], t[2], t[3]
        ca, cb = _const(a), _const(b)
        if op == "BitXor" and (ca is None) != (cb is None):
            x, c = (a, cb) if ca is None else (b, ca)
            return preimage(x, xor_image(S, c, W), hole, W, dom)
        if op == "BitAnd" and (ca is None) != (cb is None):
            x, c = (a, cb) if ca is None else (b, ca)
            return preimage(x, and_preimage(S, c, W, within=image_hull(x, hole, W, dom)), hole, W, dom)
        if op == "BitOr" and (ca is None) != (cb is None):
            x, c = (a, cb) if ca is None else (b, ca)
            # x | c = ~(~x & ~c)
            nc = ((1 << W) - 1) ^ c
            return preimage(x, reflect(and_preimage(reflect(S, W), nc, W), W), hole, W, dom)
        if op == "Shr" and cb is not None and ca is None:
            return preimage(a, shr_preimage(S, cb, W), hole, W, dom)
        if op in ("WrappingSub", "Sub", "SubUnchecked") and cb is not None and ca is None:
            pre = rotate(S, cb, W)
            if op != "WrappingSub":
                pre = inter(pre, ((cb, (1 << W) - 1),))        # the non-wrapping inputs
            return preimage(a, pre, hole, W, dom)
        if op in ("WrappingAdd", "Add", "AddUnchecked") and (ca is None) != (cb is None):
            x, c = (a, cb) if ca is None else (b, ca)
            pre = rotate(S, -c, W)
            if op != "WrappingAdd":
                pre = inter(pre, ((0, (1 << W) - 1 - c),))
            return preimage(x, pre, hole, W, dom)
    if k == "un" and t[1] == "Not":
        return preimage(t[2], reflect(S, W), hole, W, dom)
    if k == "cidx" and t[1][0] == "call" and t[1][1].endswith(("::to_be_bytes", "::to_le_bytes", "::to_ne_bytes")) and len(t[1]) == 4 \
            and isinstance(t[2], int) and t[3] is False and W % 8 == 0 and 0 <= t[2] < W // 8:
        # byte i of the value (big-endian: from the top; little-endian and - on the little-endian targets analysed here - native: from the bottom)
        i = t[2]
        sh = (W // 8 - 1 - i) * 8 if t[1][1].endswith("::to_be_bytes") else i * 8
        byte = ("bin", "BitAnd", ("bin", "Shr", t[1][3], ("int", sh, "u32")), ("int", 255, "u32"))
        return preimage(byte, S, hole, W, dom)
    raise Opaque("not a value-set term: %r" % (t,))


def trueset(t, hole, W=32, dom=None):
    top = (1 << W) - 1
    dom = dom if dom is not None else ((0, top),)
    k = t[0]
    if k == "bool":
        return dom if t[1] else ()
    if k == "un" and t[1] == "Not":
        inner = trueset(t[2], hole, W, dom)
        return inter(compl(inner, W), dom)
    if k == "bin" and t[1] in ("BitAnd", "BitOr", "BitXor") and _is_bool(t[2]) and _is_bool(t[3]):
        if t[1] == "BitAnd":
            # a conjunction narrows the domain step by step (keeps the pre-images of low-bit tests small); either order
            try:
                return trueset(t[3], hole, W, trueset(t[2], hole, W, dom))
            except Opaque:
                return trueset(t[2], hole, W, trueset(t[3], hole, W, dom))
        x, y = trueset(t[2], hole, W, dom), trueset(t[3], hole, W, dom)
        if t[1] == "BitAnd":
            return inter(x, y)
        if t[1] == "BitOr":
            return union(x, y)
        return inter(union(inter(x, compl(y, W)), inter(y, compl(x, W))), dom)
    if k == "bin" and t[1] in ("Eq", "Ne", "Lt", "Le", "Gt", "Ge"):
        op, a, b = t[1], t[2], t[3]
        ca, cb = _const(a), _const(b)
        if ca is not None and cb is None:
            a, b, ca, cb = b, a, cb, ca
            op = {"Lt": "Gt", "Le": "Ge", "Gt": "Lt", "Ge": "Le"}.get(op, op)
        if cb is None:
            raise Opaque("comparison of two non-constant terms")
        c = cb
        if ca is not None:
            v = {"Eq": ca == c, "Ne": ca != c, "Lt": ca < c, "Le": ca <= c, "Gt": ca > c, "Ge": ca >= c}[op]
            return dom if v else ()
        if op == "Eq":
            S = ((c, c),) if 0 <= c <= top else ()
        elif op == "Ne":
            S = compl(((c, c),), W) if 0 <= c <= top else ((0, top),)
        elif op == "Lt":
            S = ((0, min(top, c - 1)),) if c > 0 else ()
        elif op == "Le":
            S = ((0, min(top, c)),) if c >= 0 else ()
        elif op == "Gt":
            S = ((c + 1, top),) if c < top else ()
        else:
            S = ((max(0, c), top),) if c <= top else ()
        return preimage(a, S, hole, W, dom)
    raise Opaque("not a value-set predicate: %r" % (t,))


def _is_bool(t):
    return t[0] == "bool" or (t[0] == "un" and t[1] == "Not" and _is_bool(t[2])) or \
        (t[0] == "bin" and t[1] in ("Eq", "Ne", "Lt", "Le", "Gt", "Ge")) or \
        (t[0] == "bin" and t[1] in ("BitAnd", "BitOr", "BitXor") and _is_bool(t[2]) and _is_bool(t[3]))
