"""D4 — bit provenance.  Abstract value of an integer term = list of bits (LSB first), each
0 | 1 | (hole, k) meaning "bit k of hole" | None (unknown).  Exact for terms built from
constants, holes, casts, shifts by constants, and/or with anything."""
from .sym import INT_TYS


class Unknown(Exception):
    pass


W = 32


def const_bits(v, w=W):
    return [(v >> i) & 1 for i in range(w)]


def hole_bits(h, width, w=W):
    return [(h, i) if i < width else 0 for i in range(w)]


def bits_of(t, holes, w=W):
    """holes: {term: width}"""
    if t in holes:
        h = holes[t]
        if isinstance(h, list):
            return [h[i] if i < len(h) else 0 for i in range(w)]
        return hole_bits(t, h, w)
    k = t[0]
    if k in ("int", "char"):
        return const_bits(t[1] & ((1 << w) - 1), w)
    if k == "cast" and t[1] == "int2int":
        x = bits_of(t[3], holes, w)
        to = t[2]
        width = 32 if to == "char" else INT_TYS.get(to)
        if width is None:
            raise Unknown("cast to %s" % to)
        return [x[i] if i < width else 0 for i in range(w)]
    if k == "bin":
        op = t[1]
        if op in ("Shl", "Shr"):
            if t[3][0] != "int":
                raise Unknown("shift by non-constant")
            n = t[3][1]
            x = bits_of(t[2], holes, w)
            if op == "Shl":
                return [0] * n + x[:w - n]
            return x[n:] + [0] * n
        a = bits_of(t[2], holes, w)
        b = bits_of(t[3], holes, w)
        if op == "BitAnd":
            return [_and(x, y) for x, y in zip(a, b)]
        if op == "BitOr":
            return [_or(x, y) for x, y in zip(a, b)]
        raise Unknown("op %s" % op)
    raise Unknown("term %r" % (t[:2],))


def _and(x, y):
    if x == 0 or y == 0:
        return 0
    if x == 1:
        return y
    if y == 1:
        return x
    return x if x == y else None


def _or(x, y):
    if x == 1 or y == 1:
        return 1
    if x == 0:
        return y
    if y == 0:
        return x
    return x if x == y else None


def assume_zero_above(bits, hole, nbits):
    """the hole's value is known to be < 2**nbits"""
    return [0 if (isinstance(b, tuple) and b[0] == hole and b[1] >= nbits) else b for b in bits]


def subst(bits, mapping):
    """mapping: (hole, k) -> bit"""
    return [mapping.get(b, b) if isinstance(b, tuple) else b for b in bits]


def show(bits, n=None):
    n = n or len(bits)
    out = []
    for b in reversed(bits[:n]):
        if b in (0, 1):
            out.append(str(b))
        elif b is None:
            out.append("?")
        else:
            out.append("%s%d" % ("x" if not isinstance(b[0], str) else b[0], b[1]))
    return " ".join(out)
