"""inventory of operations that need `unsafe`, read from MIR/type information (not from `unsafe {}` syntax)"""
from .mir import strip_generics
from .sym import core_path

FMT_INTERNAL = ("core::fmt::Arguments", "core::fmt::rt::")


def ops_of(body):
    """-> list of dicts(kind, detail, bb, at)"""
    out = []
    for bb in sorted(body.reachable()):
        blk = body.blocks[bb]
        for st in blk["stmts"]:
            if st["k"] != "assign":
                continue
            for pl in _places_of_stmt(st):
                for pe in pl["p"]:
                    if pe["k"] == "deref" and pe.get("raw"):
                        out.append({"kind": "raw_deref", "detail": pe.get("of", ""), "bb": bb, "at": st["src"]["at"], "exp": st["src"].get("exp")})
                    if pe["k"] == "field" and pe.get("union"):
                        out.append({"kind": "union_field", "detail": pe.get("adt", ""), "bb": bb, "at": st["src"]["at"], "exp": st["src"].get("exp")})
            rv = st["rv"]
            if rv["k"] == "cast" and rv["kind"] == "transmute":
                out.append({"kind": "transmute", "detail": "%s -> %s" % (rv["from"], rv["to"]), "bb": bb, "at": st["src"]["at"], "exp": st["src"].get("exp")})
        t = blk["term"]
        if t["k"] == "call" and t.get("callee"):
            c = t["callee"]
            p = core_path(strip_generics(c["path"]))
            if c.get("unsafe") and not p.startswith(FMT_INTERNAL):
                out.append({"kind": "call", "detail": p, "bb": bb, "at": t["src"]["at"], "exp": t["src"].get("exp")})
            for a in t["args"]:
                if a["k"] in ("copy", "move"):
                    for pe in a["place"]["p"]:
                        if pe["k"] == "deref" and pe.get("raw"):
                            out.append({"kind": "raw_deref", "detail": pe.get("of", ""), "bb": bb, "at": t["src"]["at"], "exp": t["src"].get("exp")})
        if t["k"] == "switch" and t["discr"]["k"] in ("copy", "move"):
            for pe in t["discr"]["place"]["p"]:
                if pe["k"] == "deref" and pe.get("raw"):
                    out.append({"kind": "raw_deref", "detail": pe.get("of", ""), "bb": bb, "at": t["src"]["at"], "exp": False})
    return out


def _places_of_stmt(st):
    yield st["place"]
    rv = st["rv"]
    for k in ("place",):
        if k in rv:
            yield rv[k]
    for k in ("op", "a", "b"):
        if k in rv and isinstance(rv[k], dict) and rv[k].get("k") in ("copy", "move"):
            yield rv[k]["place"]
    for o in rv.get("ops", []):
        if o["k"] in ("copy", "move"):
            yield o["place"]
