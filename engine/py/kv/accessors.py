"""Rules for the trivial-looking functions the behavioural tables rely on but do not open themselves: field accessors, struct
copies, forward/reverse conversions and plain constructors.  Each is one obligation on the function's single gated path; a
property's check lists the ones its observations go through (rule name ACC), so that a slip in `rev()`, `copy()`, `as_slice()`,
`remainder()`, `error_direction()` ... is reported by the check whose tables assume them.
"""
from . import sym, table
from .sym import show


def _single(ctx, rule, prog, key, impl_self=None):
    b = ctx.anchor(prog, key, impl_self) if impl_self else ctx.anchor(prog, key)
    if b is None:
        return None, None
    ps = [p for p in sym.paths_of(b, prog) if p.kind != "unreachable"]
    if len(ps) != 1 or ps[0].kind != "return" or ps[0].conds:
        ctx.violation(rule, "%s|%s" % (prog.config, key), "%s is expected to be straight-line code returning a value; found %s" % (
            key.split("::")[-2] + "::" + key.split("::")[-1], [(p.kind, len(p.conds)) for p in ps]), b.file())
        ctx.instance(rule, "%s|%s" % (prog.config, key))
        return b, None
    return b, table.strip_gargs(ps[0].value)


def _self(byref):
    return ("deref", ("p", 1)) if byref else ("p", 1)


def _is_phantom(t):
    return isinstance(t, tuple) and t and t[0] == "agg" and "PhantomData" in t[1]


def field(ctx, rule, prog, key, index, byref=True, what=None):
    """the function returns field `index` of self"""
    b, v = _single(ctx, rule, prog, key)
    if b is None:
        return
    if v is not None and v != ("field", _self(byref), index):
        ctx.violation(rule, "%s|%s" % (prog.config, key), "%s returns %s, expected %s" % (key.split("::", 1)[-1], show(v), what or "field %d of self" % index), b.file())
    ctx.instance(rule, "%s|%s" % (prog.config, key), sample={"fn": key, "returns": "field %d" % index})


def term(ctx, rule, prog, key, want, what):
    """the function returns exactly the term `want`"""
    b, v = _single(ctx, rule, prog, key)
    if b is None:
        return
    if v is not None and v != table.strip_gargs(want):
        ctx.violation(rule, "%s|%s" % (prog.config, key), "%s returns %s, expected %s" % (key.split("::", 1)[-1], show(v), what), b.file())
    ctx.instance(rule, "%s|%s" % (prog.config, key), sample={"fn": key, "returns": what})


def rebuild(ctx, rule, prog, key, target=None, byref=True, nfields=None):
    """copy() / rev(): the result is the (target) struct built from self's fields, each in its own position"""
    b, v = _single(ctx, rule, prog, key)
    if b is None:
        return
    k = "%s|%s" % (prog.config, key)
    if v is not None:
        me = _self(byref)
        msg = None
        if v == me and target is None:
            pass                               # `*self`
        elif not (v[0] == "agg" and v[1].startswith("adt:")):
            msg = "returns %s, expected a struct built from self's fields" % show(v)
        else:
            ty = v[1][4:].split("#")[0]
            own = key.rsplit("::", 1)[0]
            want_ty = target if target is not None else own
            if ty.split("::")[-1] != want_ty.split("::")[-1]:
                msg = "builds a %s, expected a %s" % (ty.split("::")[-1], want_ty.split("::")[-1])
            fields = [f for f in v[2:]]
            real = [f for f in fields if not _is_phantom(f)]
            for i, f in enumerate(fields):
                if _is_phantom(f):
                    continue
                if f != ("field", me, i):
                    msg = msg or "field %d of the result is %s, expected field %d of self" % (i, show(f), i)
            if nfields is not None and len(real) != nfields:
                msg = msg or "the result has %d fields, expected %d" % (len(real), nfields)
        if msg:
            ctx.violation(rule, k, "%s %s" % (key.split("::", 1)[-1], msg), b.file())
    ctx.instance(rule, k, sample={"fn": key, "returns": ("the %s with the same fields" % target.split("::")[-1]) if target else "a field-wise copy"})


def ctor(ctx, rule, prog, key, ty, args):
    """the function builds `ty { args.. }` from its parameters"""
    b, v = _single(ctx, rule, prog, key)
    if b is None:
        return
    if v is not None:
        ok = v[0] == "agg" and v[1].startswith("adt:") and v[1][4:].split("#")[0].split("::")[-1] == ty and tuple(f for f in v[2:] if not _is_phantom(f)) == tuple(args)
        if not ok:
            ctx.violation(rule, "%s|%s" % (prog.config, key), "%s returns %s, expected %s{%s}" % (key.split("::", 1)[-1], show(v), ty, ", ".join(show(a) for a in args)), b.file())
    ctx.instance(rule, "%s|%s" % (prog.config, key), sample={"fn": key, "returns": ty})
