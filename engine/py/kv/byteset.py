"""D3 — exact value sets of byte/char predicates.

A predicate term with a single *hole* (an element read such as `bytes[i]`, or a
parameter) is interpreted over the hole's whole domain: all 256 bytes, or — for
u32/char holes — every breakpoint of the comparisons in the term (constants ±1),
which is exact for terms built from comparisons with constants, casts and boolean
connectives.  The result is a set of values written as inclusive ranges.
"""
from .sym import INT_TYS, UNSIGNED, show


class Opaque(Exception):
    pass


def wrap(v, ty):
    if ty == "char":
        ty = "u32"
    if ty == "bool":
        return 1 if v else 0
    if ty not in INT_TYS:
        raise Opaque("cast to %s" % ty)
    bits = INT_TYS[ty]
    v &= (1 << bits) - 1
    if ty not in UNSIGNED and v >= 1 << (bits - 1):
        v -= 1 << bits
    return v


def ev(t, hole, v):
    if t == hole:
        return v
    k = t[0]
    if k == "int":
        return t[1]
    if k == "char":
        return t[1]
    if k == "bool":
        return t[1]
    if k == "cast":
        x = ev(t[3], hole, v)
        if t[1] in ("int2int", "IntToInt"):
            return wrap(int(x), t[2])
        if t[1] == "transmute" and t[2] in ("char", "u32", "u8", "i8"):
            return wrap(int(x), t[2])
        raise Opaque("cast kind %s" % t[1])
    if k == "un" and t[1] == "Not":
        x = ev(t[2], hole, v)
        if isinstance(x, bool):
            return not x
        raise Opaque("bitwise not on int")
    if k == "bin":
        op = t[1]
        a = ev(t[2], hole, v)
        b = ev(t[3], hole, v)
        if op == "Eq":
            return a == b
        if op == "Ne":
            return a != b
        if op == "Lt":
            return a < b
        if op == "Le":
            return a <= b
        if op == "Gt":
            return a > b
        if op == "Ge":
            return a >= b
        if op == "BitAnd":
            return (a and b) if isinstance(a, bool) else (a & b)
        if op == "BitOr":
            return (a or b) if isinstance(a, bool) else (a | b)
        if op == "BitXor":
            return (a != b) if isinstance(a, bool) else (a ^ b)
        if op == "Add":
            return a + b
        if op == "Sub":
            return a - b
        if op in ("WrappingSub", "WrappingAdd"):
            # modular arithmetic: the width comes from a typed operand (a literal or a cast); without one the value is unknown
            ty = _operand_ty(t[2]) or _operand_ty(t[3])
            if ty is None:
                raise Opaque("wrapping operation on operands of unknown width: %s" % show(t))
            return wrap(a - b if op == "WrappingSub" else a + b, ty)
        if op == "Shl":
            return a << b
        if op == "Shr":
            return a >> b
        raise Opaque("op %s" % op)
    raise Opaque("term %s" % show(t))


def _operand_ty(t):
    if t[0] == "int" and len(t) > 2 and t[2] in INT_TYS:
        return t[2]
    if t[0] == "cast" and t[1] in ("int2int", "IntToInt") and t[2] in INT_TYS:
        return t[2]
    return None


def holes(t, acc=None):
    """leaf terms that stand for unknown scalar values"""
    if acc is None:
        acc = []
    k = t[0]
    if k in ("int", "char", "bool"):
        return acc
    if k in ("index", "cidx", "p", "L", "vfield", "field", "deref", "call", "len"):
        if t not in acc:
            acc.append(t)
        return acc
    if k == "cast":
        return holes(t[3], acc)
    if k == "un":
        return holes(t[2], acc)
    if k == "bin":
        holes(t[2], acc)
        holes(t[3], acc)
        return acc
    if t not in acc:
        acc.append(t)
    return acc


def consts(t, acc=None):
    if acc is None:
        acc = set()
    if not isinstance(t, tuple) or not t:
        return acc
    if t[0] in ("int", "char"):
        acc.add(t[1])
        return acc
    for x in t[1:]:
        if isinstance(x, tuple):
            consts(x, acc)
    return acc


def to_ranges(vals):
    vals = sorted(vals)
    out = []
    for v in vals:
        if out and out[-1][1] == v - 1:
            out[-1][1] = v
        else:
            out.append([v, v])
    return tuple((a, b) for a, b in out)


def trueset_u8(t, hole):
    return to_ranges([v for v in range(256) if ev(t, hole, v) is True])


def trueset_wide(t, hole, lo=0, hi=(1 << 32) - 1):
    """exact for comparison-only predicates: evaluate on every breakpoint interval"""
    _check_cmp_only(t, hole)
    bps = {lo, hi}
    for c in consts(t):
        for d in (-1, 0, 1):
            if lo <= c + d <= hi:
                bps.add(c + d)
    pts = sorted(bps)
    out = []
    for i, p in enumerate(pts):
        nxt = pts[i + 1] if i + 1 < len(pts) else None
        if ev(t, hole, p) is True:
            end = p
            # the interval (p, nxt) exclusive shares p+1's truth; since p+1 is a breakpoint whenever it is
            # adjacent to a constant, any non-breakpoint interior behaves like its left neighbour's right side
            out.append([p, end])
        if nxt is not None and nxt - p > 1:
            mid = p + 1
            if ev(t, hole, mid) is True:
                out.append([mid, nxt - 1])
    merged = []
    for a, b in sorted(out):
        if merged and merged[-1][1] >= a - 1:
            merged[-1][1] = max(merged[-1][1], b)
        else:
            merged.append([a, b])
    return tuple((a, b) for a, b in merged)


def _check_cmp_only(t, hole):
    k = t[0]
    if t == hole or k in ("int", "char", "bool"):
        return
    if k == "cast":
        # only widening / same-width casts of the hole keep interval reasoning exact
        if t[3] == hole and t[2] in ("u32", "char", "u64", "usize", "u128", "i64", "i128"):
            return
        raise Opaque("narrowing cast in wide predicate")
    if k == "un" and t[1] == "Not":
        return _check_cmp_only(t[2], hole)
    if k == "bin" and t[1] in ("Eq", "Ne", "Lt", "Le", "Gt", "Ge", "BitAnd", "BitOr", "BitXor"):
        _check_cmp_only(t[2], hole)
        _check_cmp_only(t[3], hole)
        return
    raise Opaque("not a comparison-only predicate: %s" % show(t))


def show_ranges(r):
    return " ".join("%02X" % a if a == b else "%02X-%02X" % (a, b) for a, b in r) or "{}"


# ---- canonicalisation of byte predicates inside paths ------------------------
def atom_to_bool(a):
    """atom -> (bool term, polarity) or None"""
    k = a[0]
    if k == "holds":
        return a[1], True
    if k == "nholds":
        return a[1], False
    if k == "lt":
        return ("bin", "Lt", a[1], a[2]), True
    if k == "le":
        return ("bin", "Le", a[1], a[2]), True
    if k == "eq":
        return ("bin", "Eq", a[1], a[2]), True
    if k == "ne":
        return ("bin", "Ne", a[1], a[2]), True
    if k == "in":
        t = None
        for v in a[2]:
            e = ("bin", "Eq", a[1], ("int", v, "_"))
            t = e if t is None else ("bin", "BitOr", t, e)
        return t, True
    if k == "notin":
        t = None
        for v in a[2]:
            e = ("bin", "Ne", a[1], ("int", v, "_"))
            t = e if t is None else ("bin", "BitAnd", t, e)
        return t, True
    return None


def is_byte_hole(h):
    return h[0] in ("index", "cidx")


def canon_bool(t, domain="u8"):
    """bool term over a single byte hole -> ('byteclass', hole, ranges) ; else None"""
    hs = holes(t)
    if len(hs) != 1 or not is_byte_hole(hs[0]):
        return None
    try:
        rs = trueset_u8(t, hs[0])
    except Opaque:
        return None
    return ("byteclass", hs[0], rs)


def canon_atom(a):
    r = atom_to_bool(a)
    if r is None or r[0] is None:
        return a
    t, pol = r
    c = canon_bool(t)
    if c is None:
        return a
    return norm_byteclass(c, pol)


def complement(rs):
    full = set(range(256))
    for lo, hi in rs:
        full -= set(range(lo, hi + 1))
    return to_ranges(full)


def norm_byteclass(c, pol=True):
    """canonical polarity: the stored set always contains byte 0"""
    rs = c[2]
    if not (rs and rs[0][0] == 0):
        rs = complement(rs)
        pol = not pol
    return ("holds" if pol else "nholds", ("byteclass", c[1], rs))


def merge_byteclass_conds(conds):
    """intersect all byteclass atoms on the same hole; returns None if the intersection is empty"""
    by_hole = {}
    rest = []
    for a in conds:
        if a[0] in ("holds", "nholds") and a[1][0] == "byteclass":
            s = set()
            for lo, hi in (a[1][2] if a[0] == "holds" else complement(a[1][2])):
                s |= set(range(lo, hi + 1))
            h = a[1][1]
            by_hole[h] = by_hole[h] & s if h in by_hole else s
        else:
            rest.append(a)
    out = list(rest)
    for h, s in by_hole.items():
        if not s:
            return None
        out.append(norm_byteclass(("byteclass", h, to_ranges(s))))
    return tuple(out)
