"""E11 — token-level analysis of `macro_rules!` definitions (a small Rust tokenizer written for this
purpose; no macro is expanded).  For every definition (also nested ones) it yields the arms
(matcher tokens, transcriber tokens) with line numbers, the `compile_error!` messages, `unsafe` tokens
and every `$name:frag` sequence that occurs inside a *transcriber* (where a fragment specifier can only
be a mistake unless the transcriber itself defines a macro whose matcher uses an escaped `$`)."""
import os
import re

FRAGS = {"tt", "expr", "ident", "ty", "pat", "pat_param", "path", "block", "stmt", "item", "meta", "lifetime", "literal", "vis"}

TOKEN = re.compile(r"""
    (?P<ws>\s+)
  | (?P<lc>//[^\n]*)
  | (?P<bc>/\*.*?\*/)
  | (?P<rawstr>b?r(?P<h>\#*)".*?"(?P=h))
  | (?P<str>b?"(?:\\.|[^"\\])*")
  | (?P<char>b?'(?:\\.[^']*|[^'\\])')
  | (?P<life>'[A-Za-z_][A-Za-z0-9_]*)
  | (?P<ident>[A-Za-z_][A-Za-z0-9_]*)
  | (?P<num>[0-9][A-Za-z0-9_.]*)
  | (?P<punct>.)
""", re.S | re.X)


def tokenize(src):
    out = []
    line = 1
    for m in TOKEN.finditer(src):
        k = m.lastgroup
        text = m.group(0)
        if k not in ("ws", "lc", "bc"):
            if k == "h":
                k = "rawstr"
            out.append((k, text, line))
        line += text.count("\n")
    return out


OPEN = {"(": ")", "[": "]", "{": "}"}


def group_end(toks, i):
    """index of the token closing the delimiter opened at i"""
    depth = 0
    j = i
    while j < len(toks):
        t = toks[j][1]
        if toks[j][0] == "punct":
            if t in OPEN:
                depth += 1
            elif t in (")", "]", "}"):
                depth -= 1
                if depth == 0:
                    return j
        j += 1
    return len(toks) - 1


class MacroDef:
    def __init__(self, name, file, line, arms, nested_in=None):
        self.name = name
        self.file = file
        self.line = line
        self.arms = arms            # list of (matcher tokens, transcriber tokens, line)
        self.nested_in = nested_in


def parse_macros(toks, file, nested_in=None):
    defs = []
    i = 0
    n = len(toks)
    while i < n:
        if toks[i][1] == "macro_rules" and i + 3 < n and toks[i + 1][1] == "!" and toks[i + 2][0] == "ident":
            name = toks[i + 2][1]
            j = i + 3
            if toks[j][1] in OPEN:
                end = group_end(toks, j)
                body = toks[j + 1:end]
                arms = []
                k = 0
                while k < len(body):
                    if body[k][1] in OPEN:
                        me = group_end(body, k)
                        matcher = body[k + 1:me]
                        k = me + 1
                        # expect =>
                        if k + 1 < len(body) and body[k][1] == "=" and body[k + 1][1] == ">":
                            k += 2
                            if k < len(body) and body[k][1] in OPEN:
                                te = group_end(body, k)
                                arms.append((matcher, body[k + 1:te], body[k][2]))
                                k = te + 1
                                continue
                    k += 1
                d = MacroDef(name, file, toks[i][2], arms, nested_in)
                defs.append(d)
                for _, tr, _ in arms:
                    defs.extend(parse_macros(tr, file, nested_in=name))
                i = end + 1
                continue
        i += 1
    return defs


def scan_repo(repo, crates=("konst", "konst_kernel", "konst_proc_macros")):
    defs = []
    for c in crates:
        for root, dirs, fs in os.walk(os.path.join(repo, c, "src")):
            for f in sorted(fs):
                if f.endswith(".rs"):
                    p = os.path.join(root, f)
                    with open(p) as fh:
                        src = fh.read()
                    defs.extend(parse_macros(tokenize(src), os.path.relpath(p, repo)))
    return defs


def frag_in_transcriber(d):
    """[(line, text)] for `$name:frag` sequences in the transcribers of d that are not part of a nested
    macro definition's matcher"""
    out = []
    for matcher, tr, _ in d.arms:
        # mask nested macro_rules definitions completely
        masked = set()
        i = 0
        while i < len(tr):
            if tr[i][1] == "macro_rules" and i + 3 < len(tr) and tr[i + 3][1] in OPEN:
                e = group_end(tr, i + 3)
                masked.update(range(i, e + 1))
                i = e + 1
            else:
                i += 1
        for i in range(len(tr) - 3):
            if i in masked:
                continue
            if tr[i][1] == "$" and tr[i + 1][0] == "ident" and tr[i + 2][1] == ":" and tr[i + 3][0] == "ident" and tr[i + 3][1] in FRAGS:
                # `$crate::path` is DOLLAR crate COLON COLON — excluded because tr[i+3] must be a fragment name
                if tr[i + 1][1] == "crate":
                    continue
                # `$x: ty` in an expression context (type ascription such as `let $p: $t`) has `$` before the type;
                out.append((tr[i][2], "$%s:%s" % (tr[i + 1][1], tr[i + 3][1])))
    return out


def compile_errors(d):
    out = []
    for ai, (matcher, tr, line) in enumerate(d.arms):
        for i in range(len(tr) - 2):
            if tr[i][1] == "compile_error" and tr[i + 1][1] == "!":
                e = group_end(tr, i + 2)
                msg = "".join(t[1] for t in tr[i + 3:e] if t[0] in ("str", "rawstr"))
                out.append((tr[i][2], ai, msg))
    return out


def unsafe_tokens(d):
    return [t[2] for _, tr, _ in d.arms for t in tr if t[1] == "unsafe"]


def invoked_macros(d):
    """names of macros invoked in the transcribers of d (`name!` or `$crate::path::name!`)"""
    out = set()
    for _, tr, _ in d.arms:
        for i in range(len(tr) - 1):
            if tr[i][0] == "ident" and tr[i + 1][1] == "!":
                out.add(tr[i][1])
    return out
