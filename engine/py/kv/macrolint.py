"""E11 — token-level analysis of `macro_rules!` definitions (a small Rust tokenizer written for this
purpose; no macro is expanded).  For every definition (also nested ones) it yields the arms
(matcher tokens, transcriber tokens) with line numbers, the `compile_error!` messages, `unsafe` tokens
and every `$name:frag` sequence that occurs inside a *transcriber* (where a fragment specifier can only
be a mistake unless the transcriber itself defines a macro whose matcher uses an escaped `$`)."""
import os
import re

FRAGS = {"tt", "expr", "ident", "ty", "pat", "pat_param", "path", "block", "stmt", "item", "meta", "lifetime", "literal", "vis"}

TOKEN = re.compile(r"""
    (?P<ws>\s+)
  | (?P<lc>//[^\n]*)
  | (?P<bc>/\*.*?\*/)
  | (?P<rawstr>b?r(?P<h>\#*)".*?"(?P=h))
  | (?P<str>b?"(?:\\.|[^"\\])*")
  | (?P<char>b?'(?:\\.[^']*|[^'\\])')
  | (?P<life>'[A-Za-z_][A-Za-z0-9_]*)
  | (?P<ident>[A-Za-z_][A-Za-z0-9_]*)
  | (?P<num>[0-9][A-Za-z0-9_.]*)
  | (?P<punct>.)
""", re.S | re.X)


def tokenize(src):
    out = []
    line = 1
    for m in TOKEN.finditer(src):
        k = m.lastgroup
        text = m.group(0)
        if k not in ("ws", "lc", "bc"):
            if k == "h":
                k = "rawstr"
            out.append((k, text, line))
        line += text.count("\n")
    return out


OPEN = {"(": ")", "[": "]", "{": "}"}


def group_end(toks, i):
    """index of the token closing the delimiter opened at i"""
    depth = 0
    j = i
    while j < len(toks):
        t = toks[j][1]
        if toks[j][0] == "punct":
            if t in OPEN:
                depth += 1
            elif t in (")", "]", "}"):
                depth -= 1
                if depth == 0:
                    return j
        j += 1
    return len(toks) - 1


class MacroDef:
    def __init__(self, name, file, line, arms, nested_in=None):
        self.name = name
        self.file = file
        self.line = line
        self.arms = arms            # list of (matcher tokens, transcriber tokens, line)
        self.nested_in = nested_in


def parse_macros(toks, file, nested_in=None):
    defs = []
    i = 0
    n = len(toks)
    while i < n:
        if toks[i][1] == "macro_rules" and i + 3 < n and toks[i + 1][1] == "!" and toks[i + 2][0] == "ident":
            name = toks[i + 2][1]
            exported = any(toks[k][1] == "macro_export" for k in range(max(0, i - 40), i)
                           if not any(toks[m][1] in (";", "}") for m in range(k, i)))
            j = i + 3
            if toks[j][1] in OPEN:
                end = group_end(toks, j)
                body = toks[j + 1:end]
                arms = []
                k = 0
                while k < len(body):
                    if body[k][1] in OPEN:
                        me = group_end(body, k)
                        matcher = body[k + 1:me]
                        k = me + 1
                        # expect =>
                        if k + 1 < len(body) and body[k][1] == "=" and body[k + 1][1] == ">":
                            k += 2
                            if k < len(body) and body[k][1] in OPEN:
                                te = group_end(body, k)
                                arms.append((matcher, body[k + 1:te], body[k][2]))
                                k = te + 1
                                continue
                    k += 1
                d = MacroDef(name, file, toks[i][2], arms, nested_in)
                d.exported = exported
                defs.append(d)
                for _, tr, _ in arms:
                    defs.extend(parse_macros(tr, file, nested_in=name))
                i = end + 1
                continue
        i += 1
    return defs


def scan_repo(repo, crates=("konst", "konst_kernel", "konst_proc_macros")):
    defs = []
    for c in crates:
        for root, dirs, fs in os.walk(os.path.join(repo, c, "src")):
            for f in sorted(fs):
                if f.endswith(".rs"):
                    p = os.path.join(root, f)
                    with open(p) as fh:
                        src = fh.read()
                    defs.extend(parse_macros(tokenize(src), os.path.relpath(p, repo)))
    return defs


def frag_in_transcriber(d):
    """[(line, text)] for `$name:frag` sequences in the transcribers of d that are not part of a nested
    macro definition's matcher"""
    out = []
    for matcher, tr, _ in d.arms:
        # mask nested macro_rules definitions completely
        masked = set()
        i = 0
        while i < len(tr):
            if tr[i][1] == "macro_rules" and i + 3 < len(tr) and tr[i + 3][1] in OPEN:
                e = group_end(tr, i + 3)
                masked.update(range(i, e + 1))
                i = e + 1
            else:
                i += 1
        for i in range(len(tr) - 3):
            if i in masked:
                continue
            if tr[i][1] == "$" and tr[i + 1][0] == "ident" and tr[i + 2][1] == ":" and tr[i + 3][0] == "ident" and tr[i + 3][1] in FRAGS:
                # `$crate::path` is DOLLAR crate COLON COLON — excluded because tr[i+3] must be a fragment name
                if tr[i + 1][1] == "crate":
                    continue
                # `$x: ty` in an expression context (type ascription such as `let $p: $t`) has `$` before the type;
                out.append((tr[i][2], "$%s:%s" % (tr[i + 1][1], tr[i + 3][1])))
    return out


def compile_errors(d):
    out = []
    for ai, (matcher, tr, line) in enumerate(d.arms):
        for i in range(len(tr) - 2):
            if tr[i][1] == "compile_error" and tr[i + 1][1] == "!":
                e = group_end(tr, i + 2)
                msg = "".join(t[1] for t in tr[i + 3:e] if t[0] in ("str", "rawstr"))
                out.append((tr[i][2], ai, msg))
    return out


def unsafe_tokens(d):
    return [t[2] for _, tr, _ in d.arms for t in tr if t[1] == "unsafe"]


def invoked_macros(d):
    """names of macros invoked in the transcribers of d (`name!` or `$crate::path::name!`)"""
    out = set()
    for _, tr, _ in d.arms:
        for i in range(len(tr) - 1):
            if tr[i][0] == "ident" and tr[i + 1][1] == "!":
                out.add(tr[i][1])
    return out


ITEM_KW = {"fn", "const", "static", "type", "struct", "enum", "trait", "mod", "union"}
_MANGLED = re.compile(r"^__|[A-Z0-9]{8,}|[a-z0-9]{8,}$")


def _looks_reserved(name):
    """the repository's own convention for names a transcriber puts where user tokens can see them: a `__` prefix and/or a random
    alphanumeric tail (`__func_zxe7hgbnjs`, `Ret_KO9Y329U2U`, `__ARGS_81608BFNA5`)"""
    if name.startswith("__"):
        return True
    m = re.search(r"([A-Z0-9]{8,}|[a-z0-9]{8,})$", name)
    return bool(m and re.search(r"[0-9]", m.group(1)) and re.search(r"[A-Za-z]", m.group(1)))


def capturable_names(d):
    """[(line, kind, name)]: item-level names (items and generic parameters - the names macro_rules hygiene does NOT protect) that a
    transcriber of d declares with an ordinary-looking name in a scope into which a macro argument (`$x`) is expanded.  A caller
    whose tokens mention an item of their own with that name would silently get the macro's."""
    out = []
    for matcher, tr, _ in d.arms:
        # enclosing-group table
        parent = {}
        stack = []
        for i, t in enumerate(tr):
            if t[0] == "punct" and t[1] in OPEN:
                stack.append(i)
            elif t[0] == "punct" and t[1] in (")", "]", "}"):
                if stack:
                    stack.pop()
            parent[i] = stack[-1] if stack else None

        def scope_of(i):
            g = parent.get(i)
            if g is None:
                return 0, len(tr) - 1
            return g, group_end(tr, g)

        kinds = {}
        for k in range(len(matcher) - 3):
            if matcher[k][1] == "$" and matcher[k + 1][0] == "ident" and matcher[k + 2][1] == ":" and matcher[k + 3][0] == "ident":
                kinds[matcher[k + 1][1]] = matcher[k + 3][1]

        def has_arg(lo, hi):
            # arguments that can carry value-level tokens (a `ty`/`ident`/`literal`/`lifetime`/`vis` argument cannot smuggle in an
            # expression that names one of the caller's items)
            return any(tr[k][1] == "$" and k + 1 <= hi and tr[k + 1][0] == "ident" and tr[k + 1][1] != "crate"
                       and kinds.get(tr[k + 1][1], "tt") in ("expr", "tt", "block", "stmt", "pat", "pat_param", "item", "meta")
                       for k in range(lo, hi))
        i = 0
        while i < len(tr) - 1:
            t = tr[i]
            if t[0] == "ident" and t[1] in ITEM_KW and tr[i + 1][0] == "ident" and (i == 0 or tr[i - 1][1] not in ("$", "*")):
                name = tr[i + 1][1]
                if t[1] == "const" and name in ("fn", "unsafe", "extern"):
                    i += 1
                    continue
                lo, hi = scope_of(i)
                if has_arg(lo, hi) and not _looks_reserved(name) and not (t[1] == "fn" and parent.get(i) is not None and _in_impl(tr, parent, i)):
                    out.append((t[2], t[1], name))
                if t[1] == "fn" and i + 2 < len(tr) and tr[i + 2][1] == "<":
                    # generic parameters: visible in the signature and the body
                    j = i + 3
                    depth = 1
                    expect = True
                    params = []
                    while j < len(tr) and depth > 0:
                        x = tr[j]
                        if x[1] == "<":
                            depth += 1
                        elif x[1] == ">" and tr[j - 1][1] != "-":
                            depth -= 1
                        elif depth == 1 and x[0] == "ident" and expect and x[1] != "const" and tr[j - 1][1] != "$":
                            params.append((x[2], x[1]))
                            expect = False
                        elif depth == 1 and x[1] == ",":
                            expect = True
                        j += 1
                    # end of the fn: the next `{` group at this nesting level
                    k = j
                    while k < len(tr) and not (tr[k][1] == "{" and parent.get(k) == parent.get(i)):
                        k += 1
                    end = group_end(tr, k) if k < len(tr) else len(tr) - 1
                    if has_arg(i, end):
                        for ln, nm in params:
                            if not _looks_reserved(nm):
                                out.append((ln, "generic parameter", nm))
            i += 1
    return out


def _in_impl(tr, parent, i):
    """the fn at token i is an associated function (inside `impl ... { }` or `trait ... { }`): reached through a path, not by name"""
    g = parent.get(i)
    if g is None:
        return False
    k = g - 1
    while k >= 0 and tr[k][1] not in (";", "}", "{"):
        if tr[k][0] == "ident" and tr[k][1] in ("impl", "trait"):
            return True
        k -= 1
    return False


def family(defs, roots):
    """the macros reachable from `roots` through invocations in transcribers"""
    by_name = {}
    for d in defs:
        by_name.setdefault(d.name, []).append(d)
    seen = set()
    todo = list(roots)
    while todo:
        n = todo.pop()
        if n in seen or n not in by_name:
            continue
        seen.add(n)
        for d in by_name[n]:
            todo.extend(invoked_macros(d))
    return [d for n in sorted(seen) for d in by_name[n]]


def hygiene_rule(ctx, roots, repo):
    """HYGIENE: in the macro family behind a property's public macros, no transcriber declares an ordinary-looking item or
    generic-parameter name in a scope into which a value-carrying macro argument is expanded (see capturable_names)."""
    defs = scan_repo(repo, crates=("konst", "konst_kernel"))
    fam = family(defs, roots)
    missing = [r for r in roots if r not in {d.name for d in fam}]
    for r in missing:
        ctx.violation("HYGIENE", "missing|" + r, "macro %s! not found (renamed?): the name-capture lint has nothing to look at" % r)
    for d in fam:
        for line, kind, name in capturable_names(d):
            ctx.violation("HYGIENE", "%s|%s" % (d.name, name),
                          "%s! declares the %s `%s` where the caller's tokens are expanded: macro_rules hygiene does not cover item-level "
                          "names, so a caller whose closure or expression mentions an item of its own called `%s` silently gets the macro's "
                          "(the repository's convention for such names is a `__` prefix / random tail)" % (d.name, kind, name, name),
                          "%s:%d" % (d.file, line))
        ctx.instance("HYGIENE", d.name, nontrivial=False, sample={"macro": d.name, "file": d.file})
