"""C16 — comparison functions and macros agree with std equality and ordering.

TAB-SCALAR / TAB-OPTION: every non-loop `cmp_*`/`eq_*`/`const_cmp`/`const_eq`
function (scalars, NonZero, bool, char, Ordering, ranges, Option of those,
CmpWrapper impls) is inlined down to primitive comparisons and compared with
Ord/PartialEq for every order type of its two operands and every Some/None
combination; operands must be read from (left, right) in that order.
LEX (E14): in a slice/str ordering function no result that depends on the two
lengths may be produced before the element loop has run out of common elements;
TAB-LEX: the loop-exit decision table (element differs -> by element; common
prefix exhausted -> by lengths) for the index- and pattern-based loops.
TAB-EQLOOP: equality loops.  TAB-U8ORD: constants and to_ordering mapping.
"""
import re

from .. import facts, sym, table
from ..sym import show
from ..table import Row, lt, le, eq, ne, Int

ORD = {"Less": -1, "Equal": 0, "Greater": 1}
SCALARS = {"u8", "u16", "u32", "u64", "u128", "usize", "i8", "i16", "i32", "i64", "i128", "isize", "bool", "char"}
MONO_CASTS = {("bool", "u8"), ("char", "u32"), ("isize", "i8"), ("i8", "i8"), ("u8", "u8")}


def ordering_name(t):
    if t[0] == "agg" and "cmp::Ordering::" in t[1]:
        return t[1].split("Ordering::")[1].split("#")[0]
    return None


def mentions(t, param):
    if t == ("p", param):
        return True
    if isinstance(t, tuple):
        return any(mentions(x, param) for x in t[1:] if isinstance(x, tuple))
    return False


def cmp_fns(prog):
    out = []
    for b in prog.bodies:
        if b.promoted is not None or b.kind not in ("Fn", "AssocFn"):
            continue
        last = b.key.split("::")[-1]
        so = b.rec.get("sig_output", "")
        if b.arg_count != 2:
            continue
        if so == "core::cmp::Ordering" and (last.startswith("cmp_") or last == "const_cmp"):
            out.append((b, "cmp"))
        elif so.endswith("U8Ordering") and last.startswith("cmp_"):
            out.append((b, "cmp"))
        elif so == "bool" and (last.startswith("eq_") or last == "const_eq"):
            out.append((b, "eq"))
    return out


def points_of(paths):
    pts = []
    for p in paths:
        for c in p.conds:
            if c[0] in ("lt", "le", "eq", "ne"):
                for t in (c[1], c[2]):
                    if t[0] not in ("int", "char", "bool") and t not in pts:
                        pts.append(t)
    return pts


def bad_cast(t):
    """a cast inside a compared operand that does not preserve order"""
    if not isinstance(t, tuple) or not t:
        return None
    if t[0] == "cast" and t[1] == "int2int":
        inner = t[3]
        to = t[2]
        if inner[0] == "discr" and to in ("i8", "isize", "i32"):
            return None
        return "cast to %s of %s" % (to, show(inner))
    for x in t[1:]:
        if isinstance(x, tuple):
            r = bad_cast(x)
            if r:
                return r
    return None


def run(ctx):
    ctx.explanation = ("decision tables of every comparison function extracted from MIR (callees inlined to primitive "
                       "comparisons) vs Ord/PartialEq for every order type and Option combination; lexicographic placement "
                       "rule and loop-exit tables for the slice/str loops; U8Ordering constants and mapping")
    for cfg in (["FULL"] if ctx.tier == "quick" else ["FULL", "MIN"]):
        prog = ctx.program(cfg)
        fns = cmp_fns(prog)
        loop_fns = {}
        for b, kind in fns:
            try:
                paths = sym.through_loops(b, prog, inline_all_loopfree=True, max_paths=3000)
            except sym.TooManyPaths:
                ctx.violation("TAB-SCALAR", "%s|%s|%s" % (cfg, b.key, b.rec.get("impl_self")), "too many paths", b.file())
                continue
            paths = sym.split_bool_returns(paths)
            crossed = any(any(e[0] == "loop" for e in p.events) for p in paths)
            ident = "%s|%s%s" % (cfg, b.key, ("<%s>" % b.rec["impl_self"]) if b.rec.get("impl_self") else "")
            if crossed or b.loops():
                loop_fns[ident] = (b, kind, paths)
                continue
            decide_flat(ctx, prog, b, kind, paths, ident)
        for ident, (b, kind, paths) in loop_fns.items():
            decide_loop(ctx, prog, b, kind, paths, ident)
        u8ord(ctx, prog)
    macro_witnesses(ctx)
    inference_programs(ctx)
    ctx.floor("TAB-SCALAR", 60)
    ctx.floor("TAB-OPTION", 30)
    ctx.floor("LEX", 15)
    ctx.floor("TAB-EQLOOP", 14)
    ctx.floor("TAB-U8ORD", 4)


# --------------------------------------------------------------- macros ----
W16 = '''
#![allow(unused, clippy::all)]
use core::cmp::Ordering;
use core::num::NonZeroU8;
const fn key_cmp(a: &u8, b: &u8) -> Ordering { konst::const_cmp!(*a, *b) }
const fn key_eq(a: &u8, b: &u8) -> bool { konst::const_eq!(*a, *b) }
// const_cmp_for! / const_eq_for!, option arm, every comparator form
pub fn cmp_w_for_opt(l: Option<u8>, r: Option<u8>) -> Ordering { konst::const_cmp_for!(option; l, r) }
pub fn cmp_w_for_opt_key(l: Option<i16>, r: Option<i16>) -> Ordering { konst::const_cmp_for!(option; l, r, |x| *x) }
pub fn cmp_w_for_opt_two(l: Option<u8>, r: Option<u8>) -> Ordering { konst::const_cmp_for!(option; l, r, |a, b| konst::const_cmp!(*a, *b)) }
pub fn cmp_w_for_opt_path(l: Option<u8>, r: Option<u8>) -> Ordering { konst::const_cmp_for!(option; l, r, key_cmp) }
pub fn eq_w_for_opt(l: Option<u8>, r: Option<u8>) -> bool { konst::const_eq_for!(option; l, r) }
pub fn eq_w_for_opt_key(l: Option<i16>, r: Option<i16>) -> bool { konst::const_eq_for!(option; l, r, |x| *x) }
pub fn eq_w_for_opt_two(l: Option<u8>, r: Option<u8>) -> bool { konst::const_eq_for!(option; l, r, |a, b| konst::const_eq!(*a, *b)) }
pub fn eq_w_for_opt_path(l: Option<u8>, r: Option<u8>) -> bool { konst::const_eq_for!(option; l, r, key_eq) }
// slice arm
pub fn cmp_w_for_slice(l: &[u8], r: &[u8]) -> Ordering { konst::const_cmp_for!(slice; l, r) }
pub fn cmp_w_for_slice_key(l: &[i16], r: &[i16]) -> Ordering { konst::const_cmp_for!(slice; l, r, |x| *x) }
pub fn cmp_w_for_slice_two(l: &[u8], r: &[u8]) -> Ordering { konst::const_cmp_for!(slice; l, r, |a, b| konst::const_cmp!(*a, *b)) }
pub fn cmp_w_for_slice_path(l: &[u8], r: &[u8]) -> Ordering { konst::const_cmp_for!(slice; l, r, key_cmp) }
pub fn eq_w_for_slice(l: &[u8], r: &[u8]) -> bool { konst::const_eq_for!(slice; l, r) }
pub fn eq_w_for_slice_key(l: &[i16], r: &[i16]) -> bool { konst::const_eq_for!(slice; l, r, |x| *x) }
pub fn eq_w_for_slice_two(l: &[u8], r: &[u8]) -> bool { konst::const_eq_for!(slice; l, r, |a, b| konst::const_eq!(*a, *b)) }
pub fn eq_w_for_slice_path(l: &[u8], r: &[u8]) -> bool { konst::const_eq_for!(slice; l, r, key_eq) }
// const_eq_for!, range and range_inclusive arms, every comparator form
pub fn eq_w_for_range(l: core::ops::Range<u8>, r: core::ops::Range<u8>) -> bool { konst::const_eq_for!(range; l, r) }
pub fn eq_w_for_range_key(l: core::ops::Range<i16>, r: core::ops::Range<i16>) -> bool { konst::const_eq_for!(range; l, r, |x| *x) }
pub fn eq_w_for_range_two(l: core::ops::Range<u8>, r: core::ops::Range<u8>) -> bool { konst::const_eq_for!(range; l, r, |a, b| konst::const_eq!(*a, *b)) }
pub fn eq_w_for_range_path(l: core::ops::Range<u8>, r: core::ops::Range<u8>) -> bool { konst::const_eq_for!(range; l, r, key_eq) }
pub fn eq_w_for_rangei(l: core::ops::RangeInclusive<u8>, r: core::ops::RangeInclusive<u8>) -> bool { konst::const_eq_for!(range_inclusive; l, r) }
pub fn eq_w_for_rangei_key(l: core::ops::RangeInclusive<i16>, r: core::ops::RangeInclusive<i16>) -> bool { konst::const_eq_for!(range_inclusive; l, r, |x| **x) }
pub fn eq_w_for_rangei_two(l: core::ops::RangeInclusive<u8>, r: core::ops::RangeInclusive<u8>) -> bool { konst::const_eq_for!(range_inclusive; l, r, |a, b| konst::const_eq!(**a, **b)) }
pub fn eq_w_for_rangei_path(l: core::ops::RangeInclusive<u8>, r: core::ops::RangeInclusive<u8>) -> bool { konst::const_eq_for!(range_inclusive; l, r, key_eq) }
// const_cmp! / const_eq! coercion on the supported types
pub fn cmp_w_u8(l: u8, r: u8) -> Ordering { konst::const_cmp!(l, r) }
pub fn cmp_w_i64(l: i64, r: i64) -> Ordering { konst::const_cmp!(l, r) }
pub fn cmp_w_bool(l: bool, r: bool) -> Ordering { konst::const_cmp!(l, r) }
pub fn cmp_w_char(l: char, r: char) -> Ordering { konst::const_cmp!(l, r) }
pub fn cmp_w_nonzero(l: NonZeroU8, r: NonZeroU8) -> Ordering { konst::const_cmp!(l, r) }
pub fn cmp_w_opt_i32(l: Option<i32>, r: Option<i32>) -> Ordering { konst::const_cmp!(l, r) }
pub fn cmp_w_opt_str(l: Option<&str>, r: Option<&str>) -> Ordering { konst::const_cmp!(l, r) }
pub fn cmp_w_str(l: &str, r: &str) -> Ordering { konst::const_cmp!(l, r) }
pub fn cmp_w_bytes(l: &[u8], r: &[u8]) -> Ordering { konst::const_cmp!(l, r) }
pub fn cmp_w_ordering(l: Ordering, r: Ordering) -> Ordering { konst::const_cmp!(l, r) }
pub fn eq_w_u8(l: u8, r: u8) -> bool { konst::const_eq!(l, r) }
pub fn eq_w_i64(l: i64, r: i64) -> bool { konst::const_eq!(l, r) }
pub fn eq_w_bool(l: bool, r: bool) -> bool { konst::const_eq!(l, r) }
pub fn eq_w_char(l: char, r: char) -> bool { konst::const_eq!(l, r) }
pub fn eq_w_nonzero(l: NonZeroU8, r: NonZeroU8) -> bool { konst::const_eq!(l, r) }
pub fn eq_w_opt_i32(l: Option<i32>, r: Option<i32>) -> bool { konst::const_eq!(l, r) }
pub fn eq_w_opt_str(l: Option<&str>, r: Option<&str>) -> bool { konst::const_eq!(l, r) }
pub fn eq_w_str(l: &str, r: &str) -> bool { konst::const_eq!(l, r) }
pub fn eq_w_bytes(l: &[u8], r: &[u8]) -> bool { konst::const_eq!(l, r) }
pub fn eq_w_ordering(l: Ordering, r: Ordering) -> bool { konst::const_eq!(l, r) }
pub fn eq_w_range(l: core::ops::Range<usize>, r: core::ops::Range<usize>) -> bool { konst::const_eq!(l, r) }
// assertc_eq! / assertc_ne!: returns iff == / != holds, panics otherwise
pub fn asserteq_w_u8(l: u8, r: u8) { konst::assertc_eq!(l, r) }
pub fn assertne_w_u8(l: u8, r: u8) { konst::assertc_ne!(l, r) }
pub fn asserteq_w_i32(l: i32, r: i32) { konst::assertc_eq!(l, r) }
pub fn assertne_w_i32(l: i32, r: i32) { konst::assertc_ne!(l, r) }
pub fn asserteq_w_char(l: char, r: char) { konst::assertc_eq!(l, r, "with a message") }
pub fn assertne_w_char(l: char, r: char) { konst::assertc_ne!(l, r, "with a message") }
'''


INFER_PROGS = [
    ("const_cmp!/typed,untyped", "pub const C: core::cmp::Ordering = konst::const_cmp!(3u32, 5);"),
    ("const_eq!/typed,untyped", "pub const C: bool = konst::const_eq!(3u8, 5);"),
    ("const_eq!/str", "pub const C: bool = konst::const_eq!(\"a\", \"b\");"),
    ("const_cmp!/temporaries", "pub fn f(a: &str, b: &str) -> core::cmp::Ordering { konst::const_cmp!(a.to_uppercase().as_str(), b.to_lowercase().as_str()) }"),
    ("const_eq!/temporaries", "pub fn f(a: &str, b: &str) -> bool { konst::const_eq!(a.to_uppercase().as_str(), b.to_lowercase().as_str()) }"),
    ("const_eq_for!/temporaries", "pub fn f(a: &[u8], b: &[u8]) -> bool { konst::const_eq_for!(slice; a.to_vec().as_slice(), b.to_vec().as_slice()) }"),
    ("const_cmp!/option", "pub const C: core::cmp::Ordering = konst::const_cmp!(Some(3u8), None);"),
    ("assertc_eq!/typed,untyped", "pub const C: () = konst::assertc_eq!(3u8, 3);"),
    ("assertc_ne!/typed,untyped", "pub const C: () = konst::assertc_ne!(3u8, 4);"),
]


def inference_programs(ctx):
    """(only the documented direction: the right operand's type may be inferred from the left one - `min!(3, 5u32)` is rejected
    by the pinned tree as well and is not part of the property)
    ACC-INFER: call shapes in which one operand's type is inferred from the other must keep compiling (coerce_to_cmp! infers
    both markers from both operands; a slip there rejects valid programs)"""
    res = facts.compile_many([(n, "#![allow(unused)]\n" + src + "\n") for n, src in INFER_PROGS], ctx.th)
    for (n, src), r in zip(INFER_PROGS, res):
        if not r["ok"]:
            ctx.violation("ACC-INFER", n, "a valid program is rejected: `%s`: %s" % (src, "; ".join(e["message"][:120] for e in r["errors"][:2])), detail={"program": src})
        ctx.instance("ACC-INFER", n, sample={"program": src, "accepted": r["ok"]})
    ctx.floor("ACC-INFER", len(INFER_PROGS))


def macro_witnesses(ctx):
    """the comparison macros expanded in a witness crate: each witness function is decided by the same tables as
    the crate's own cmp_*/eq_* functions (TAB-SCALAR / TAB-OPTION / DLG-CMP / LEX / TAB-LEX / TAB-EQLOOP); the assert macros
    by TAB-ASSERT (returns exactly when the relation holds)"""
    from .c19 import witness_program
    prog, diag = witness_program(ctx, "w16", W16)
    if prog is None:
        ctx.violation("TAB-MACRO", "witness", "the comparison-macro witness crate does not compile:\n%s" % diag[-2500:])
        return
    n = 0
    for b in prog.bodies:
        if b.crate != "w16" or b.promoted is not None or b.kind != "Fn":
            continue
        last = b.key.split("::")[-1]
        if last.startswith("cmp_w_") or last.startswith("eq_w_"):
            kind = "cmp" if last.startswith("cmp_") else "eq"
            ident = "FULL|macro|%s" % last
            try:
                paths = sym.split_bool_returns(sym.through_loops(b, prog, inline_all_loopfree=True, max_paths=3000))
            except sym.TooManyPaths:
                ctx.violation("TAB-MACRO", ident, "too many paths", b.file())
                continue
            if any(any(e[0] == "loop" for e in p.events) for p in paths) or b.loops():
                decide_loop(ctx, prog, b, kind, paths, ident)
            else:
                decide_flat(ctx, prog, b, kind, paths, ident)
            ctx.instance("TAB-MACRO", ident, sample={"witness": last})
            n += 1
        elif last.startswith("asserteq_w_") or last.startswith("assertne_w_"):
            decide_assert(ctx, prog, b, last.startswith("asserteq"), "FULL|macro|%s" % last)
            n += 1
    ctx.floor("TAB-MACRO", 37)
    ctx.floor("TAB-ASSERT", 6)


def decide_assert(ctx, prog, b, want_eq, ident):
    try:
        paths = sym.through_loops(b, prog, inline_all_loopfree=True, max_paths=3000)
    except sym.TooManyPaths:
        ctx.violation("TAB-ASSERT", ident, "too many paths", b.file())
        return
    paths = [p for p in paths if p.kind in ("return", "panic")]
    pts = points_of(paths)
    left = [t for t in pts if mentions(t, 1) and not mentions(t, 2)]
    right = [t for t in pts if mentions(t, 2) and not mentions(t, 1)]
    discrs = []
    for p in paths:
        for c in p.conds:
            if c[0] in ("is", "notin_variants") and c[1] not in discrs and c[1][0] != "call":
                discrs.append(c[1])
    if len(left) != 1 or len(right) != 1:
        ctx.violation("TAB-ASSERT", ident, "cannot identify the two compared operands", b.file())
        return
    A, B = left[0], right[0]
    ok_kind, bad_kind = "return", "panic"
    optl = [d for d in discrs if mentions(d, 1) and not mentions(d, 2)]
    optr = [d for d in discrs if mentions(d, 2) and not mentions(d, 1)]

    def rows_for(pre, holds):
        return Row(pre, None, kind=ok_kind if holds == want_eq else bad_kind)
    rows = []
    vdom = None
    if optl and optr:
        dl, dr = optl[0], optr[0]
        vdom = {table.strip_gargs(dl): [0, 1], table.strip_gargs(dr): [0, 1]}
        ss = [("is", dl, 1), ("is", dr, 1)]
        rows = [rows_for(ss + [eq(A, B)], True), rows_for(ss + [ne(A, B)], False),
                rows_for([("is", dl, 1), ("is", dr, 0)], False), rows_for([("is", dl, 0), ("is", dr, 1)], False),
                rows_for([("is", dl, 0), ("is", dr, 0)], True)]
    else:
        rows = [rows_for([eq(A, B)], True), rows_for([ne(A, B)], False)]
    for r, nm in zip(rows, ["l==r", "l!=r", "(Some,None)", "(None,Some)", "(None,None)"]):
        r.name = nm
    try:
        mism, n, dec = table.compare(paths, rows, nonneg=False, variant_domain=vdom)
    except table.Undecided as e:
        ctx.violation("TAB-ASSERT", ident, "table undecided: %s" % e, b.file())
        return
    ctx.instance("TAB-ASSERT", ident, nontrivial=dec >= 2, sample={"witness": ident, "cases": n, "decided": dec})
    for m in mism[:2]:
        ctx.violation("TAB-ASSERT", ident + "|" + (m.row.name or "-"), "%s: %s" % (b.key.split("::")[-1], m), b.file())


# ------------------------------------------------------------------ flat ----
def decide_flat(ctx, prog, b, kind, paths, ident):
    """functions without loops after inlining: scalar / option / delegation-to-loop-function tables"""
    pts = points_of(paths)
    discrs = []
    for p in paths:
        for c in p.conds:
            if c[0] in ("is", "notin_variants") and c[1] not in discrs:
                discrs.append(c[1])
    # delegation to a loop function: outcome is a call term / switch over a call result
    calls = set()
    for p in paths:
        for e in p.events:
            if e[0] == "call":
                calls.add(e[1])
    left = [t for t in pts if mentions(t, 1) and not mentions(t, 2)]
    right = [t for t in pts if mentions(t, 2) and not mentions(t, 1)]
    mixed = [t for t in pts if mentions(t, 1) and mentions(t, 2)]
    rule = "TAB-OPTION" if discrs and any(d in (("p", 1), ("p", 2), ("deref", ("p", 1)), ("deref", ("p", 2)),
                                               ("field", ("deref", ("p", 1)), 0), ("deref", ("deref", ("p", 1))),
                                               ("deref", ("deref", ("p", 2)))) or _is_opt(d) for d in discrs) else "TAB-SCALAR"
    for t in pts:
        bc = bad_cast(t)
        if bc:
            ctx.violation(rule, ident + "|cast", "%s compares through an order-changing %s" % (b.key, bc), b.file())
    if len(left) > 1 or len(right) > 1:
        # ranges (start, end) etc.: handled as conjunction of pairwise equalities
        if kind == "eq":
            return decide_eq_conj(ctx, b, paths, ident, left, right)
        ctx.violation(rule, ident, "cannot identify the two compared operands: %s / %s" % ([show(x) for x in left], [show(x) for x in right]), b.file())
        return
    if mixed:
        # comparison result of a callee used as a point (e.g. discriminant of inner call): treated as opaque
        pass
    A = left[0] if left else None
    B = right[0] if right else None
    optl = [d for d in discrs if mentions(d, 1) and not mentions(d, 2) and d[0] != "call"]
    optr = [d for d in discrs if mentions(d, 2) and not mentions(d, 1) and d[0] != "call"]
    inner_calls = [d for d in discrs if d[0] == "call" or (d[0] in ("field", "vfield") and _root_call(d))]
    rows = []

    def expect_ord(name):
        def f(path, case):
            got = ordering_name(path.value)
            return None if got == name else "expected Ordering::%s, got %s" % (name, show(path.value))
        return f

    def expect_bool(v):
        def f(path, case):
            got = case.truth(path.value)
            if got is None:
                return "boolean result %s not decided by the case" % show(path.value)
            return None if got == v else "expected %s, got %s" % (v, got)
        return f

    def scalar_rows(pre):
        if A is None or B is None:
            return None
        if kind == "cmp":
            return [Row(pre + [eq(A, B)], expect_ord("Equal"), name="l==r"),
                    Row(pre + [lt(A, B)], expect_ord("Less"), name="l<r"),
                    Row(pre + [lt(B, A)], expect_ord("Greater"), name="l>r")]
        return [Row(pre + [eq(A, B)], expect_bool(True), name="l==r"), Row(pre + [ne(A, B)], expect_bool(False), name="l!=r")]

    def delegated(path, case):
        """(Some,Some) / wrapper case with non-scalar payload: must be the inner comparison on (left, right) in order"""
        v = path.value
        t = v
        if kind == "cmp" and ordering_name(v):
            # result of switching over an inner U8Ordering/Ordering call: find the call in the conditions
            cs = [c[1] for c in path.conds if c[0] in ("in", "notin", "is", "notin_variants") and _root_call(c[1])]
            if not cs:
                return "constant result %s without consulting the operands" % show(v)
            t = _root_call(cs[-1])
        if kind == "eq" and t[0] in ("bool",):
            cs = [c[1] for c in path.conds if c[0] in ("holds", "nholds") and _root_call(c[1])]
            if not cs:
                return "constant result %s without consulting the operands" % show(v)
            t = _root_call(cs[-1])
        c = _root_call(t)
        if c is None:
            return "result %s is not an inner comparison call" % show(v)
        args = c[3:]
        if len(args) != 2 or not (mentions(args[0], 1) and not mentions(args[0], 2) and mentions(args[1], 2) and not mentions(args[1], 1)):
            return "inner comparison %s does not take (left, right) in that order" % show(c)
        nm = c[1].split("::")[-1]
        want = ("cmp_", "const_cmp") if kind == "cmp" else ("eq_", "const_eq")
        if not (nm.startswith(want[0]) or nm == want[1]):
            return "inner call %s is not an %s function" % (c[1], "ordering" if kind == "cmp" else "equality")
        return None

    if optl and optr:
        dl, dr = optl[0], optr[0]
        some_some = scalar_rows([("is", dl, 1), ("is", dr, 1)])
        if some_some is None:
            some_some = [Row([("is", dl, 1), ("is", dr, 1)], delegated, kind="any", name="(Some,Some)")]
        if kind == "cmp":
            rows = some_some + [Row([("is", dl, 1), ("is", dr, 0)], expect_ord("Greater"), name="(Some,None)"),
                                Row([("is", dl, 0), ("is", dr, 1)], expect_ord("Less"), name="(None,Some)"),
                                Row([("is", dl, 0), ("is", dr, 0)], expect_ord("Equal"), name="(None,None)")]
        else:
            rows = some_some + [Row([("is", dl, 1), ("is", dr, 0)], expect_bool(False), name="(Some,None)"),
                                Row([("is", dl, 0), ("is", dr, 1)], expect_bool(False), name="(None,Some)"),
                                Row([("is", dl, 0), ("is", dr, 0)], expect_bool(True), name="(None,None)")]
        vdom = {table.strip_gargs(dl): [0, 1], table.strip_gargs(dr): [0, 1]}
        rule = "TAB-OPTION"
    elif optl or optr:
        ctx.violation(rule, ident, "only one operand's discriminant is inspected", b.file())
        return
    else:
        rows = scalar_rows([])
        vdom = None
        if rows is None:
            # pure delegation (wrapper around a loop function)
            bad = None
            tys = " ".join(b.rec.get("sig_inputs", []))
            phantom = "PhantomData" in tys or "PhantomPinned" in tys
            for p in paths:
                if p.kind == "return" and not (phantom and (ordering_name(p.value) == "Equal" or p.value == ("bool", True))):
                    bad = bad or delegated(p, None)
            if bad:
                ctx.violation("DLG-CMP", ident, "%s: %s" % (b.key, bad), b.file())
            ctx.instance("DLG-CMP", ident, sample={"fn": b.key, "paths": len(paths)})
            return
    try:
        mism, n, dec = table.compare(paths, rows, nonneg=False, variant_domain=vdom)
    except table.Undecided as e:
        ctx.violation(rule, ident, "table undecided: %s" % e, b.file())
        return
    ctx.instance(rule, ident, nontrivial=dec >= 2, sample={"fn": b.key, "self": b.rec.get("impl_self"), "cases": n, "decided": dec})
    for m in mism[:2]:
        ctx.violation(rule, ident + "|" + (m.row.name or "-"), "%s disagrees with std: %s" % (b.key, m), b.file())
    # operand order: A from left, B from right is by construction; also the function must look at both
    if A is None or B is None:
        if not (optl and optr):
            ctx.violation(rule, ident + "|operands", "%s does not compare an operand from each argument" % b.key, b.file())


def _is_opt(d):
    return True


def _root_call(t):
    while isinstance(t, tuple) and t and t[0] in ("field", "vfield", "discr", "cast"):
        t = t[1] if t[0] != "cast" else t[3]
    if isinstance(t, tuple) and t and t[0] == "call":
        if t[1].endswith("U8Ordering::to_ordering") and len(t) == 4:
            return _root_call(t[3]) or t      # Less/Equal/Greater mapping of the byte encoding: decided by TAB-U8ORD
        return t
    return None


def decide_eq_conj(ctx, b, paths, ident, left, right):
    """equality of multi-field values (ranges): true iff every pair of corresponding fields is equal"""
    pairs = []
    wrapper = "CmpWrapper" in (b.rec.get("impl_self") or "")
    rs = {}
    for r in right:
        rs[_sig(r, 2)] = r
    for l in left:
        sg = _sig(l, 1)
        if sg is not None and wrapper and sg[:1] == (("f", 0),):
            sg = sg[1:]
        if sg in rs:
            pairs.append((l, rs[sg]))
    if len(pairs) != len(left) or len(pairs) != len(right):
        ctx.violation("TAB-SCALAR", ident, "%s compares fields that do not correspond: %s vs %s" % (
            b.key, [show(x) for x in left], [show(x) for x in right]), b.file())
        return

    def expect(v):
        def f(path, case):
            got = case.truth(path.value)
            if got is None:
                return "result %s undecided" % show(path.value)
            return None if got == v else "expected %s, got %s" % (v, got)
        return f
    import itertools
    rows = []
    for combo in itertools.product([True, False], repeat=len(pairs)):
        guards = [eq(a, c) if e else ne(a, c) for e, (a, c) in zip(combo, pairs)]
        rows.append(Row(guards, expect(all(combo)), name="fields equal: %s" % (combo,)))
    try:
        mism, n, dec = table.compare(paths, rows, nonneg=False)
    except table.Undecided as e:
        ctx.violation("TAB-SCALAR", ident, "table undecided: %s" % e, b.file())
        return
    ctx.instance("TAB-SCALAR", ident, nontrivial=dec >= 2, sample={"fn": b.key, "fields": len(pairs), "cases": n})
    for m in mism[:2]:
        ctx.violation("TAB-SCALAR", ident + "|" + (m.row.name or "-"), "%s disagrees with ==: %s" % (b.key, m), b.file())


def _sig(t, param):
    """projection steps from parameter `param` to this operand, ignoring (de)references"""
    steps = []
    while isinstance(t, tuple) and t:
        k = t[0]
        if k in ("deref", "ref"):
            t = t[1]
        elif k == "field":
            steps.append(("f", t[2]))
            t = t[1]
        elif k == "vfield":
            steps.append(("vf", t[2], t[3]))
            t = t[1]
        elif k == "call" and len(t) == 4:
            steps.append(("c", t[1]))
            t = t[3]
        elif k == "cast":
            steps.append(("cast", t[2]))
            t = t[3]
        elif t == ("p", param):
            steps.reverse()
            return tuple(steps)
        else:
            return None
    return None


def _swap(t):
    if t == ("p", 1):
        return ("p", 2)
    if isinstance(t, tuple):
        return tuple(_swap(x) if isinstance(x, tuple) else x for x in t)
    return t


# ------------------------------------------------------------------ loops ----
def u8_value(t, case, consts):
    """U8Ordering term -> 'Less'|'Greater'|'Equal'|None under the case"""
    if t[0] == "const":
        nm = t[1].split("::")[-1]
        v = consts.get(nm)
        return {0: "Less", 1: "Greater"}.get(v, "Equal") if v is not None else None
    if t[0] == "agg" and "U8Ordering" in t[1]:
        x = t[2]
        if x[0] == "cast":
            x = x[3]
        if x[0] == "int":
            return {0: "Less", 1: "Greater"}.get(x[1], "Equal")
        tr = case.truth(x)
        if tr is None:
            return None
        return "Greater" if tr else "Less"
    n = ordering_name(t)
    return n


def decide_loop(ctx, prog, b, kind, paths_unused, ident):
    consts = u8_consts(prog)
    A, B = ("len", ("p", 1)), ("len", ("p", 2))
    try:
        paths = sym.split_bool_returns(sym.through_loops(b, prog, inline_all_loopfree=True, keep_back=True, max_paths=3000))
    except sym.TooManyPaths:
        ctx.violation("TAB-LEX", ident, "too many paths", b.file())
        return
    paths = _fold_u8_consts(paths, consts)
    pre = [p for p in paths if not any(e[0] == "loop" for e in p.events)]
    post = [p for p in paths if any(e[0] == "loop" for e in p.events)]
    back = [p for p in post if p.kind == "back"]
    rule = "TAB-LEX" if kind == "cmp" else "TAB-EQLOOP"
    if kind == "cmp":
        # ---- E14: nothing decided from the lengths before the element loop
        for p in pre:
            if p.kind != "return":
                continue
            dep = any(c[0] in ("lt", "le", "ne", "eq") and {c[1], c[2]} == {A, B} for c in p.conds)
            if dep:
                ctx.violation("LEX", ident, "%s returns %s from a comparison of the two lengths before comparing any element: "
                              "slice/str ordering must be lexicographic (e.g. [2] vs [1,1])" % (b.key, show(p.value)), b.file(),
                              detail={"path": [sym.show_atom(c) for c in p.conds]})
        ctx.instance("LEX", ident, sample={"fn": b.key, "pre_loop_returns": len([p for p in pre if p.kind == "return"])})
    style = loop_style(post)
    if style is None or not back:
        ctx.violation(rule, ident, "element loop of %s has an unrecognised shape" % b.key, b.file())
        return
    constraints = []
    if style[0] == "index":
        I = style[1]
        il = I[1]
        # premises of the counter invariant: starts at 0, +1 per iteration, guarded by I < X (or I != X)
        for p in post:
            for e in p.events:
                if e[0] == "loop":
                    init = dict(e[2]).get(il)
                    if init != sym.I(0):
                        ctx.violation(rule, ident + "|counter-init", "%s: element index starts at %s, not 0" % (b.key, show(init) if init else "?"), b.file())
        guards = None
        for p in back:
            if p.env.get(il) != ("bin", "Add", I, sym.I(1)):
                ctx.violation(rule, ident + "|counter-step", "%s: element index is updated to %s, expected +1" % (b.key, show(p.env.get(il, I))), b.file())
            g = set()
            for c in p.conds:
                if c[0] == "lt" and c[1] == I and "L" not in repr(c[2]).replace(repr(I), ""):
                    g.add(c[2])
                if c[0] == "ne" and I in (c[1], c[2]):
                    g.add(c[2] if c[1] == I else c[1])
            guards = g if guards is None else guards & g
        for x in guards or ():
            constraints.append(le(I, x))
        elem = _elem_atom(back, I)
    else:
        ls, rs = style[1], style[2]
        for p in back:
            ok = p.env.get(ls[1]) == ("ref", ("subslice", ("deref", ls), 1, 0, True)) and \
                p.env.get(rs[1]) == ("ref", ("subslice", ("deref", rs), 1, 0, True))
            if not ok:
                ctx.violation(rule, ident + "|advance", "%s: the two slices do not both advance by exactly one element per iteration" % b.key, b.file())
        for p in post:
            for e in p.events:
                if e[0] == "loop":
                    init = dict(e[2])
                    if init.get(ls[1]) != ("p", 1) or init.get(rs[1]) != ("p", 2):
                        ctx.violation(rule, ident + "|init", "%s: the loop does not start from (left, right)" % b.key, b.file())
        elem = _elem_atom(back, None)
    if elem is None:
        ctx.violation(rule, ident, "%s: cannot find the element comparison that lets the loop continue" % b.key, b.file())
        return
    rows = lex_rows(style, consts, elem) if kind == "cmp" else eq_rows(style, elem)
    try:
        mism, n, dec = table.compare(paths, rows, nonneg=True, constraints=constraints)
    except table.Undecided as e:
        ctx.violation(rule, ident, "table undecided: %s" % e, b.file())
        return
    ctx.instance(rule, ident, nontrivial=dec >= 2, sample={"fn": b.key, "style": style[0], "cases": n, "decided": dec,
                                                          "invariant": [sym.show_atom(c) for c in constraints]})
    for m in mism[:2]:
        ctx.violation(rule, ident + "|" + (m.row.name or "-"), "%s %s: %s" % (
            b.key, "is not lexicographic" if kind == "cmp" else "disagrees with ==", m), b.file())


def _fold_u8_consts(paths, consts):
    """tests between two U8Ordering constants (`ord.0 != Self::EQUAL.0` after inlining a helper that returned one of them) are
    decided from the constants' values (TAB-U8ORD pins them): a path needing a false one is dropped, true ones disappear"""
    def val(t):
        if t[0] == "field" and t[2] == 0 and t[1][0] == "const" and "U8Ordering::" in t[1][1]:
            return consts.get(t[1][1].split("::")[-1])
        if t[0] == "int":
            return t[1]
        return None
    out = []
    for p in paths:
        keep = []
        dead = False
        for c in p.conds:
            if c[0] in ("eq", "ne") and len(c) == 3 and "U8Ordering::" in repr(c):
                a, b = val(c[1]), val(c[2])
                if a is not None and b is not None:
                    if (a == b) != (c[0] == "eq"):
                        dead = True
                        break
                    continue
            keep.append(c)
        if not dead:
            p.conds = tuple(keep)
            out.append(p)
    return out


def _elem_atom(back, I):
    """the condition under which the loop continues, beyond the bounds guards: elements (heads) are equal"""
    found = None
    for p in back:
        cand = []
        for c in p.conds:
            r = repr(c)
            if "'index'" in r or "'cidx'" in r:
                if c[0] in ("eq", "holds", "nholds", "in", "notin", "is", "notin_variants", "ne"):
                    cand.append(c)
        if not cand:
            # `!(l < r) && !(l > r)`: the two one-sided tests of one pair of elements together are their equality
            les = [c for c in p.conds if c[0] == "le" and ("'index'" in repr(c) or "'cidx'" in repr(c))]
            if len(les) == 2 and les[0][1:] == (les[1][2], les[1][1]):
                a, b = les[0][1], les[0][2]
                if "('p', 2)" in repr(a) and "('p', 1)" in repr(b):
                    a, b = b, a
                p.conds = tuple(c for c in p.conds if c not in les) + (eq(a, b),)
                cand = [eq(a, b)]
        if len(cand) != 1:
            return None
        if found is not None and found != cand[0]:
            return None
        found = cand[0]
    return found


def loop_style(post):
    """('index', I) when the loop indexes both operands with one counter; ('pattern', ls, rs) for slice-pattern loops"""
    A, B = ("len", ("p", 1)), ("len", ("p", 2))
    counters = set()
    carried = set()
    for p in post:
        for c in p.conds:
            for t in c[1:]:
                if isinstance(t, tuple):
                    _collect(t, counters, carried)
    idx = [c for c in counters]
    if len(idx) == 1 and not carried:
        return ("index", idx[0])
    if not idx and len(carried) == 2:
        ls = sorted(carried)
        return ("pattern", ("L", ls[0]), ("L", ls[1]))
    return None


def _collect(t, counters, carried):
    if not isinstance(t, tuple) or not t:
        return
    if t[0] == "L":
        counters.add(t)
        return
    if t[0] == "len" and t[1][0] == "L":
        carried.add(t[1][1])
        return
    if t[0] in ("cidx", "index") and t[1][0] == "deref" and t[1][1][0] == "L":
        carried.add(t[1][1][1])
        if t[0] == "index":
            _collect(t[2], counters, carried)
        return
    for x in t[1:]:
        if isinstance(x, tuple):
            _collect(x, counters, carried)


def lex_rows(style, consts, elem):
    A, B = ("len", ("p", 1)), ("len", ("p", 2))

    def by(name):
        def f(path, case):
            got = u8_value(path.value, case, consts)
            return None if got == name else "expected %s, got %s (%s)" % (name, got, show(path.value))
        return f
    cont = Row([], None, kind="back", name="elements equal: continue")
    if style[0] == "index":
        I = style[1]
        ea, eb = ("index", ("deref", ("p", 1)), I), ("index", ("deref", ("p", 2)), I)
        if elem != eq(ea, eb):
            # elements compared through an ordering function: inner(left[i], right[i]) (operands in this order), continue on its Equal
            c = _root_call(elem[1])
            nm = c[1].split("::")[-1] if c is not None else ""
            if c is None or len(c) != 5 or not (_mentions_L(c[3], ea) and not _mentions_L(c[3], ("p", 2)) and _mentions_L(c[4], eb) and not _mentions_L(c[4], ("p", 1))) \
                    or not (nm.startswith("cmp_") or nm in ("const_cmp", "cmp_inner")):
                return [Row([], lambda path, case: "the loop continues on %s, expected left[i] == right[i]" % sym.show_atom(elem), kind="any", name="element test")]

            def verdict_i(path, case):
                got = u8_value(path.value, case, consts) or ordering_name(path.value)
                if got == "Equal":
                    return "returns Equal although the elements differ"
                if got is None and _root_call(path.value) != c:
                    return "the result %s is not the verdict of the element comparison" % show(path.value)
                return None
            inb = [lt(I, A), lt(I, B)]
            return [Row(inb + [elem], None, kind="back", name="elements equal: continue"),
                    Row(inb + [_neg(elem)], verdict_i, name="elements differ: verdict of the elements"),
                    Row([le(A, I), eq(A, B)], by("Equal"), name="common prefix exhausted, same length"),
                    Row([le(A, I), lt(A, B)], by("Less"), name="left is a proper prefix"),
                    Row([le(B, I), lt(B, A)], by("Greater"), name="right is a proper prefix")]
        return [Row([lt(I, A), lt(I, B), lt(ea, eb)], by("Less"), name="first differing element: l<r"),
                Row([lt(I, A), lt(I, B), lt(eb, ea)], by("Greater"), name="first differing element: l>r"),
                Row([lt(I, A), lt(I, B), eq(ea, eb)], None, kind="back", name="elements equal: continue"),
                Row([le(A, I), eq(A, B)], by("Equal"), name="common prefix exhausted, same length"),
                Row([le(A, I), lt(A, B)], by("Less"), name="left is a proper prefix"),
                Row([le(B, I), lt(B, A)], by("Greater"), name="right is a proper prefix")]
    ls, rs = style[1], style[2]
    la, lb = ("len", ls), ("len", rs)
    ha, hb = ("cidx", ("deref", ls), 0, False), ("cidx", ("deref", rs), 0, False)
    if elem in (eq(ha, hb), eq(hb, ha)):
        # heads compared as primitives (the element comparison was inlined)
        both = [le(Int(1), la), le(Int(1), lb)]
        return [Row(both + [eq(ha, hb)], None, kind="back", name="heads equal: continue"),
                Row(both + [lt(ha, hb)], by("Less"), name="heads differ: l<r"),
                Row(both + [lt(hb, ha)], by("Greater"), name="heads differ: l>r"),
                Row([lt(la, Int(1)), lt(lb, Int(1))], by("Equal"), name="both exhausted"),
                Row([lt(la, Int(1)), le(Int(1), lb)], by("Less"), name="left exhausted first"),
                Row([le(Int(1), la), lt(lb, Int(1))], by("Greater"), name="right exhausted first")]
    c = _root_call(elem[1])
    if c is None or len(c) != 5 or not (_mentions_L(c[3], ls) and not _mentions_L(c[3], rs) and _mentions_L(c[4], rs) and not _mentions_L(c[4], ls)):
        return [Row([], lambda path, case: "heads are not compared as inner(left head, right head): %s" % sym.show_atom(elem), kind="any", name="element test")]
    nm = c[1].split("::")[-1]
    if not (nm.startswith("cmp_") or nm in ("const_cmp", "cmp_inner")):
        return [Row([], lambda path, case: "heads compared with %s, not an ordering function" % c[1], kind="any", name="element test")]

    def verdict(path, case):
        # the result must be the inner comparison's own verdict
        got = u8_value(path.value, case, consts) or ordering_name(path.value)
        if got == "Equal":
            return "returns Equal although the heads differ"
        return None
    notelem = sym.atom_neg(elem) if elem[0] not in ("in", "notin") else None
    both = [le(Int(1), la), le(Int(1), lb)]
    return [Row(both + [elem], None, kind="back", name="heads equal: continue"),
            Row(both + [_neg(elem)], verdict, name="heads differ: verdict of the heads"),
            Row([lt(la, Int(1)), lt(lb, Int(1))], by("Equal"), name="both exhausted"),
            Row([lt(la, Int(1)), le(Int(1), lb)], by("Less"), name="left exhausted first"),
            Row([le(Int(1), la), lt(lb, Int(1))], by("Greater"), name="right exhausted first")]


def _neg(a):
    if a[0] == "in":
        return ("notin", a[1], a[2])
    if a[0] == "notin":
        return ("in", a[1], a[2])
    return sym.atom_neg(a)


def _mentions_L(t, L):
    if t == L:
        return True
    if isinstance(t, tuple):
        return any(_mentions_L(x, L) for x in t[1:] if isinstance(x, tuple))
    return False


def eq_rows(style, elem):
    A, B = ("len", ("p", 1)), ("len", ("p", 2))

    def expect(v):
        def f(path, case):
            got = case.truth(path.value)
            if got is None:
                return "result %s undecided" % show(path.value)
            return None if got == v else "expected %s, got %s" % (v, got)
        return f
    if style[0] == "index":
        I = style[1]
        ea, eb = ("index", ("deref", ("p", 1)), I), ("index", ("deref", ("p", 2)), I)
        ok = elem == eq(ea, eb) or elem == eq(_asb(ea), _asb(eb))
        c = _root_call(elem[1]) if elem[0] == "holds" else None
        if c is not None and len(c) == 5 and c[3] == ea and c[4] == eb and (c[1].split("::")[-1].startswith("eq_") or c[1].endswith("const_eq")):
            ok = True
        if not ok:
            return [Row([], lambda path, case: "the loop continues on %s, expected left[i] == right[i]" % sym.show_atom(elem), kind="any", name="element test")]
        return [Row([ne(A, B)], expect(False), name="different lengths"),
                Row([eq(A, B), eq(A, I)], expect(True), name="all elements compared equal"),
                Row([eq(A, B), lt(I, A), elem], None, kind="back", name="elements equal: continue"),
                Row([eq(A, B), lt(I, A), _neg(elem)], expect(False), name="an element differs")]
    ls, rs = style[1], style[2]
    la, lb = ("len", ls), ("len", rs)
    both = [le(Int(1), la), le(Int(1), lb)]
    return [Row([ne(A, B)], expect(False), name="different lengths"),
            Row([eq(A, B), lt(la, Int(1))], expect(True), name="left exhausted"),
            Row([eq(A, B), le(Int(1), la), lt(lb, Int(1))], expect(True), name="right exhausted"),
            Row([eq(A, B)] + both + [elem], None, kind="back", name="heads equal: continue"),
            Row([eq(A, B)] + both + [_neg(elem)], expect(False), name="heads differ")]


def _asb(t):
    # index(deref(as_bytes(p)), i)
    return ("index", ("deref", ("as_bytes", t[1][1])), t[2])


_U8C = {}


def u8_consts(prog):
    if prog.config in _U8C:
        return _U8C[prog.config]
    out = {}
    for nm in ("LESS", "GREATER", "EQUAL"):
        b = prog.get("konst::__for_cmp_impls::U8Ordering::" + nm)
        if b is not None:
            ps = sym.paths_of(b, prog)
            if len(ps) == 1 and ps[0].value[0] == "agg" and ps[0].value[2][0] == "int":
                out[nm] = ps[0].value[2][1]
    _U8C[prog.config] = out
    return out


def u8ord(ctx, prog):
    consts = u8_consts(prog)
    want = {"LESS": 0, "GREATER": 1, "EQUAL": 2}
    for nm, v in want.items():
        if consts.get(nm) != v:
            ctx.violation("TAB-U8ORD", "%s|%s" % (prog.config, nm), "U8Ordering::%s is %s; `(l > r) as u8` relies on LESS=0, GREATER=1" % (nm, consts.get(nm)))
        ctx.instance("TAB-U8ORD", "%s|%s" % (prog.config, nm))
    b = ctx.anchor(prog, "konst::__for_cmp_impls::U8Ordering::to_ordering")
    if b is None:
        return
    paths = sym.paths_of(b, prog, inline_all_loopfree=True)
    x = ("field", ("p", 1), 0)

    def o(name):
        return lambda path, case: None if ordering_name(path.value) == name else "expected %s, got %s" % (name, show(path.value))
    rows = [Row([eq(x, Int(0))], o("Less"), name="0"), Row([eq(x, Int(1))], o("Greater"), name="1"), Row([eq(x, Int(2))], o("Equal"), name="2")]
    try:
        mism, n, dec = table.compare(paths, rows, extra_consts=(0, 1, 2))
        for m in mism[:2]:
            ctx.violation("TAB-U8ORD", "%s|to_ordering|%s" % (prog.config, m.row.name), "U8Ordering::to_ordering: %s" % m, b.file())
    except table.Undecided as e:
        ctx.violation("TAB-U8ORD", "%s|to_ordering" % prog.config, "undecided: %s" % e, b.file())
    ctx.instance("TAB-U8ORD", "%s|to_ordering" % prog.config)
