"""C08 — slice iterators behave like std's double-ended slice iterators.

TAB-STEP: one-step tables of Iter/IterCopied, Windows, Chunks, RChunks, ChunksExact, RChunksExact and
ArrayChunks next/next_back with every callee inlined to (offset,count) views of the iterator's own
slice: item view, new remainder view, end condition — compared with std's step for every order type of
(len, size).  The four div/mod split points are accepted only in the idioms listed in ARITH.
ISO: the *Rev types are the forward types stepping from the other end; rev()/copy() keep the fields.
CTOR: constructors (non-zero size assert, pre-splitting of the exact variants), remainder accessors.
"""
from .. import sym, table, views
from ..sym import show
from ..table import Row, lt, le, eq, ne, Int, Sub

SI = "konst::slice::slice_iter_methods::requires_rust_1_64::"
KI = "konst_kernel::into_iter::slice_into_iter::"
P1 = ("p", 1)


def fld(i):
    return ("field", P1, i)


def as_view(t, root, L):
    """-> (off, cnt) terms | ('empty',) | None"""
    if t == root:
        return (Int(0), L)
    if views.is_static_empty(t):
        return ("empty",)
    if t[0] == "ref" and t[1][0] == "subslice" and t[1][1] == ("deref", root) and t[1][4]:
        f, to = t[1][2], t[1][3]
        return (Int(f), sym.mk_bin("Sub", L, Int(f + to)))
    v = views.view(t)
    if v is None:
        return None
    if v[0] == "empty":
        return ("empty",)
    if v[0] == "whole":
        return (Int(0), L) if v[1] == root else None
    if v[1] != root:
        return None
    return (v[2], v[3])


def view_is(t, root, L, off, cnt, case):
    r = as_view(t, root, L)
    if r is None:
        return "%s is not a view of the iterator's slice" % show(t)
    ec = case.norm(cnt)
    if r == ("empty",):
        return None if ec == Int(0) else "is the empty slice, expected [%s..][..%s]" % (show(off), show(cnt))
    ec = case.norm(_arith(cnt, case))
    go, gc = case.norm(r[0]), case.norm(_arith(r[1], case))
    eo = case.norm(off)
    if gc == ec and (go == eo or ec == Int(0)):
        return None
    return "is [%s..][..%s], expected [%s..][..%s]" % (show(go), show(gc), show(eo), show(ec))


def _arith(t, case):
    """L - (L - n) -> n ;  L - 0 -> L"""
    if t[0] == "bin" and t[1] == "Sub":
        a, b = t[2], t[3]
        if b[0] == "bin" and b[1] == "Sub" and b[2] == a:
            return b[3]
        if b[0] == "bin" and b[1] == "SatSub" and b[2] == a:
            return ("min", a, b[3])
    return t


def some_item_state(check_item, check_state):
    def f(path, case):
        v = path.value
        if not (v[0] == "agg" and v[1].endswith("Some#1") and v[2][0] == "agg" and v[2][1] == "tuple"):
            return "expected Some((item, iter)), got %s" % show(v)
        return check_item(v[2][2], case) or check_state(v[2][3], case)
    return f


def none(path, case):
    return None if path.value == table.NONE else "expected None, got %s" % show(path.value)


def arith_constraints(paths):
    cons = []
    seen = set()

    def walk(t):
        if not isinstance(t, tuple) or not t or t in seen:
            return
        seen.add(t)
        if t[0] == "bin" and t[1] in ("Sub", "SatSub", "Rem", "Div"):
            cons.append(le(t, t[2]))
        if t[0] == "bin" and t[1] in ("Sub", "SatSub"):
            cons.append(table.sub_consistent(t))
            cons.append(le(t[3], t[3]))      # makes the subtrahend a point of the order type
        if t[0] == "bin" and t[1] == "Rem":
            cons.append(lt(t, t[3]))
        if t[0] == "bin" and t[1] == "Mul" and t[2][0] == "bin" and t[2][1] == "Div" and t[2][3] == t[3]:
            cons.append(le(t, t[2][2]))
        for x in t[1:]:
            if isinstance(x, tuple):
                walk(x)
    for p in paths:
        for c in p.conds:
            walk(c)
    return cons


def paths_inlined(prog, b):
    ps = sym.paths_of(b, prog, inline_all_loopfree=True, max_paths=3000)
    for p in ps:
        p.conds = tuple(table.strip_gargs(c) for c in p.conds)
    return ps


def decide(ctx, prog, name, b, rows, extra=()):
    key = "%s|%s" % (prog.config, name)
    try:
        paths = paths_inlined(prog, b)
        cons = arith_constraints(paths) + list(extra)
        mism, n, dec = table.compare(paths, rows, constraints=cons, len_unbounded=True)
    except (table.Undecided, sym.TooManyPaths) as e:
        ctx.violation("TAB-STEP", key, "undecided: %s" % e, b.file())
        return
    ctx.instance("TAB-STEP", key, nontrivial=dec >= 2, sample={"fn": name, "cases": n, "decided": dec, "paths": len(paths)})
    for m in mism[:3]:
        ctx.violation("TAB-STEP", key + "|" + m.row.name, "%s is not std's step: %s" % (name, m), b.file())


def run(ctx):
    ctx.explanation = ("one-step tables of every slice iterator with callees inlined to (offset,count) views, compared with std's "
                       "step relation for every order type of (len,size); forward/reverse isomorphism; constructors and accessors")
    for cfg in (["FULL"] if ctx.tier == "quick" else ["FULL", "DEBUG"]):
        prog = ctx.program(cfg)
        elems(ctx, prog)
        windows(ctx, prog)
        chunks(ctx, prog)
        exact(ctx, prog)
        array_chunks(ctx, prog)
        iso_and_ctors(ctx, prog)
        # array_chunks is `as_chunks(slice)` (CTOR rule): what as_chunks returns is C02's table, decided here too so that a slip in
        # it is reported by the property whose iterator is built on it
        from . import c02
        c02.run_chunks(ctx, prog)
    ctx.floor("TAB-STEP", 16)
    ctx.floor("ISO", 16)
    ctx.floor("CTOR", 18)
    ctx.floor("TAB-CHUNKS", 2)


def state_fields(exp):
    """exp: {field index: checker(term, case)}; unspecified fields must be unchanged"""
    def f(st, case):
        for i, chk in exp.items():
            m = chk(sym.mk_field(st, i), case)
            if m:
                return "field %d of the new iterator %s" % (i, m)
        return None
    return f


def unchanged(i):
    return lambda t, case: None if t == fld(i) else "changes to %s" % show(t)


# ------------------------------------------------------------------------------
def elems(ctx, prog):
    S = fld(0)
    L = ("len", S)
    for ty, copied in (("Iter", False), ("IterCopied", True)):
        for m, end in (("next", "front"), ("next_back", "back")):
            b = ctx.anchor(prog, KI + (("copied::" + ty) if copied else ty) + "::" + m)
            if b is None:
                continue
            e = ("cidx", ("deref", S), 0, False) if end == "front" else ("cidx", ("deref", S), 1, True)

            def item(t, case, e=e, copied=copied):
                want = e if copied else ("ref", e)
                return None if t == want else "yields %s, expected %s" % (show(t), show(want))
            rest = (Int(1), Sub(L, Int(1))) if end == "front" else (Int(0), Sub(L, Int(1)))
            rows = [Row([lt(L, Int(1))], none, name="empty"),
                    Row([le(Int(1), L)], some_item_state(item, state_fields({0: lambda t, case, r=rest: view_is(t, S, L, r[0], r[1], case)})), name="non-empty")]
            decide(ctx, prog, ty + "::" + m, b, rows)


def windows(ctx, prog):
    S, N = fld(0), fld(1)
    L = ("len", S)
    for m in ("next", "next_back"):
        b = ctx.anchor(prog, SI + "Windows::" + m)
        if b is None:
            continue
        if m == "next":
            it, rest = (Int(0), N), (Int(1), Sub(L, Int(1)))
        else:
            it, rest = (Sub(L, N), N), (Int(0), Sub(L, Int(1)))
        rows = [Row([lt(L, N)], none, name="fewer than size elements left"),
                Row([le(N, L)], some_item_state(lambda t, case, it=it: view_is(t, S, L, it[0], it[1], case) and "item " + view_is(t, S, L, it[0], it[1], case),
                                                state_fields({0: lambda t, case, r=rest: view_is(t, S, L, r[0], r[1], case), 1: unchanged(1)})), name="window available")]
        # (the expected offset is made a point of the order type, so that any spelling of it - `len - size`, `len.saturating_sub(size)`
        #  under the row's guard - is identified with it by value)
        decide(ctx, prog, "Windows::" + m, b, rows, extra=[le(Int(1), N), le(it[0], it[0])])


def opt_nonempty(S, L, off, cnt):
    """new `slice: Option<&[T]>` must be Some(view) when the view is non-empty and None when it is empty"""
    def f(t, case):
        c = case.norm(_arith(cnt, case))
        if t == table.NONE:
            return None if c == Int(0) else "is None although elements remain ([%s..][..%s])" % (show(off), show(cnt))
        if t[0] == "agg" and t[1].endswith("Some#1"):
            if c == Int(0):
                return "is Some(empty) - the exhausted iterator must hold None"
            return view_is(t[2], S, L, off, cnt, case)
        return "is %s" % show(t)
    return f


ARITH_BACK_AT = "(len-1)/size*size"


def _untyped(t):
    """integer literals without their type tag (a `match` arm and an `==` test spell the same constant differently)"""
    if isinstance(t, tuple):
        if t and t[0] == "int":
            return ("int", t[1])
        return tuple(_untyped(x) for x in t)
    return t


def chunks(ctx, prog):
    S = ("vfield", fld(0), 1, 0)
    N = fld(1)
    L = ("len", S)
    # Chunks::next : item = s[..min(n,L)], rest = s[min(n,L)..]
    specs = []
    it_small = (Int(0), N)
    specs.append(("Chunks", "next", [
        Row([("is", fld(0), 0)], none, name="exhausted"),
        Row([("is", fld(0), 1), le(N, L)], some_item_state(lambda t, case: view_is(t, S, L, Int(0), N, case) and "item " + view_is(t, S, L, Int(0), N, case),
                                                           state_fields({0: opt_nonempty(S, L, N, Sub(L, N)), 1: unchanged(1)})), name="at least one full chunk"),
        Row([("is", fld(0), 1), lt(L, N)], some_item_state(lambda t, case: view_is(t, S, L, Int(0), L, case) and "item " + view_is(t, S, L, Int(0), L, case),
                                                           state_fields({0: opt_nonempty(S, L, L, Int(0)), 1: unchanged(1)})), name="short last chunk"),
    ]))
    SAT = ("bin", "SatSub", L, N)
    specs.append(("RChunks", "next", [
        Row([("is", fld(0), 0)], none, name="exhausted"),
        Row([("is", fld(0), 1), le(N, L)], some_item_state(lambda t, case: view_is(t, S, L, Sub(L, N), N, case) and "item " + view_is(t, S, L, Sub(L, N), N, case),
                                                           state_fields({0: opt_nonempty(S, L, Int(0), Sub(L, N)), 1: unchanged(1)})), name="at least one full chunk"),
        Row([("is", fld(0), 1), lt(L, N)], some_item_state(lambda t, case: view_is(t, S, L, Int(0), L, case) and "item " + view_is(t, S, L, Int(0), L, case),
                                                           state_fields({0: opt_nonempty(S, L, Int(0), Int(0)), 1: unchanged(1)})), name="short last chunk"),
    ]))
    for ty, m, rows in specs:
        b = ctx.anchor(prog, SI + ty + "::" + m)
        if b is not None:
            decide(ctx, prog, ty + "::" + m, b, rows, extra=[le(Int(1), N), le(Int(1), L), eq(SAT, Sub(L, N))] if ty == "RChunks" else [le(Int(1), N), le(Int(1), L)])
    # the two div/mod split points: accepted idioms only
    for ty, m in (("Chunks", "next_back"), ("RChunks", "next_back")):
        b = ctx.anchor(prog, SI + ty + "::" + m)
        if b is None:
            continue
        key = "%s|%s::%s" % (prog.config, ty, m)
        ps = sym.paths_of(b, prog, opaque={"konst::slice::slice_const_methods::split_at", SI + "some_if_nonempty"})
        msg = None
        n_some = 0
        for p in ps:
            if p.kind != "return" or p.value == table.NONE:
                continue
            n_some += 1
            v = table.strip_gargs(p.value)
            sa = None
            for e in p.events:
                if e[0] == "call" and e[1].endswith("::split_at"):
                    sa = table.strip_gargs(e[2])
            if sa is None or sa[3] != S:
                msg = "does not split the remaining slice"
                continue
            at = sa[4]
            conds = [table.norm_atom(table.strip_gargs(c)) for c in p.conds]
            if ty == "Chunks":
                l1 = Sub(L, Int(1))
                # three spellings of "start of the last chunk", equal for len >= 1, size >= 1 and free of overflow
                ok = at in (("bin", "Mul", ("bin", "Div", l1, N), N),
                            Sub(l1, ("bin", "Rem", l1, N)),
                            Sub(L, ("bin", "Add", ("bin", "Rem", l1, N), Int(1))))
                item_i, rest_i = 1, 0
            else:
                rem = ("bin", "Rem", L, N)
                untyped = [_untyped(c) for c in conds]
                ok = (at == N and _untyped(eq(rem, Int(0))) in untyped) or (at == rem and _untyped(ne(rem, Int(0))) in untyped)
                # one expression for both cases: (len - 1) % size + 1  (len = q*size: size; len = q*size + r, 0 < r < size: r) -
                # exact for len >= 1 (the slice field is Some only when non-empty: constructors and some_if_nonempty) and without the
                # overflow that `len + size - 1` has
                ok = ok or _untyped(at) == _untyped(("bin", "Add", ("bin", "Rem", Sub(L, Int(1)), N), Int(1)))
                item_i, rest_i = 0, 1
            if not ok:
                msg = "splits at %s under %s; accepted idioms: %s" % (show(at), [sym.show_atom(c) for c in conds if "Rem" in repr(c)],
                                                                       "(len-1)/size*size | (len-1)-(len-1)%size | len-((len-1)%size+1)" if ty == "Chunks" else "if len%size==0 {size} else {len%size} | (len-1)%size+1")
            it, st = v[2][2], v[2][3]
            if it != ("field", sa, item_i):
                msg = msg or "yields %s, expected part %d of the split" % (show(it), item_i)
            want_rest = ("call", SI + "some_if_nonempty", None, ("field", sa, rest_i))
            if sym.mk_field(st, 0) != want_rest:
                msg = msg or "new remainder is %s, expected some_if_nonempty(part %d)" % (show(sym.mk_field(st, 0)), rest_i)
        if n_some == 0:
            msg = "never yields"
        if msg:
            ctx.violation("TAB-STEP", key, "%s::%s %s" % (ty, m, msg), b.file())
        ctx.instance("TAB-STEP", key, sample={"fn": ty + "::" + m, "rule": "accepted div/mod idiom + item/remainder parts"})
    b = prog.get(SI + "some_if_nonempty")
    if b is not None:
        ps = sym.paths_of(b, prog)
        ok = len(ps) == 2 and {repr(p.value) for p in ps} == {repr(table.NONE), repr(table.Some(P1))}
        for p in ps:
            if p.value == table.NONE and lt(("len", P1), Int(1)) not in p.conds and eq(("len", P1), Int(0)) not in [table.norm_atom(c) for c in p.conds]:
                ok = False
        if not ok:
            ctx.violation("TAB-STEP", prog.config + "|some_if_nonempty", "some_if_nonempty is not `if empty {None} else {Some(s)}`", b.file())


def exact(ctx, prog):
    S, N = fld(0), fld(2)
    L = ("len", S)
    front = [Row([eq(L, Int(0))], none, name="exhausted"),
             Row([ne(L, Int(0)), le(N, L)], some_item_state(lambda t, case: view_is(t, S, L, Int(0), N, case) and "item " + view_is(t, S, L, Int(0), N, case),
                                                            state_fields({0: lambda t, case: view_is(t, S, L, N, Sub(L, N), case), 1: unchanged(1), 2: unchanged(2)})), name="chunk from the front")]
    back = [Row([eq(L, Int(0))], none, name="exhausted"),
            Row([ne(L, Int(0)), le(N, L)], some_item_state(lambda t, case: view_is(t, S, L, Sub(L, N), N, case) and "item " + view_is(t, S, L, Sub(L, N), N, case),
                                                           state_fields({0: lambda t, case: view_is(t, S, L, Int(0), Sub(L, N), case), 1: unchanged(1), 2: unchanged(2)})), name="chunk from the back")]
    for ty, m, rows in (("ChunksExact", "next", front), ("ChunksExact", "next_back", back),
                        ("RChunksExact", "next", back), ("RChunksExact", "next_back", front)):
        b = ctx.anchor(prog, SI + ty + "::" + m)
        if b is not None:
            decide(ctx, prog, ty + "::" + m, b, rows, extra=[le(Int(1), N)])


def array_chunks(ctx, prog):
    A = fld(0)
    L = ("len", A)
    for m, end in (("next", "front"), ("next_back", "back")):
        b = ctx.anchor(prog, SI + "ArrayChunks::" + m)
        if b is None:
            continue
        e = ("cidx", ("deref", A), 0, False) if end == "front" else ("cidx", ("deref", A), 1, True)
        rest = (Int(1), Sub(L, Int(1))) if end == "front" else (Int(0), Sub(L, Int(1)))

        def item(t, case, e=e):
            return None if t == ("ref", e) else "yields %s, expected %s" % (show(t), show(("ref", e)))
        rows = [Row([lt(L, Int(1))], none, name="empty"),
                Row([le(Int(1), L)], some_item_state(item, state_fields({0: lambda t, case, r=rest: view_is(t, A, L, r[0], r[1], case), 1: unchanged(1)})), name="non-empty")]
        decide(ctx, prog, "ArrayChunks::" + m, b, rows)


def _tab(b, prog, a, c):
    def norm(t):
        if isinstance(t, tuple):
            return tuple(norm(x) for x in t)
        if isinstance(t, str):
            return t.replace(a, c)
        return t
    return sorted((repr(norm(tuple(sorted(p.conds, key=repr)))), p.kind, repr(norm(p.value))) for p in sym.paths_of(b, prog))


def iso_and_ctors(ctx, prog):
    pairs = [(KI, "Iter", "IterRev", 1), (KI + "copied::", "IterCopied", "IterCopiedRev", 1), (SI, "Windows", "WindowsRev", 2),
             (SI, "Chunks", "ChunksRev", 2), (SI, "RChunks", "RChunksRev", 2), (SI, "ChunksExact", "ChunksExactRev", 3),
             (SI, "RChunksExact", "RChunksExactRev", 3), (SI, "ArrayChunks", "ArrayChunksRev", 2)]
    for mod, ty, rty, nf in pairs:
        for m, twin in (("next", "next_back"), ("next_back", "next")):
            a, c = prog.get(mod + rty + "::" + m), prog.get(mod + ty + "::" + twin)
            key = "%s|%s::%s" % (prog.config, rty, m)
            if a is None or c is None:
                ctx.violation("ISO", key, "missing %s::%s or %s::%s" % (rty, m, ty, twin))
                continue
            if _tab(a, prog, rty, ty) != _tab(c, prog, rty, ty):
                ctx.violation("ISO", key, "%s::%s is not %s::%s" % (rty, m, ty, twin), a.file())
            ctx.instance("ISO", key)
        for t2 in (ty, rty):
            for conv in ("rev", "copy"):
                b = prog.get(mod + t2 + "::" + conv)
                if b is None:
                    continue
                ps = sym.paths_of(b, prog)
                v = ps[0].value if len(ps) == 1 else None
                src = P1 if conv == "rev" else ("deref", P1)
                ok = v is not None and v[0] == "agg" and list(v[2:]) == [sym.mk_field(src, i) for i in range(nf)]
                if ok and conv == "rev":
                    ok = (rty + "#" in v[1]) != (t2 == rty)
                if not ok:
                    ctx.violation("ISO", "%s|%s::%s" % (prog.config, t2, conv), "%s::%s does not keep the fields: %s" % (t2, conv, show(v) if v else "?"), b.file())
                ctx.instance("ISO", "%s|%s::%s" % (prog.config, t2, conv))
    # constructors
    L = ("len", P1)
    N = ("p", 2)

    def ctor(name, rows, extra=()):
        b = ctx.anchor(prog, SI + name)
        if b is None:
            return
        key = "%s|%s" % (prog.config, name)
        try:
            paths = paths_inlined(prog, b)
            mism, n, dec = table.compare(paths, rows, constraints=arith_constraints(paths) + list(extra))
        except (table.Undecided, sym.TooManyPaths) as e:
            ctx.violation("CTOR", key, "undecided: %s" % e, b.file())
            return
        ctx.instance("CTOR", key, nontrivial=dec >= 2, sample={"fn": name, "cases": n})
        for m in mism[:2]:
            ctx.violation("CTOR", key + "|" + m.row.name, "%s: %s" % (name, m), b.file())

    def panics(path, case):
        return None

    def built(fields):
        def f(path, case):
            v = path.value
            if v[0] != "agg":
                return "expected the iterator struct, got %s" % show(v)
            for i, chk in fields.items():
                m = chk(v[2 + i], case)
                if m:
                    return "field %d %s" % (i, m)
            return None
        return f
    same = lambda want: (lambda t, case: None if t == want else "is %s, expected %s" % (show(t), show(want)))
    ctor("windows", [Row([eq(N, Int(0))], panics, kind="panic", name="size 0 panics"),
                     Row([ne(N, Int(0))], built({0: same(P1), 1: same(N)}), name="size>0")])
    optfield = lambda t, case: (None if (t == table.NONE and case.norm(L) == Int(0)) or (t == table.Some(P1) and case.norm(L) != Int(0))
                                else "is %s for a slice that is %s" % (show(t), "empty" if case.norm(L) == Int(0) else "non-empty"))
    for nm in ("chunks", "rchunks"):
        ctor(nm, [Row([eq(N, Int(0))], panics, kind="panic", name="size 0 panics"),
                  Row([ne(N, Int(0))], built({0: optfield, 1: same(N)}), name="size>0")])
    REM = ("bin", "Rem", L, N)
    MULT = Sub(L, REM)
    ctor("chunks_exact", [Row([eq(N, Int(0))], panics, kind="panic", name="size 0 panics"),
                          Row([ne(N, Int(0))], built({0: lambda t, case: view_is(t, P1, L, Int(0), MULT, case),
                                                      1: lambda t, case: view_is(t, P1, L, MULT, REM, case) and view_is(t, P1, L, MULT, Sub(L, MULT), case),
                                                      2: same(N)}), name="size>0")])
    ctor("rchunks_exact", [Row([eq(N, Int(0))], panics, kind="panic", name="size 0 panics"),
                           Row([ne(N, Int(0))], built({0: lambda t, case: view_is(t, P1, L, REM, Sub(L, REM), case),
                                                       1: lambda t, case: view_is(t, P1, L, Int(0), REM, case),
                                                       2: same(N)}), name="size>0")])
    b = ctx.anchor(prog, SI + "array_chunks")
    if b is not None:
        ps = sym.paths_of(b, prog)
        c = ("call", "konst::slice::slice_as_chunks::as_chunks", None, P1)
        v = table.strip_gargs(ps[0].value) if len(ps) == 1 else None
        if v is None or v[2:] != (("field", c, 0), ("field", c, 1)):
            ctx.violation("CTOR", prog.config + "|array_chunks", "array_chunks builds %s, expected the two parts of as_chunks(slice)" % (show(v) if v else "?"), b.file())
        ctx.instance("CTOR", prog.config + "|array_chunks")
    # const_into_iter of slice / array references (what the iterator macros call on `&[..]` sources): Iter over the wrapped value
    for b in prog.bodies:
        if b.promoted is not None or not b.key.endswith("::const_into_iter") or "slice_into_iter" not in b.key:
            continue
        st = b.rec.get("impl_self") or ""
        ps = [p for p in sym.paths_of(b, prog) if p.kind != "unreachable"]
        v = table.strip_gargs(ps[0].value) if len(ps) == 1 and ps[0].kind == "return" and not ps[0].conds else None
        ok = v is not None and v[0] == "agg" and v[1].startswith("adt:" + KI + "Iter::Iter#") and len(v) == 3
        if ok:
            t = v[2]
            while t[0] == "deref" or (t[0] == "cast" and t[1] == "coerce:Unsize"):
                t = t[1] if t[0] == "deref" else t[3]
            ok = t == ("call", "core::mem::ManuallyDrop::into_inner", None, ("field", P1, 0))
        if not ok:
            ctx.violation("CTOR", "%s|const_into_iter|%s" % (prog.config, st), "const_into_iter for %s builds %s, expected Iter over the wrapped slice" % (st, show(v) if v else "?"), b.file())
        ctx.instance("CTOR", "%s|const_into_iter|%s" % (prog.config, st))
    from .. import accessors
    accessors.ctor(ctx, "CTOR", prog, KI + "iter", "Iter", [P1])
    accessors.ctor(ctx, "CTOR", prog, KI + "copied::iter_copied", "IterCopied", [P1])
    for mod, ty, fi, nm in ((SI, "ChunksExact", 1, "remainder"), (SI, "RChunksExact", 1, "remainder"), (SI, "ArrayChunks", 1, "remainder"),
                            (SI, "ChunksExactRev", 1, "remainder"), (SI, "RChunksExactRev", 1, "remainder"),
                            (KI, "IterRev", 0, "as_slice"), (KI + "copied::", "IterCopiedRev", 0, "as_slice"),
                            (KI, "Iter", 0, "as_slice"), (KI + "copied::", "IterCopied", 0, "as_slice")):
        b = prog.get(mod + ty + "::" + nm)
        if b is not None:
            ps = sym.paths_of(b, prog)
            if len(ps) != 1 or ps[0].value != ("field", ("deref", P1), fi):
                ctx.violation("CTOR", "%s|%s::%s" % (prog.config, ty, nm), "%s::%s returns %s" % (ty, nm, show(ps[0].value)), b.file())
            ctx.instance("CTOR", "%s|%s::%s" % (prog.config, ty, nm))
