"""C14 — Parser operations transform the remainder exactly like the string functions.

DLG: each combinator's new remainder is (the payload of) the same-named
`konst::string::` function applied to (old remainder, argument); Some/None maps to
Ok/Err with the method's ErrorKind.  TAB-SPLIT: one-step protocol tables of
split / rsplit / split_terminator / rsplit_terminator / split_keep over
(yielded flag, remainder empty, split_once Some/None, rest empty).
StdParser::parse_with rows delegate to the matching parse_* method.  The integer/bool prefix parse itself
(Parser::parse_<int>, parse_bool) is decided with C12's rule set (D3-SIGN, D3-DIGIT, REC, TAB-SIGN, TAB-BOOL).
"""
from .. import sym, table
from ..sym import show
from ..table import Row, holds, nholds, eq, ne, Int
from .c13 import parser_fields, parser_methods, find_results, _looks_parser

OLD = ("p", 1)
ARG = ("p", 2)


def call(path, *args):
    return ("call", path, None) + args


def errkind(t):
    if t[0] == "agg" and "ErrorKind::" in t[1]:
        return t[1].split("ErrorKind::")[1].split("#")[0]
    return None


def split_err(t):
    """Err(ParseError::new(pp, kind)) -> (pp, kindname) or None"""
    if not (t[0] == "agg" and t[1].endswith("Result::Err#1")):
        return None
    e = t[2]
    if e[0] == "call" and e[1].endswith("ParseError::new"):
        return e[3], errkind(e[4])
    return None


def run(ctx):
    ctx.explanation = ("delegation table (method -> string function on (old remainder, argument), Some/None -> Ok/Err(kind)) "
                       "and one-step split protocol tables extracted from MIR and compared with the reference protocol")
    for cfg in (["FULL"] if ctx.tier == "quick" else ["FULL", "DEBUG"]):
        prog = ctx.program(cfg)
        F = parser_fields(prog)
        if F is None:
            ctx.violation("ANCHOR", cfg + "|Parser", "struct Parser not found")
            continue
        methods = {b.key.split("::")[-1]: b for b in parser_methods(prog)}
        inline = {b.key for b in methods.values() if not b.loops()}
        old_str = sym.mk_field(OLD, F["str"])
        old_y = sym.mk_field(OLD, F["yielded_last_split"])
        S = "konst::string::"

        def paths_for(name):
            b = methods.get(name)
            if b is None:
                ctx.violation("ANCHOR", "%s|Parser::%s" % (cfg, name), "Parser::%s not found" % name)
                return None, None
            return b, sym.through_loops(b, prog, inline=inline - {b.key})

        def new_parser(t):
            r = [x for role, x in find_results(t) if role == "ok"]
            return r[0] if r else None

        # ---------------- strip / find: Option-returning string fn ----------------
        for name, fn, kind in (("strip_prefix", S + "strip_prefix", "Strip"), ("strip_suffix", S + "strip_suffix", "Strip"),
                               ("find_skip", S + "find_skip", "Find"), ("rfind_skip", S + "rfind_skip", "Find")):
            b, paths = paths_for(name)
            if b is None:
                continue
            c = call(fn, old_str, ARG)

            def ok(path, case, c=c, name=name):
                np = new_parser(path.value)
                if np is None:
                    return "expected Ok(parser), got %s" % show(path.value)
                ns = table.strip_gargs(sym.mk_field(np, F["str"]))
                if ns != ("vfield", c, 1, 0):
                    return "new remainder is %s, expected the payload of %s" % (show(ns), show(c))
                return None

            def err(path, case, kind=kind):
                r = split_err(path.value)
                if r is None:
                    return "expected Err(ParseError::new(..)), got %s" % show(path.value)
                if r[1] != kind:
                    return "error kind %s, expected %s" % (r[1], kind)
                return None
            rows = [Row([("is", c, 1)], ok, name="Some"), Row([("is", c, 0)], err, name="None")]
            # strip/find can only succeed when the (normalised) pattern is no longer than the remainder (C04/C05 tables)
            lp = ("len", call(S + "pattern::PatternNorm::as_str", ("ref", call(S + "pattern::PatternNorm::new", ARG))))
            _cmp(ctx, "DLG", cfg, name, b, paths, rows, {table.strip_gargs(c): [0, 1]},
                 constraints=[table.found_fits(table.strip_gargs(c), ("len", old_str), lp)])

        # ---------------- trims: total functions ---------------------------------
        def trims(name, accepted):
            b, paths = paths_for(name)
            if b is None:
                return
            good = [p for p in paths if p.kind == "return"]
            if len(good) != 1 or len(paths) != 1:
                ctx.violation("DLG", "%s|%s" % (cfg, name), "Parser::%s is expected to be a single straight-line path" % name, b.file())
                return
            np = new_parser(good[0].value) or good[0].value
            ns = table.strip_gargs(sym.mk_field(np, F["str"]))
            if ns not in [table.strip_gargs(a) for a in accepted]:
                ctx.violation("DLG", "%s|%s" % (cfg, name), "Parser::%s leaves remainder %s, expected one of %s" % (
                    name, show(ns), [show(a) for a in accepted]), b.file())
            ctx.instance("DLG", "%s|%s" % (cfg, name), sample={"method": name, "remainder": show(ns)})
        ts, te = call(S + "trim_start", old_str), call(S + "trim_end", old_str)
        trims("trim_start", [ts])
        trims("trim_end", [te])
        trims("trim", [call(S + "trim", old_str), call(S + "trim_end", ts), call(S + "trim_start", te)])
        tsm, tem = call(S + "trim_start_matches", old_str, ARG), call(S + "trim_end_matches", old_str, ARG)
        trims("trim_start_matches", [tsm])
        trims("trim_end_matches", [tem])
        # string::trim_matches trims the start first, then the end
        trims("trim_matches", [call(S + "trim_matches", old_str, ARG), call(S + "trim_end_matches", tsm, ARG)])

        # ---------------- split protocol -------------------------------------------
        def split_rows(name, once_fn, keep_idx, yield_idx, terminator, none_rest, none_yield):
            b, paths = paths_for(name)
            if b is None:
                return
            c = call(once_fn, old_str, ARG)
            pair = ("vfield", c, 1, 0)
            rest = ("field", pair, keep_idx)
            item = ("field", pair, yield_idx)

            def exhausted(path, case):
                r = split_err(path.value)
                if r is None or r[1] != "SplitExhausted":
                    return "expected Err(SplitExhausted), got %s" % show(path.value)
                return None

            def notfound(path, case):
                r = split_err(path.value)
                if r is None or r[1] != "DelimiterNotFound":
                    return "expected Err(DelimiterNotFound), got %s" % show(path.value)
                return None

            def piece(expect_item, expect_rest, expect_flag):
                def f(path, case):
                    t = path.value
                    if not (t[0] == "agg" and t[1].endswith("Result::Ok#0") and t[2][0] == "agg" and t[2][1] == "tuple"):
                        return "expected Ok((piece, parser)), got %s" % show(t)
                    it = table.strip_gargs(t[2][2])
                    np = t[2][3]
                    if not _looks_parser(np):
                        return "second component is not a parser: %s" % show(np)
                    if it != expect_item:
                        return "yields %s, expected %s" % (show(it), show(expect_item))
                    ns = table.strip_gargs(sym.mk_field(np, F["str"]))
                    if callable(expect_rest):
                        m = expect_rest(ns)
                        if m:
                            return m
                    elif ns != expect_rest:
                        return "new remainder %s, expected %s" % (show(ns), show(expect_rest))
                    fl = table.strip_gargs(sym.mk_field(np, F["yielded_last_split"]))
                    if callable(expect_flag):
                        return expect_flag(fl, case)
                    if fl != expect_flag:
                        return "exhausted flag becomes %s, expected %s" % (show(fl), show(expect_flag))
                    return None
                return f
            y = old_y
            rows = [Row([holds(y)], exhausted, name="already exhausted")]
            if terminator:
                def flag_is_rest_empty(fl, case):
                    want = ("bin", "Eq", ("len", rest), Int(0))
                    if fl == want or fl == ("bin", "Eq", Int(0), ("len", rest)):
                        return None
                    return "exhausted flag becomes %s, expected `rest.is_empty()`" % show(fl)
                rows += [Row([nholds(y), eq(("len", old_str), Int(0))], notfound, name="empty remainder"),
                         Row([nholds(y), ne(("len", old_str), Int(0)), ("is", c, 1)], piece(item, rest, flag_is_rest_empty), name="delimiter found"),
                         Row([nholds(y), ne(("len", old_str), Int(0)), ("is", c, 0)], notfound, name="no delimiter")]
            else:
                rows += [Row([nholds(y), ("is", c, 1)], piece(item, rest, old_y), name="delimiter found"),
                         Row([nholds(y), ("is", c, 0)], piece(old_str, none_rest, ("bool", True)), name="last piece")]
            _cmp(ctx, "TAB-SPLIT", cfg, name, b, paths, rows, {table.strip_gargs(c): [0, 1]})

        def empty_suffix(ns):
            if ns in (call("konst_kernel::string::str_from", old_str, ("len", old_str)),
                      ("field", call(S + "split_at", old_str, ("len", old_str)), 1)):       # split_at(s, len(s)).1 is that same suffix
                return None
            return "after the last piece the remainder is %s, expected the empty suffix str_from(rem, rem.len())" % show(ns)

        def empty_prefix(ns):
            if ns in (call("konst_kernel::string::str_up_to", old_str, Int(0)), ("field", call(S + "split_at", old_str, Int(0)), 0)):
                return None
            return "after the last piece the remainder is %s, expected the empty prefix str_up_to(rem, 0)" % show(ns)
        SO = "konst::string::split_once::"
        split_rows("split", SO + "split_once", 1, 0, False, empty_suffix, None)
        split_rows("rsplit", SO + "rsplit_once", 0, 1, False, empty_prefix, None)
        split_rows("split_terminator", SO + "split_once", 1, 0, True, None, None)
        split_rows("rsplit_terminator", SO + "rsplit_once", 0, 1, True, None, None)
        # split_keep: find + split_at
        b, paths = paths_for("split_keep")
        if b is not None:
            c = call(S + "find", old_str, ARG)
            pos = ("vfield", c, 1, 0)
            sa = call(S + "split_at", old_str, pos)

            def found(path, case):
                t = path.value
                if not (t[0] == "agg" and t[1].endswith("Result::Ok#0") and t[2][0] == "agg"):
                    return "expected Ok((piece, parser))"
                it, np = table.strip_gargs(t[2][2]), t[2][3]
                ns = table.strip_gargs(sym.mk_field(np, F["str"]))
                if it != ("field", sa, 0) or ns != ("field", sa, 1):
                    return "expected (split_at(rem,pos).0, parser{str: split_at(rem,pos).1}), got (%s, %s)" % (show(it), show(ns))
                return None

            def last(path, case):
                t = path.value
                if not (t[0] == "agg" and t[1].endswith("Result::Ok#0") and t[2][0] == "agg"):
                    return "expected Ok((piece, parser))"
                it, np = table.strip_gargs(t[2][2]), t[2][3]
                # (split_at(s, len(s)) is (s, "") - the slicing identities of C03's tables)
                whole = {old_str, ("field", call(S + "split_at", old_str, ("len", old_str)), 0),
                         call("konst_kernel::string::str_up_to", old_str, ("len", old_str)), call("konst_kernel::string::str_from", old_str, Int(0))}
                if it not in whole:
                    return "last piece is %s, expected the whole remainder" % show(it)
                if sym.mk_field(np, F["yielded_last_split"]) != ("bool", True):
                    return "exhausted flag not set on the last piece"
                return empty_suffix(table.strip_gargs(sym.mk_field(np, F["str"])))

            def exhausted(path, case):
                r = split_err(path.value)
                return None if (r and r[1] == "SplitExhausted") else "expected Err(SplitExhausted)"
            rows = [Row([holds(old_y)], exhausted, name="already exhausted"),
                    Row([nholds(old_y), ("is", c, 1)], found, name="delimiter found"),
                    Row([nholds(old_y), ("is", c, 0)], last, name="last piece")]
            _cmp(ctx, "TAB-SPLIT", cfg, "split_keep", b, paths, rows, {table.strip_gargs(c): [0, 1]})

        # ---------------- flag writers (INV) -------------------------------------------
        writers = set()
        for name, b in methods.items():
            for _, _, st in b.assigns():
                pl = st["place"]
                if pl["l"] == 1 and pl["p"] and pl["p"][0]["k"] == "field" and pl["p"][0].get("name") == "yielded_last_split":
                    writers.add(name)
        allowed = {"split", "rsplit", "split_terminator", "rsplit_terminator", "split_keep"}
        for w in sorted(writers - allowed):
            ctx.violation("INV-FLAG", "%s|%s" % (cfg, w), "Parser::%s writes the split-exhausted flag; only the five split methods may" % w,
                          methods[w].file())
        ctx.instance("INV-FLAG", cfg, sample={"writers": sorted(writers)})
        # a fresh parser has yielded nothing yet: every constructor starts with the flag clear (the protocol's initial state)
        for name, b in methods.items():
            if b.arg_count >= 1 and "Parser<" in b.local_ty(1):
                continue
            if "Parser<" not in (b.rec.get("sig_output", "") or "") or "Result<" in (b.rec.get("sig_output", "") or ""):
                continue
            for p in sym.paths_of(b, prog):
                if p.kind != "return" or not isinstance(p.value, tuple):
                    continue
                fl = sym.mk_field(p.value, F["yielded_last_split"])
                if fl != ("bool", False):
                    ctx.violation("INV-FLAG", "%s|%s|initial" % (cfg, name), "Parser::%s builds a parser whose split-exhausted flag is %s: the first "
                                  "split of a fresh parser would report SplitExhausted" % (name, show(fl)), b.file())
            ctx.instance("INV-FLAG", "%s|%s|initial" % (cfg, name), sample={"constructor": name})

        # ---------------- StdParser::parse_with delegation -------------------------------
        for b in prog.by_key.get("konst::parsing::get_parser::StdParser::parse_with", []):
            ty = (b.rec.get("impl_self") or "").split("<")[-1].rstrip(">")
            paths = sym.paths_of(b, prog)
            want = "parse_" + ty
            okp = len(paths) == 1 and paths[0].kind == "return" and paths[0].value[0] == "call" \
                and paths[0].value[1].endswith("::" + want) and paths[0].value[3] == ("p", 1)
            if not okp:
                ctx.violation("DLG-STD", "%s|%s" % (cfg, ty), "StdParser<%s>::parse_with does not simply return Parser::%s(parser): %s" % (
                    ty, want, show(paths[0].value) if paths else "?"), b.file())
            ctx.instance("DLG-STD", "%s|%s" % (cfg, ty))
        # ---------------- integer / bool prefix parse ------------------------------------
        # The property's "integer/bool prefix parse" clause has no free string function to delegate to: the prefix parse *is* the
        # Parser method (one expansion of parse_integer! each).  Its reference is the rule set C12 owns (sign byte, digit classes,
        # multiply-add recurrence with both overflow exits, sign/limit table, consumed length, bool spellings); it is decided here
        # too, on the same bodies, so that C14 stands alone.
        from . import c12
        for ty in c12.TYPES:
            b = methods.get("parse_" + ty)
            if b is None:
                ctx.violation("ANCHOR", "%s|parse_%s" % (cfg, ty), "Parser::parse_%s not found" % ty)
                continue
            c12.integer(ctx, prog, F, b, ty)
        c12.bool_(ctx, prog, F, methods.get("parse_bool"))
    ctx.floor("DLG", 10)
    ctx.floor("TAB-SPLIT", 5)
    ctx.floor("DLG-STD", 13)
    ctx.floor("TAB-SIGN", 12)
    ctx.floor("REC", 12)
    ctx.floor("D3-DIGIT", 12)
    ctx.floor("D3-SIGN", 12)
    ctx.floor("TAB-BOOL", 1)
    ctx.floor("INV-FLAG", 3)


def _cmp(ctx, rule, cfg, name, b, paths, rows, vdom, constraints=()):
    try:
        mism, n, dec = table.compare(paths, rows, variant_domain=vdom, constraints=list(constraints))
    except table.Undecided as e:
        ctx.violation(rule, "%s|%s" % (cfg, name), "table undecided: %s" % e, b.file())
        return
    ctx.instance(rule, "%s|%s" % (cfg, name), nontrivial=dec >= 2, sample={"method": name, "cases": n, "decided": dec, "paths": len(paths)})
    for m in mism[:3]:
        ctx.violation(rule, "%s|%s|%s" % (cfg, name, m.row.name if m.row else "-"), "Parser::%s: %s" % (name, m), b.file())
