"""C10 — iterator-DSL method chains evaluate like the same std Iterator chains.

Translation validation.  A generator enumerates type-correct chains from the documented method grammar over
opaque source types (`next`/`next_back` and every closure are `#[inline(never)]` marker calls); rustc expands
konst's macros in a witness crate; from the MIR of each generated function the per-iteration relation of the
loop is extracted (paths header -> continue / exit with their ordered marker calls, branch outcomes, counter
tests/updates, result) and compared with the relation composed from one hand-written reference entry per
method (DESIGN.md App. A: the std semantics of each adapter/consumer on a pull-based single pass).
DIR (direction rule): a positional adapter (take, skip, zip) placed before a reversing method is accepted by the
macros but numbered from the wrong end, because the reversal is hoisted to the source.
"""
import itertools
import random
from concurrent.futures import ThreadPoolExecutor

from .. import facts, mir, sym, table
from ..sym import show
from .c19 import witness_program

W = "w10"
PRELUDE = '''
#![allow(unused, unreachable_code, clippy::all)]
use konst::iter::{ConstIntoIter, IsIteratorKind};
macro_rules! src { ($n:ident, $item:ty) => {
    pub struct $n { pub st: u32 }
    impl ConstIntoIter for $n { type Kind = IsIteratorKind; type IntoIter = Self; type Item = $item; }
    impl $n {
        #[inline(never)] pub fn next(self) -> Option<($item, Self)> { loop {} }
        #[inline(never)] pub fn next_back(self) -> Option<($item, Self)> { loop {} }
    }
} }
src!{Src, u8}
src!{SrcR, &'static u8}
src!{Oth, u16}
src!{Sub, u8}
src!{SrcS, Sub}
#[inline(never)] pub fn fl<T, const K: u32>(x: T) -> Sub { loop {} }
#[inline(never)] pub fn pr<T, const K: u32>(x: &T) -> bool { loop {} }
#[inline(never)] pub fn mp<T, const K: u32>(x: T) -> T { loop {} }
#[inline(never)] pub fn fm<T, const K: u32>(x: T) -> Option<T> { loop {} }
#[inline(never)] pub fn fo<T, const K: u32>(a: u32, x: T) -> u32 { loop {} }
#[inline(never)] pub fn ea<T, const K: u32>(x: T) { loop {} }
'''

ADAPTERS = ["copied", "enumerate", "filter", "filter_map", "map", "rev", "skip", "skip_while", "take", "take_while", "zip"]
CONSUMERS = ["for_each", "all", "any", "count", "find", "find_map", "rfind", "fold", "rfold", "next", "nth", "position", "rposition"]
FLATS = ["flat_map", "flatten"]
REVERSERS = {"rev", "rfind", "rfold", "rposition"}
POSITIONAL_STD_OK = {"take", "skip", "zip"}        # std accepts these before a reverser (ExactSize + DoubleEnded)
POSITIONAL_STD_REJECTS = {"take_while", "skip_while"}   # TakeWhile/SkipWhile are not DoubleEndedIterator: no std counterpart


class Chain:
    def __init__(self, adapters, consumer):
        self.adapters = list(adapters)
        self.consumer = consumer

    def name(self):
        return ",".join(self.adapters + [self.consumer])

    def valid(self):
        a = self.adapters
        if "copied" in a and a.index("copied") != 0:
            return False
        if a.count("copied") > 1:
            return False
        revs = [m for m in a + [self.consumer] if m in REVERSERS]
        if len(revs) > 1:
            return False
        fl = [i for i, m in enumerate(a) if m in FLATS]
        if len(fl) > 1:
            return False
        if fl and a[fl[0]] == "flatten" and any(m != "rev" for m in a[:fl[0]]):
            return False      # flatten needs items that are iterators: only the SrcS source (possibly reversed) provides them
        return True

    def flat_at(self):
        for i, m in enumerate(self.adapters):
            if m in FLATS:
                return i
        return None

    def reversed_(self):
        return any(m in REVERSERS for m in self.adapters + [self.consumer])


def source_of(ch, idx, K):
    """rust source of the witness function + parameter layout"""
    src_ty = "SrcR" if ch.adapters[:1] == ["copied"] else "SrcS" if "flatten" in ch.adapters else "Src"
    item = "&'static u8" if src_ty == "SrcR" else "Sub" if src_ty == "SrcS" else "u8"
    params = ["s: %s" % src_ty]
    calls = []
    pnames = {}
    k = K
    nparam = 2
    for j, m in enumerate(ch.adapters):
        if m == "copied":
            calls.append("copied()")
            item = "u8"
        elif m == "enumerate":
            calls.append("enumerate()")
            item = "(usize, %s)" % item
        elif m == "filter":
            calls.append("filter(|x| pr::<_, %d>(x))" % (K + j))
        elif m == "filter_map":
            calls.append("filter_map(|x| fm::<_, %d>(x))" % (K + j))
        elif m == "map":
            calls.append("map(|x| mp::<_, %d>(x))" % (K + j))
        elif m == "rev":
            calls.append("rev()")
        elif m == "flat_map":
            calls.append("flat_map(|x| fl::<_, %d>(x))" % (K + j))
            item = "u8"
        elif m == "flatten":
            calls.append("flatten()")
            item = "u8"
        elif m in ("skip", "take"):
            params.append("n%d: usize" % j)
            pnames[j] = nparam
            nparam += 1
            calls.append("%s(n%d)" % (m, j))
        elif m == "skip_while":
            calls.append("skip_while(|x| pr::<_, %d>(x))" % (K + j))
        elif m == "take_while":
            calls.append("take_while(|x| pr::<_, %d>(x))" % (K + j))
        elif m == "zip":
            params.append("o%d: Oth" % j)
            pnames[j] = nparam
            nparam += 1
            calls.append("zip(o%d)" % j)
            item = "(%s, u16)" % item
    c = ch.consumer
    kc = K + len(ch.adapters)
    ret = "()"
    if c == "for_each!":
        body = "konst::iter::for_each!{x in s%s => { ea::<_, %d>(x); }}" % ("".join(", " + x for x in calls), kc)
        return "pub fn w%d(%s) { %s }\n" % (idx, ", ".join(params), body), pnames, src_ty
    if c == "for_each":
        calls.append("for_each(|x| ea::<_, %d>(x))" % kc)
    elif c in ("all", "any"):
        calls.append("%s(|x| pr::<_, %d>(&x))" % (c, kc))
        ret = "bool"
    elif c == "count":
        calls.append("count()")
        ret = "usize"
    elif c in ("find", "rfind"):
        calls.append("%s(|x| pr::<_, %d>(x))" % (c, kc))
        ret = "Option<%s>" % item
    elif c == "find_map":
        calls.append("find_map(|x| fm::<_, %d>(x))" % kc)
        ret = "Option<%s>" % item
    elif c in ("fold", "rfold"):
        calls.append("%s(7u32, |a, x| fo::<_, %d>(a, x))" % (c, kc))
        ret = "u32"
    elif c == "next":
        calls.append("next()")
        ret = "Option<%s>" % item
    elif c == "nth":
        params.append("nn: usize")
        pnames["nth"] = nparam
        nparam += 1
        calls.append("nth(nn)")
        ret = "Option<%s>" % item
    elif c in ("position", "rposition"):
        calls.append("%s(|x| pr::<_, %d>(&x))" % (c, kc))
        ret = "Option<usize>"
    body = "konst::iter::eval!(s, %s)" % ", ".join(calls)
    if ret == "()":
        body += ";"
    return "pub fn w%d(%s) -> %s { %s }\n" % (idx, ", ".join(params), ret, body), pnames, src_ty


# ---------------------------------------------------------------------------- normalisation
def norm(t):
    """call terms keep only their const-generic marker id; Option paths in one spelling"""
    if not isinstance(t, tuple) or not t:
        return t
    if t[0] == "call" and t[1] == "core::mem::ManuallyDrop::into_inner" and len(t) == 4 and t[3][0] == "call" \
            and t[3][1] == "core::mem::ManuallyDrop::new" and len(t[3]) == 4:
        return norm(t[3][3])          # into_iter_macro!'s wrapper: into_inner(new(x)) is x
    if t[0] == "call":
        if t[2] is None or isinstance(t[2], int):
            return ("call", t[1], t[2]) + tuple(norm(x) for x in t[3:])
        g = t[2] or ()
        kk = None
        for x in g:
            if isinstance(x, str) and x.isdigit():
                kk = int(x)
        return ("call", t[1], kk) + tuple(norm(x) for x in t[3:])
    return tuple(norm(x) if isinstance(x, tuple) else x for x in t)


def _is_int(t, v):
    return isinstance(t, tuple) and t and t[0] == "int" and t[1] == v


def norm_cond(c):
    c = norm(c)
    # the counters are usize: `n < 1`, `n <= 0` are `n == 0`; `1 <= n`, `0 < n` are `n != 0` (checked_sub + match, `> 0` ...)
    if c[0] == "lt" and _is_int(c[2], 1) or c[0] == "le" and _is_int(c[2], 0):
        c = ("eq", c[1], ("int", 0, "usize"))
    elif c[0] == "le" and _is_int(c[1], 1) or c[0] == "lt" and _is_int(c[1], 0):
        c = ("ne", c[2], ("int", 0, "usize"))
    if c[0] == "notin_variants" and c[2] == (1,):
        return ("is", c[1], 0)
    if c[0] == "notin_variants" and c[2] == (0,):
        return ("is", c[1], 1)
    if c[0] in ("in", "notin") and len(c[2]) == 1:
        # `match n { 0 => .., _ => .. }` and `if n == 0 {..} else {..}` are the same test
        x, y = sorted([c[1], ("int", c[2][0], "usize")], key=repr)
        return ("eq" if c[0] == "in" else "ne", x, y)
    if c[0] in ("eq", "ne"):
        a, b = c[1], c[2]
        a = ("int", a[1], "usize") if a[0] == "int" else a
        b = ("int", b[1], "usize") if b[0] == "int" else b
        x, y = sorted([a, b], key=repr)
        return (c[0], x, y)
    return c


def call(name, K, *args):
    return ("call", "%s::%s" % (W, name), K) + args


SOME = lambda x: ("agg", "adt:core::option::Option::Some#1", x)
NONE = ("agg", "adt:core::option::Option::None#0")


class RefPath:
    def __init__(self):
        self.conds = []
        self.events = []
        self.upd = {}
        self.item = None
        self.kind = None
        self.value = None
        self.phase = 1          # 2 = inside the loop over a flat_map/flatten sub-iterator
        self.upd2 = {}          # updates of inner-loop-carried state (phase 2, when the inner loop exists)
        self.pre = {}           # values the inner-loop-carried state has on entry to the inner loop
        self.mark = None        # (#conds, #events) at entry to the inner loop

    def fork(self):
        r = RefPath()
        r.conds, r.events, r.upd, r.item = list(self.conds), list(self.events), dict(self.upd), self.item
        r.phase, r.upd2, r.pre, r.mark = self.phase, dict(self.upd2), dict(self.pre), self.mark
        return r


def reference(ch, V, src_ty, K, V2=None):
    """compose the expected per-iteration relation; V maps abstract state names to ('L', n) symbols.
    V2 (chains with flat_map/flatten whose inner loop exists in the MIR): symbols of the state carried by the
    inner loop; path kinds are then exit / back (outer header, straight from the outer body) / back1 (outer header,
    from the inner loop: sub-iterator exhausted) / back2 (inner header)."""
    dirn = "next_back" if ch.reversed_() else "next"
    done = []
    live = [RefPath()]

    def inner(p, var):
        return p.phase == 2 and V2 is not None and var in V2

    def get(p, var):
        if inner(p, var):
            return p.upd2.get(var, V2[var])
        return p.upd.get(var, V.get(var))

    def put(p, var, val):
        if inner(p, var):
            p.upd2[var] = val
        else:
            p.upd[var] = val

    def finish(p, kind):
        if kind == "back" and p.phase == 2 and V2 is not None:
            kind = "back2"
        p.kind = kind
        if kind == "exit":
            p.value = get(p, "RET") if ("RET" in V or (V2 and "RET" in V2)) else sym.UNIT
        done.append(p)

    # pull
    nxt = []
    for p in live:
        c = call("%s::%s" % (src_ty, dirn), None, V["ITER"])
        p.events.append(c)
        q = p.fork()
        q.conds.append(("is", c, 0))
        finish(q, "exit")
        p.conds.append(("is", c, 1))
        pay = ("vfield", c, 1, 0)
        p.item = ("field", pay, 0)
        put(p, "ITER", ("field", pay, 1))
        nxt.append(p)
    live = nxt
    # the direction used by later zip sources: starts as the hoisted direction, every `rev` token toggles it
    cur_dir = dirn
    for j, m in enumerate(ch.adapters):
        nxt = []
        for p in live:
            if m == "rev":
                nxt.append(p)
            elif m in FLATS:
                if m == "flat_map":
                    sub = call("fl", K + j, p.item)
                    p.events.append(sub)
                else:
                    sub = p.item
                if V2 is not None:
                    p.pre = {v: p.upd.get(v, V.get(v)) for v in V2 if v != "SUB"}
                    p.pre["SUB"] = sub
                    p.mark = (len(p.conds), len(p.events))
                    p.phase = 2
                else:
                    p.upd["SUB"] = sub
                    p.phase = 2
                # the sub-iterator is pulled in the direction std would use: reversed iff a reversing method follows
                c = call("Sub::%s" % cur_dir, None, get(p, "SUB"))
                p.events.append(c)
                q = p.fork()
                q.conds.append(("is", c, 0))
                finish(q, "back1" if V2 is not None else "back")
                p.conds.append(("is", c, 1))
                pay = ("vfield", c, 1, 0)
                p.item = ("field", pay, 0)
                put(p, "SUB", ("field", pay, 1))
                nxt.append(p)
            elif m == "copied":
                p.item = sym.mk_deref(p.item)
                nxt.append(p)
            elif m == "enumerate":
                v = "I%d" % j
                p.item = ("agg", "tuple", get(p, v), p.item)
                put(p, v, ("bin", "Add", get(p, v), sym.I(1)))
                nxt.append(p)
            elif m in ("filter", "take_while"):
                c = call("pr", K + j, sym.mk_ref(p.item))
                p.events.append(c)
                q = p.fork()
                q.conds.append(("nholds", c))
                finish(q, "back" if m == "filter" else "exit")
                p.conds.append(("holds", c))
                nxt.append(p)
            elif m == "filter_map":
                c = call("fm", K + j, p.item)
                p.events.append(c)
                q = p.fork()
                q.conds.append(("is", c, 0))
                finish(q, "back")
                p.conds.append(("is", c, 1))
                p.item = ("vfield", c, 1, 0)
                nxt.append(p)
            elif m == "map":
                c = call("mp", K + j, p.item)
                p.events.append(c)
                p.item = c
                nxt.append(p)
            elif m == "skip":
                v = "REM%d" % j
                q = p.fork()
                q.conds.append(table.ne(get(q, v), sym.I(0)))
                put(q, v, ("bin", "Sub", get(q, v), sym.I(1)))
                finish(q, "back")
                p.conds.append(table.eq(get(p, v), sym.I(0)))
                nxt.append(p)
            elif m == "take":
                v = "REM%d" % j
                q = p.fork()
                q.conds.append(table.eq(get(q, v), sym.I(0)))
                finish(q, "exit")
                p.conds.append(table.ne(get(p, v), sym.I(0)))
                put(p, v, ("bin", "Sub", get(p, v), sym.I(1)))
                nxt.append(p)
            elif m == "skip_while":
                v = "STILL%d" % j
                # not skipping any more: the predicate is not called
                q = p.fork()
                q.conds.append(("nholds", get(q, v)))
                put(q, v, ("bool", False))
                nxt.append(q)
                c = call("pr", K + j, sym.mk_ref(p.item))
                p.conds.append(("holds", get(p, v)))
                p.events.append(c)
                r = p.fork()
                r.conds.append(("holds", c))
                put(r, v, c)
                finish(r, "back")
                p.conds.append(("nholds", c))
                put(p, v, c)
                nxt.append(p)
            elif m == "zip":
                v = "OIT%d" % j
                c = call("Oth::%s" % cur_dir, None, get(p, v))
                p.events.append(c)
                q = p.fork()
                q.conds.append(("is", c, 0))
                finish(q, "exit")
                p.conds.append(("is", c, 1))
                pay = ("vfield", c, 1, 0)
                p.item = ("agg", "tuple", p.item, ("field", pay, 0))
                put(p, v, ("field", pay, 1))
                nxt.append(p)
        if m == "rev":
            cur_dir = "next" if cur_dir == "next_back" else "next_back"
        live = nxt
    kc = K + len(ch.adapters)
    c_ = ch.consumer
    for p in live:
        if c_ in ("for_each", "for_each!"):
            p.events.append(call("ea", kc, p.item))
            finish(p, "back")
        elif c_ == "count":
            put(p, "RET", ("bin", "Add", get(p, "RET"), sym.I(1)))
            finish(p, "back")
        elif c_ in ("any", "all"):
            c = call("pr", kc, sym.mk_ref(p.item))
            p.events.append(c)
            q = p.fork()
            hit = c_ == "any"
            q.conds.append(("holds", c) if hit else ("nholds", c))
            put(q, "RET", ("bool", hit))
            finish(q, "exit")
            p.conds.append(("nholds", c) if hit else ("holds", c))
            finish(p, "back")
        elif c_ in ("find", "rfind"):
            c = call("pr", kc, sym.mk_ref(p.item))
            p.events.append(c)
            q = p.fork()
            q.conds.append(("holds", c))
            put(q, "RET", SOME(p.item))
            finish(q, "exit")
            p.conds.append(("nholds", c))
            finish(p, "back")
        elif c_ == "find_map":
            c = call("fm", kc, p.item)
            p.events.append(c)
            put(p, "RET", c)
            q = p.fork()
            q.conds.append(("is", c, 1))
            finish(q, "exit")
            p.conds.append(("is", c, 0))
            finish(p, "back")
        elif c_ in ("fold", "rfold"):
            c = call("fo", kc, get(p, "RET"), p.item)
            p.events.append(c)
            put(p, "RET", c)
            finish(p, "back")
        elif c_ == "next":
            put(p, "RET", SOME(p.item))
            finish(p, "exit")
        elif c_ == "nth":
            q = p.fork()
            q.conds.append(table.eq(get(q, "NTH"), sym.I(0)))
            put(q, "RET", SOME(p.item))
            finish(q, "exit")
            p.conds.append(table.ne(get(p, "NTH"), sym.I(0)))
            put(p, "NTH", ("bin", "Sub", get(p, "NTH"), sym.I(1)))
            finish(p, "back")
        elif c_ in ("position", "rposition"):
            c = call("pr", kc, sym.mk_ref(p.item))
            p.events.append(c)
            q = p.fork()
            q.conds.append(("holds", c))
            put(q, "RET", SOME(get(q, "POS")))
            finish(q, "exit")
            p.conds.append(("nholds", c))
            put(p, "POS", ("bin", "Add", get(p, "POS"), sym.I(1)))
            finish(p, "back")
    return done


def initial_term(name, init, pnames):
    """the value a state variable has before the loop (used for variables no loop carries)"""
    if isinstance(init, tuple):
        return init
    if name == "ITER":
        return ("p", 1)
    if name == "NTH":
        return ("p", pnames["nth"])
    j = int("".join(ch_ for ch_ in name if ch_.isdigit()))
    return ("p", pnames[j])


def state_vars(ch):
    """abstract state variables in allocation order, with their expected initial value kind"""
    out = []
    c = ch.consumer
    if c not in ("for_each", "for_each!"):
        init = {"all": ("bool", True), "any": ("bool", False), "count": sym.I(0), "fold": ("int", 7, "u32"), "rfold": ("int", 7, "u32")}.get(c, NONE)
        out.append(("RET", init))
    out.append(("ITER", "param:1"))
    for j, m in enumerate(ch.adapters):
        if m == "zip":
            out.append(("OIT%d" % j, "param"))
        elif m == "enumerate":
            out.append(("I%d" % j, sym.I(0)))
        elif m in ("take", "skip"):
            out.append(("REM%d" % j, "param"))
        elif m == "skip_while":
            out.append(("STILL%d" % j, ("bool", True)))
    if c == "nth":
        out.append(("NTH", "param"))
    if c in ("position", "rposition"):
        out.append(("POS", sym.I(0)))
    if ch.flat_at() is not None:
        out.append(("SUB", "sub"))
    return out


def symbols_in(t, acc):
    if not isinstance(t, tuple) or not t:
        return
    if t[0] == "L":
        acc.add(t[1])
        return
    for x in t[1:]:
        if isinstance(x, tuple):
            symbols_in(x, acc)


def ref_known(r, v):
    if isinstance(v, tuple) and v and v[0] == "call":
        if ("holds", v) in r.conds:
            return ("bool", True)
        if ("nholds", v) in r.conds:
            return ("bool", False)
    return v


def ref_simplify(paths):
    """drop conditions that are constants and paths whose conditions are constant-false (state folded to its invariant value)"""
    out = []
    for r in paths:
        dead = False
        cs = []
        for c in r.conds:
            if c[0] in ("holds", "nholds") and isinstance(c[1], tuple) and c[1] and c[1][0] == "bool":
                if (c[0] == "holds") != c[1][1]:
                    dead = True
                continue
            cs.append(c)
        if not dead:
            r.conds = cs
            out.append(r)
    return out


def ref_simplify_nested(paths):
    """as ref_simplify, keeping the inner-loop mark (number of outer conditions) right"""
    out = []
    for r in paths:
        dead = False
        cs = []
        nc = r.mark[0] if r.mark is not None else None
        removed_before = 0
        for i, c in enumerate(r.conds):
            if c[0] in ("holds", "nholds") and isinstance(c[1], tuple) and c[1] and c[1][0] == "bool":
                if (c[0] == "holds") != c[1][1]:
                    dead = True
                if nc is not None and i < nc:
                    removed_before += 1
                continue
            cs.append(c)
        if dead:
            continue
        r.conds = cs
        if r.mark is not None:
            r.mark = (nc - removed_before, r.mark[1])
        out.append(r)
    return out


def sig(conds, events, upd, kind, value):
    return (frozenset(norm_cond(c) for c in conds), tuple(norm(e) for e in events),
            tuple(sorted((k, repr(norm(v))) for k, v in upd.items())) if kind == "back" else (), kind,
            repr(norm(value)) if kind == "exit" else None)


def assignments(exp_vars, locals_, init, pnames):
    """all bijections state variable -> carried local that agree with the values the locals have before the loop; the
    declaration order comes first, so that it is the one reported when none fits (a reordering of the macro's internal
    variables is not a finding)"""
    want = {}
    for name, w in exp_vars:
        try:
            want[name] = norm(initial_term(name, w, pnames))
        except Exception:
            want[name] = None
    out = []

    def fits(name, l):
        got = init.get(l)
        return got is None or want[name] is None or norm(got) == want[name]

    def rec(i, used, cur):
        if len(out) >= 24:
            return
        if i == len(exp_vars):
            out.append(list(cur))
            return
        name = exp_vars[i][0]
        for l in locals_:
            if l not in used and fits(name, l):
                rec(i + 1, used | {l}, cur + [l])
    rec(0, frozenset(), [])
    return out


def _subst(t, m):
    if not isinstance(t, tuple) or not t:
        return t
    if t in m:
        return m[t]
    return tuple(_subst(x, m) if isinstance(x, tuple) else x for x in t)


def fold_invariants(loop_paths, header, inner=None):
    """A loop-assigned local whose value before the loop is a constant and which every back edge sets to the same constant
    (possibly via a condition of the path: `ret = cond` on a path where `cond` is false) is invariant: its header symbol is
    replaced by the constant everywhere.  With a nested loop (`inner` header) the hypothesis covers both header symbols and is
    checked on the entry of the inner loop and on the back edges to either header.  (Induction over the iterations; keeps
    `ret = cond; if cond { break }` and `if cond { ret = true; break }` the same relation.)"""
    init = {}
    for p in loop_paths:
        for e in p.events:
            if e[0] == "loop" and e[1] == header:
                init = dict(e[2])

    def known(p, v):
        if isinstance(v, tuple) and v and v[0] == "call":
            if ("holds", v) in p.conds:
                return ("bool", True)
            if ("nholds", v) in p.conds:
                return ("bool", False)
        return v
    backs = [p for p in loop_paths if p.kind == "back"]
    m = {}
    for l, k in init.items():
        if not (isinstance(k, tuple) and k and k[0] in ("bool", "int")):
            continue
        hyp = {("L", l): k}
        if inner is not None:
            hyp[("L", l, inner)] = k
        ok = bool(backs)
        for p in backs:
            cur = ("L", l, inner) if (inner is not None and any(e[0] == "loop" and e[1] == inner for e in p.events)) else ("L", l)
            if known(p, _subst(p.env.get(l, cur), hyp)) != k:
                ok = False
        if inner is not None:
            for p in loop_paths:
                for e in p.events:
                    if e[0] == "loop" and e[1] == inner:
                        if _subst(dict(e[2]).get(l, ("L", l)), hyp) != k:
                            ok = False
        if ok:
            m.update(hyp)
    for p in loop_paths:
        if p.kind == "return":
            p.value = known(p, p.value)           # `ret = cond; if cond { break }`: the value returned is `true`
    if not m:
        return
    for p in loop_paths:
        p.conds = tuple(_subst(c, m) for c in p.conds)
        p.events = tuple((e[0], e[1], _subst(e[2], m)) + tuple(e[3:]) if e[0] == "call" else e for e in p.events)
        if isinstance(p.value, tuple):
            p.value = _subst(p.value, m)
        p.events = tuple((e[0], e[1], tuple((l, _subst(v, m)) for l, v in e[2])) + tuple(e[3:]) if e[0] == "loop" else e for e in p.events)
        for l in list(p.env):
            if ("L", l) in m:
                p.env[l] = m[("L", l)]
            else:
                p.env[l] = _subst(p.env[l], m)
    # conditions that became constants: drop the true ones, and the paths with a false one
    dead = []
    for p in loop_paths:
        cs = []
        for c in p.conds:
            if c[0] in ("holds", "nholds") and isinstance(c[1], tuple) and c[1] and c[1][0] == "bool":
                if (c[0] == "holds") != c[1][1]:
                    dead.append(p)
                continue
            cs.append(c)
        p.conds = tuple(cs)
    for p in dead:
        if p in loop_paths:
            loop_paths.remove(p)


def validate(ctx, prog, ch, idx, pnames, src_ty, K):
    key = ch.name()
    b = prog.get("%s::w%d" % (W, idx))
    if b is None:
        ctx.violation("TV", key + "|missing", "witness for chain %s missing" % key)
        return False
    try:
        paths = sym.through_loops(b, prog, keep_back=True, inline_all_loopfree=True, max_paths=3000,
                                  opaque=OPAQUE)
    except sym.TooManyPaths:
        ctx.violation("TV", key + "|paths", "too many paths for chain %s" % key)
        return False
    loop_paths = [p for p in paths if any(e[0] == "loop" for e in p.events)]
    hdrs = {e[1] for p in loop_paths for e in p.events if e[0] == "loop"}
    if len(hdrs) == 1:
        fold_invariants(loop_paths, next(iter(hdrs)))
    if not hdrs and not b.loops():
        # every path leaves after the first element (e.g. `next()` without a filtering adapter): no loop is left in the MIR.
        # The schema must then have no continuing path either, and its exits must be the function's paths.
        V = {n: initial_term(n, i, pnames) for n, i in state_vars(ch)}
        exp = reference(ch, V, src_ty, K)
        ok = True
        if any(r.kind != "exit" for r in exp):
            ctx.violation("TV", key + "|loops", "chain %s: the schema continues with the next element on some path, the generated code has no loop" % key)
            ok = False
        exp_s = {sig(r.conds, r.events, {}, "exit", r.value) for r in exp if r.kind == "exit"}
        got_s = set()
        for p in paths:
            if p.kind != "return":
                continue
            evs = [e[2] for e in p.events if e[0] == "call" and e[1].startswith(W + "::")]
            got_s.add(sig(p.conds, evs, {}, "exit", p.value))
        if exp_s != got_s:
            ctx.violation("TV", key, "chain `%s` (no loop): the generated paths differ from the std-derived schema (%d expected not generated, %d generated "
                          "not expected)" % (key, len(exp_s - got_s), len(got_s - exp_s)),
                          detail={"source": source_of(ch, idx, K)[0], "not_generated": [str(x)[:400] for x in list(exp_s - got_s)[:3]],
                                  "unexpected": [str(x)[:400] for x in list(got_s - exp_s)[:3]]})
            ok = False
        ctx.instance("TV-NOLOOP", key, nontrivial=True)
        return ok
    if len(hdrs) != 1:
        ctx.violation("TV", key + "|loops", "chain %s expands to %d loops, expected one" % (key, len(hdrs)))
        return False
    used = set()
    for p in loop_paths:
        for c in p.conds:
            symbols_in(c, used)
        for e in p.events:
            if e[0] == "call":
                symbols_in(e[2], used)
        if isinstance(p.value, tuple):
            symbols_in(p.value, used)
        if p.kind == "back":
            for l, v in p.env.items():
                if l in used or True:
                    pass
    # loop-carried = symbols read anywhere
    for p in loop_paths:
        if p.kind == "back":
            for l, v in p.env.items():
                acc = set()
                symbols_in(v, acc)
                used |= acc
    carried = sorted(used)
    all_vars = state_vars(ch)
    # which state variables does the schema itself carry around the loop?  (a variable only assigned on the way out
    # of the loop - the result of find/all/next.., a counter in front of an always-breaking consumer - is invariant)
    V0 = {n: ("L", -1 - i) for i, (n, _) in enumerate(all_vars)}
    inits = dict(all_vars)
    carried_names = set()
    for r in reference(ch, V0, src_ty, K):
        if r.kind == "back":
            # (a back edge that re-assigns a constant start value - `still = pred(x)` on the path where it holds - changes nothing)
            carried_names |= {k for k, v in r.upd.items() if v != V0[k] and ref_known(r, v) != inits.get(k)}
    ret_carried = "RET" in carried_names
    exp_vars = [(n, i) for n, i in all_vars if n in carried_names or n == "ITER"]
    if len(carried) != len(exp_vars):
        ctx.violation("TV", key + "|state", "chain %s: generated loop carries %d state variables, the reference schema has %d (%s)" % (
            key, len(carried), len(exp_vars), [v for v, _ in exp_vars]), detail={"carried": [b.local_name(l) or l for l in carried]})
        return False
    # initial values
    init = {}
    for p in loop_paths:
        for e in p.events:
            if e[0] == "loop":
                init = dict(e[2])
    cands = assignments(exp_vars, carried, init, pnames)
    if not cands:
        for (name, want), l in zip(exp_vars, carried):
            got = init.get(l)
            if got is not None and norm(got) != norm(initial_term(name, want, pnames)):
                ctx.violation("TV", key + "|init|" + name, "chain %s: state %s starts as %s, expected %s" % (
                    key, name, show(got), show(initial_term(name, want, pnames))))
        return False
    first = None
    for order in cands:
        V = {name: ("L", l) for (name, _), l in zip(exp_vars, order)}
        for n, i in all_vars:
            if n not in V:
                V[n] = initial_term(n, i, pnames)      # not loop state: keeps the value it had before the loop
        exp_sigs = {}
        for r in ref_simplify(reference(ch, V, src_ty, K)):
            upd = {V[k][1]: v for k, v in r.upd.items() if v != V[k] and V[k][0] == "L"}
            exp_sigs[sig(r.conds, r.events, upd, r.kind, r.value)] = r
        got_sigs = {}
        for p in loop_paths:
            if p.kind == "panic":
                continue          # arithmetic overflow / unreachable asserts are outside the schema
            evs = [e[2] for e in p.events if e[0] == "call" and e[1].startswith(W + "::")]
            kind = "back" if p.kind == "back" else "exit"
            upd = {}
            if kind == "back":
                for l in carried:
                    v = p.env.get(l, ("L", l))
                    if v != ("L", l):
                        upd[l] = v
            got_sigs[sig(p.conds, evs, upd, kind, p.value)] = p
        missing = [s for s in exp_sigs if s not in got_sigs]
        extra = [s for s in got_sigs if s not in exp_sigs]
        if not missing and not extra:
            return True
        if first is None:
            first = (missing, extra)
    missing, extra = first

    def d(s):
        return {"conds": sorted(map(str, s[0]))[:8], "events": [str(e)[:90] for e in s[1]], "updates": s[2], "end": s[3], "value": s[4]}
    ctx.violation("TV", key, "chain `%s`: the generated loop's iteration relation differs from the std-derived schema (%d expected paths not "
                  "generated, %d generated paths not expected)" % (key, len(missing), len(extra)),
                  detail={"source": source_of(ch, idx, K)[0], "not_generated": [d(s) for s in missing[:3]], "unexpected": [d(s) for s in extra[:3]]})
    return False


OPAQUE = {"%s::%s::%s" % (W, s_, d_) for s_ in ("Src", "SrcR", "Oth", "Sub", "SrcS") for d_ in ("next", "next_back")}


def symbols2(t, outer, inner):
    if not isinstance(t, tuple) or not t:
        return
    if t[0] == "L":
        (inner if len(t) == 3 else outer).add(t[1])
        return
    for x in t[1:]:
        if isinstance(x, tuple):
            symbols2(x, outer, inner)


NEST2_SRC = """
#![allow(unused)]
#[inline(never)] pub fn sink(x: &u8) { loop {} }
#[inline(never)] pub fn sub(x: &u8) -> &[u8; 2] { loop {} }
pub fn n_flatten_flatten_for_each(s: &[[[u8; 2]; 2]; 2]) { konst::iter::for_each!{x in s, flatten(), flatten() => { sink(x); }} }
pub fn n_flatten_flatten_count(s: &[[[u8; 2]; 2]; 2]) -> usize { konst::iter::eval!(s, flatten(), flatten(), count()) }
pub fn n_flatten_flat_map_fold(s: &[[u8; 2]; 2]) -> u8 { konst::iter::eval!(s, flatten(), flat_map(|x| sub(x)), fold(0u8, |a, x| a ^ *x)) }
pub fn n_flat_map_flat_map_for_each(s: &[u8; 2]) { konst::iter::for_each!{x in s, flat_map(|x| sub(x)), flat_map(|x| sub(x)) => { sink(x); }} }
pub fn n_flat_map_flatten_count(s: &[[[u8; 2]; 2]; 2]) -> usize { konst::iter::eval!(s, flat_map(|x| x), flatten(), count()) }
"""


def nest2(ctx):
    """NEST2: chains with two flattening steps are three nested loops.  The translation validation composes one flattening level;
    for the second one this structural rule holds the generated control flow to the nesting: with no short-circuiting method in the
    chain, every way out of the innermost loop continues inside the middle loop (its sub-iterator is exhausted: fetch the next one), and
    every way out of the middle loop continues inside the outer one.  A `break`/`continue` wired to the wrong level skips elements."""
    prog, diag = witness_program(ctx, "w10n", NEST2_SRC)
    if prog is None:
        ctx.violation("NEST2", "witness", "the nested-flatten witness crate does not compile:\n%s" % diag[-2000:])
        return
    for b in prog.bodies:
        if b.crate != "w10n" or b.promoted is not None or not b.key.split("::")[-1].startswith("n_"):
            continue
        name = b.key.split("::")[-1]
        loops = b.loops()
        hs = sorted(loops, key=lambda h: -len(loops[h]))
        chain = []
        for h in hs:
            if not chain or loops[h] < loops[chain[-1]]:
                chain.append(h)
        msg = None
        if len(chain) < 3:
            msg = "expected three nested loops, found nesting depth %d" % len(chain)
        else:
            for lvl in (2, 1):
                inner, parent = loops[chain[lvl]], loops[chain[lvl - 1]]
                for bb in inner:
                    for t in b.succ(bb):
                        if t not in inner and t not in parent and b.blocks[t]["term"]["k"] != "unreachable":
                            msg = msg or "a way out of loop level %d (bb%d -> bb%d) leaves loop level %d as well: the rest of that level's sub-iterator is skipped" % (lvl + 1, bb, t, lvl)
        if msg:
            ctx.violation("NEST2", name, "%s: %s" % (name, msg), detail={"mir": b.pretty()})
        ctx.instance("NEST2", name, sample={"witness": name, "loops": len(loops)})
    ctx.floor("NEST2", 5)


SCOPE_ADAPTERS = [
    ("map", "map(|&x| x)"), ("filter", "filter(|&&x| px(x))"), ("filter_map", "filter_map(|&x| ox(x))"),
    ("take_while", "take_while(|&&x| px(x))"), ("skip_while", "skip_while(|&&x| px(x))"), ("flat_map", "flat_map(|&x| sx(x))"),
]
SCOPE_SRC = """
#![allow(unused)]
#[inline(never)] pub fn px(x: u32) -> bool { loop {} }
#[inline(never)] pub fn ox(x: u32) -> Option<u32> { loop {} }
#[inline(never)] pub fn sx(x: u32) -> &'static [u32; 2] { loop {} }
#[inline(never)] pub fn mark<T>(item: T, outer: u32) -> u32 { loop {} }
""" + "".join("pub fn s_%s(v: &[u32; 2], x: u32) -> u32 { konst::iter::eval!(v, %s, map(|y| mark(y, x)), fold(0u32, |a, b| a ^ b)) }\n" % (n, c)
              for n, c in SCOPE_ADAPTERS)


def closure_scope(ctx):
    """SCOPE: a closure's parameter is visible inside that closure only.  Each witness has an outer variable `x`, an adapter whose
    closure parameter is also called `x`, and a later closure that mentions `x`: as in std, that must be the outer one (in the MIR:
    the marker's second argument is the function's parameter), not the earlier closure's parameter still in scope of the expansion."""
    prog, diag = witness_program(ctx, "w10s", SCOPE_SRC)
    if prog is None:
        ctx.violation("SCOPE", "witness", "the closure-scope witness crate does not compile:\n%s" % diag[-2000:])
        return
    for n, c in SCOPE_ADAPTERS:
        b = prog.get("w10s::s_" + n)
        if b is None:
            ctx.violation("SCOPE", n, "witness s_%s missing" % n)
            continue
        try:
            paths = sym.through_loops(b, prog, keep_back=True, nested=True, max_paths=4000, opaque=OPAQUE)
        except sym.TooManyPaths:
            ctx.violation("SCOPE", n, "too many paths")
            continue
        args = set()
        for p in paths:
            for e in p.events:
                if e[0] == "call" and e[1] == "w10s::mark":
                    args.add(table.strip_gargs(e[2])[4])
        if not args:
            ctx.violation("SCOPE", n, "s_%s: the later closure is never run" % n)
        elif args != {("p", 2)}:
            ctx.violation("SCOPE", n, "after `%s`, a later closure's `x` is %s instead of the caller's own variable `x`: the parameter of the "
                          "%s closure stays in scope for the rest of the chain (std: closure parameters are local to their closure)" % (
                              c, sorted(show(a) for a in args), n), b.file())
        ctx.instance("SCOPE", n, sample={"adapter": n, "later_x": sorted(show(a) for a in args)})
    ctx.floor("SCOPE", len(SCOPE_ADAPTERS))


def validate_nested(ctx, prog, ch, idx, pnames, src_ty, K):
    """chains with one flat_map/flatten: the generated code is an outer loop over the source and an (unlabelled) inner loop
    over the sub-iterator; both iteration relations are compared with the composed schema, state symbol by state symbol"""
    key = ch.name()
    b = prog.get("%s::w%d" % (W, idx))
    if b is None:
        ctx.violation("TV", key + "|missing", "witness for chain %s missing" % key)
        return False
    try:
        paths = sym.through_loops(b, prog, keep_back=True, nested=True, inline_all_loopfree=True, max_paths=6000, opaque=OPAQUE)
    except sym.TooManyPaths:
        ctx.violation("TV", key + "|paths", "too many paths for chain %s" % key)
        return False
    loop_paths = [p for p in paths if any(e[0] == "loop" for e in p.events) and p.kind != "panic"]
    seqs = {tuple(e[1] for e in p.events if e[0] == "loop") for p in loop_paths}
    h1s = {q[0] for q in seqs}
    h2s = {q[1] for q in seqs if len(q) > 1}
    if len(h1s) != 1 or len(h2s) > 1 or any(len(q) > 2 for q in seqs):
        ctx.violation("TV", key + "|loops", "chain %s: expected an outer loop and at most one inner loop, got header sequences %s" % (key, sorted(seqs)))
        return False
    H1 = next(iter(h1s))
    H2 = next(iter(h2s)) if h2s else None
    fold_invariants(loop_paths, H1, H2)
    all_vars = state_vars(ch)
    names = [n for n, _ in all_vars]
    # dry run of the schema: which state does it carry around which loop?
    V0 = {n: ("L", -1 - i) for i, n in enumerate(names)}
    V20 = {n: ("L", -1 - i, 0) for i, n in enumerate(names)}
    dry = reference(ch, V0, src_ty, K, V20)
    has_inner = any(r.kind == "back2" for r in dry)
    # a state variable is carried by a loop when some path of that loop *reads* the value it had at the loop header
    rd_o, rd_i = set(), set()
    for r in dry:
        for c in r.conds:
            symbols2(c, rd_o, rd_i)
        for e in r.events:
            symbols2(e, rd_o, rd_i)
        if r.kind == "exit" and isinstance(r.value, tuple):
            symbols2(r.value, rd_o, rd_i)
        if r.kind in ("back", "back1"):
            for k, v in r.upd.items():
                symbols2(v, rd_o, rd_i)
        if r.kind == "back2":
            for k, v in r.upd2.items():
                symbols2(v, rd_o, rd_i)
    chg_i, chg_o = set(), set()
    inits = dict(all_vars)
    for r in dry:
        if r.kind == "back2":
            chg_i |= {k for k, v in r.upd2.items() if v != V20[k] and ref_known(r, v) != inits.get(k)}
        if r.kind in ("back", "back1", "back2"):
            chg_o |= {k for k, v in r.upd.items() if v != V0[k] and ref_known(r, v) != inits.get(k)}
    chg_o |= chg_i
    # ... and some path of the loop changes it (a variable only assigned on the way out of a loop is not loop state)
    inner_names = {n for i, n in enumerate(names) if (-1 - i) in rd_i and n in chg_i} if has_inner else set()
    if has_inner:
        inner_names.add("SUB")
    outer_names = {n for i, n in enumerate(names) if ((-1 - i) in rd_o or n in inner_names) and n in chg_o}
    outer_names.discard("SUB")
    if has_inner != (H2 is not None):
        ctx.violation("TV", key + "|loops", "chain %s: the schema %s an inner loop, the generated code %s" % (
            key, "has" if has_inner else "has no", "has one" if H2 is not None else "has none"))
        return False
    used_o, used_i = set(), set()
    for p in loop_paths:
        for c in p.conds:
            symbols2(c, used_o, used_i)
        for e in p.events:
            if e[0] == "call":
                symbols2(e[2], used_o, used_i)
            elif e[0] == "loop" and e[1] == H2:
                for l, v in e[2]:
                    symbols2(v, used_o, used_i)
        if isinstance(p.value, tuple) and p.kind != "back":
            symbols2(p.value, used_o, used_i)
        if p.kind == "back":
            for l, v in p.env.items():
                symbols2(v, used_o, used_i)
    # a local the inner loop carries but the outer body does not assign enters the inner loop with its outer-header value
    for p in loop_paths:
        for e in p.events:
            if e[0] == "loop" and e[1] == H2:
                d_ = dict(e[2])
                used_o |= {l for l in used_i if l not in d_}
    car_o, car_i = sorted(used_o), sorted(used_i)
    exp_o = [(n, i) for n, i in all_vars if n in outer_names or n == "ITER"]
    exp_i = [(n, i) for n, i in all_vars if n in inner_names]
    if len(car_o) != len(exp_o) or len(car_i) != len(exp_i):
        ctx.violation("TV", key + "|state", "chain %s: generated loops carry %d/%d state variables (outer/inner), the reference schema has %d/%d (%s / %s)" % (
            key, len(car_o), len(car_i), len(exp_o), len(exp_i), [v for v, _ in exp_o], [v for v, _ in exp_i]),
            detail={"outer": [b.local_name(l) or l for l in car_o], "inner": [b.local_name(l) or l for l in car_i], "source": source_of(ch, idx, K)[0]})
        return False
    init = {}
    for p in loop_paths:
        for e in p.events:
            if e[0] == "loop" and e[1] == H1:
                init = dict(e[2])
    cands = assignments(exp_o, car_o, init, pnames)
    if not cands:
        for (name, want), l in zip(exp_o, car_o):
            got = init.get(l)
            if got is not None and norm(got) != norm(initial_term(name, want, pnames)):
                ctx.violation("TV", key + "|init|" + name, "chain %s: state %s starts as %s, expected %s" % (
                    key, name, show(got), show(initial_term(name, want, pnames))))
        return False

    def nsig(conds1, ev1, pre, conds2, ev2, upd, kind, value):
        return (frozenset(norm_cond(c) for c in conds1), tuple(norm(e) for e in ev1),
                tuple(sorted((k, repr(norm(v))) for k, v in pre.items())),
                frozenset(norm_cond(c) for c in conds2), tuple(norm(e) for e in ev2),
                tuple(sorted((k, repr(norm(v))) for k, v in upd.items())) if kind != "exit" else (), kind,
                repr(norm(value)) if kind == "exit" else None)
    got_sigs = {}
    for p in loop_paths:
        ev1, ev2, pre = [], [], {}
        n1 = n2 = None
        seg = 0
        for e in p.events:
            if e[0] == "loop":
                if e[1] == H1:
                    seg, n1 = 1, e[3]
                else:
                    seg, n2 = 2, e[3]
                    d_ = dict(e[2])
                    pre = {l: d_.get(l, ("L", l)) for l in car_i}
            elif e[0] == "call" and e[1].startswith(W + "::"):
                (ev1 if seg == 1 else ev2 if seg == 2 else []).append(e[2])
        conds1 = p.conds[n1:n2] if n2 is not None else p.conds[n1:]
        conds2 = p.conds[n2:] if n2 is not None else ()
        upd = {}
        if p.kind == "back" and p.value == H2:
            kind = "back2"
            for l in car_i:
                v = p.env.get(l, ("L", l, H2))
                if v != ("L", l, H2):
                    upd[l] = v
        elif p.kind == "back":
            kind = "back1" if n2 is not None else "back"
            for l in car_o:
                same = ("L", l, H2) if (n2 is not None and l in car_i) else ("L", l)
                v = p.env.get(l, same)
                if v != same:
                    upd[l] = v
        else:
            kind = "exit"
        got_sigs[nsig(conds1, ev1, pre, conds2, ev2, upd, kind, p.value)] = p
    first = None
    inner_shared = [n for n, _ in exp_i if n != "SUB"]
    for order in cands:
        V = {n: ("L", l) for (n, _), l in zip(exp_o, order)}
        V2 = None
        if has_inner:
            if any(n not in V or V[n][1] not in car_i for n in inner_shared):
                continue
            V2 = {n: ("L", V[n][1], H2) for n in inner_shared}
            rest = [l for l in car_i if l not in {V[n][1] for n in inner_shared}]
            if len(rest) != 1:
                continue
            V2["SUB"] = ("L", rest[0], H2)
        for n, i in all_vars:
            if n not in V and n != "SUB":
                V[n] = initial_term(n, i, pnames)      # not loop state: keeps the value it had before the loops
        exp_sigs = {}
        for r in ref_simplify_nested(reference(ch, V, src_ty, K, V2)):
            nc, ne = r.mark if r.mark is not None else (len(r.conds), len(r.events))
            pre = {V2[k][1]: v for k, v in r.pre.items()} if V2 else {}
            if r.kind == "back2":
                upd = {V2[k][1]: v for k, v in r.upd2.items() if v != V2[k]}
            else:
                upd = {V[k][1]: v for k, v in r.upd.items() if k in V and isinstance(V[k], tuple) and V[k][0] == "L" and v != V[k]}
            exp_sigs[nsig(r.conds[:nc], r.events[:ne], pre, r.conds[nc:], r.events[ne:], upd, r.kind, r.value)] = r
        missing = [s_ for s_ in exp_sigs if s_ not in got_sigs]
        extra = [s_ for s_ in got_sigs if s_ not in exp_sigs]
        if not missing and not extra:
            return True
        if first is None:
            first = (missing, extra)
    if first is None:
        ctx.violation("TV", key + "|state", "chain %s: the state the inner loop carries is not the state the outer loop hands to it" % key,
                      detail={"outer": [b.local_name(l) or l for l in car_o], "inner": [b.local_name(l) or l for l in car_i]})
        return False
    missing, extra = first

    def d(s_):
        return {"outer_conds": sorted(map(str, s_[0]))[:8], "outer_events": [str(e)[:90] for e in s_[1]], "inner_entry": s_[2],
                "inner_conds": sorted(map(str, s_[3]))[:8], "inner_events": [str(e)[:90] for e in s_[4]], "updates": s_[5], "end": s_[6], "value": s_[7]}
    ctx.violation("TV", key, "chain `%s`: the generated loops' iteration relations differ from the std-derived schema (%d expected paths not "
                  "generated, %d generated paths not expected)" % (key, len(missing), len(extra)),
                  detail={"source": source_of(ch, idx, K)[0], "not_generated": [d(s_) for s_ in missing[:3]], "unexpected": [d(s_) for s_ in extra[:3]]})
    return False


def enumerate_chains(ctx):
    chains = []
    for a in ADAPTERS:
        for c in CONSUMERS:
            chains.append(Chain([a], c))
    for c in CONSUMERS:
        chains.append(Chain([], c))
    trio = ["for_each", "find", "count"]
    for a1, a2 in itertools.product(ADAPTERS, repeat=2):
        for c in trio:
            chains.append(Chain([a1, a2], c))
    # direction bookkeeping: every triple with a `rev` and a direction-sensitive adapter (zip, flat_map, flatten pull a second
    # iterator in the current direction), in every order
    dsens = {"zip", "flat_map", "flatten"}
    for tr in itertools.product(ADAPTERS + FLATS, repeat=3):
        if tr.count("rev") == 1 and dsens & set(tr):
            chains.append(Chain(list(tr), "for_each"))
    # the for_each! macro (its own entry point into the same machinery)
    chains.append(Chain([], "for_each!"))
    for a1 in ADAPTERS + FLATS:
        chains.append(Chain([a1], "for_each!"))
        for a2 in ADAPTERS + FLATS:
            chains.append(Chain([a1, a2], "for_each!"))
    for c in CONSUMERS:
        for f in FLATS:
            chains.append(Chain([f], c))
            for a in ADAPTERS:
                chains.append(Chain([f, a], c))
                chains.append(Chain([a, f], c))
    if ctx.tier == "thorough":
        rng = random.Random(ctx.seed)
        for _ in range(2500):
            n = 3
            chains.append(Chain([rng.choice(ADAPTERS + FLATS) for _ in range(n)], rng.choice(CONSUMERS)))
    seen = set()
    out = []
    for ch in chains:
        if ch.valid() and ch.name() not in seen:
            seen.add(ch.name())
            out.append(ch)
    return out


def direction_findings(ch):
    """(adapter, reverser) pairs where std counts from the front but the hoisted reversal makes konst count from the back"""
    seq = ch.adapters + [ch.consumer]
    out = []
    for i, m in enumerate(seq):
        if m in REVERSERS:
            for a in seq[:i]:
                if a in POSITIONAL_STD_OK:
                    out.append((a, m))
    return out


def std_rejects(ch):
    seq = ch.adapters + [ch.consumer]
    for i, m in enumerate(seq):
        if m in REVERSERS and any(a in POSITIONAL_STD_REJECTS or a in ("filter_map",) and False for a in seq[:i]):
            return True
    return False


def run(ctx):
    ctx.explanation = ("translation validation of generated DSL chains: per-iteration relation extracted from the witness MIR vs the relation "
                       "composed from per-method std semantics; direction rule for positional adapters before a reversal")
    ctx.level = "translation_validation"
    chains, dir_seen, samples = tv(ctx)
    for (a, r), example in sorted(dir_seen.items()):
        why = {"take": "keeps the last n elements instead of the first n (eval!(&[1,2,3,4], take(2), rev(), next()) = Some(4), std Some(2))",
               "skip": "skips the last n elements instead of the first n (eval!(&[1,2,3,4], skip(1), rev(), next()) = Some(3), std Some(4))",
               "zip": "pairs both sides from their back ends, std first trims the longer side (eval!(&[1,2,3], zip(&[10,20]), rev(), next()) = "
                      "Some((3,20)), std Some((2,20)))"}[a]
        ctx.violation("DIR", "%s|%s" % (a, r), "`%s` before `%s` is accepted, but the reversal is hoisted to the source, so `%s` %s; seen in chain `%s`" % (
            a, r, a, why, example))
        ctx.instance("DIR", "%s|%s" % (a, r), sample={"adapter": a, "reverser": r, "example": example})
    ctx.extra["programs"] = len(chains)
    ctx.extra["disagreements_checked"] = len(chains)
    ctx.extra["samples"] = samples or [{"chain": "-"}]
    nest2(ctx)
    closure_scope(ctx)
    param_programs(ctx)
    from .. import macrolint
    macrolint.hygiene_rule(ctx, ["iter_eval", "for_each", "iter_collect_const"], facts.REPO)
    ctx.floor("TV", 400)


PARAM_SHAPES = [
    # name, item payload type (items are `&PAY`), closure parameter pattern, a u8 expression over its bindings
    ("ident", "u8", "x", "*x"), ("wild", "u8", "_", "0"), ("deref", "u8", "&x", "x"), ("deref-mut", "u8", "&(mut x)", "{ x += 1; x }"),
    ("tuple", "(u8, u8)", "&(a, b)", "a + b"), ("struct", "P", "&P { a, .. }", "a"), ("tuple-struct", "W", "&W(a, b)", "a + b"),
    ("ref-tuple", "(u8, u8)", "(a, b)", "*a + *b"),
]
PARAM_MACROS = [
    ("map", "pub fn f(s: &[PAY]) -> u8 { konst::iter::eval!(s, map(|PAT| EXPR), fold(0u8, |a, b| a + b)) }"),
    ("filter_map", "pub fn f(s: &[PAY]) -> u8 { konst::iter::eval!(s, filter_map(|PAT| Some(EXPR)), fold(0u8, |a, b| a + b)) }"),
    ("for_each", "pub fn f(s: &[PAY]) { konst::iter::eval!(s, for_each(|PAT| { let _ = EXPR; })) }"),
    ("any", "pub fn f(s: &[PAY]) -> bool { konst::iter::eval!(s, any(|PAT| EXPR > 1)) }"),
    ("all", "pub fn f(s: &[PAY]) -> bool { konst::iter::eval!(s, all(|PAT| EXPR > 1)) }"),
    ("position", "pub fn f(s: &[PAY]) -> Option<usize> { konst::iter::eval!(s, position(|PAT| EXPR > 1)) }"),
    ("rposition", "pub fn f(s: &[PAY]) -> Option<usize> { konst::iter::eval!(s, rposition(|PAT| EXPR > 1)) }"),
    ("find_map", "pub fn f(s: &[PAY]) -> Option<u8> { konst::iter::eval!(s, find_map(|PAT| Some(EXPR))) }"),
    ("fold", "pub fn f(s: &[PAY]) -> u8 { konst::iter::eval!(s, fold(0u8, |acc, PAT| acc + EXPR)) }"),
    ("rfold", "pub fn f(s: &[PAY]) -> u8 { konst::iter::eval!(s, rfold(0u8, |acc, PAT| acc + EXPR)) }"),
    ("for_each!", "pub fn f(s: &[PAY]) -> u8 { let mut t = 0u8; konst::iter::for_each!{PAT in s => { t += EXPR; }} t }"),
]


def param_programs(ctx):
    """ACC-PARAM: the closure-taking methods of the DSL accept the irrefutable parameter patterns a closure given to the std method
    may have (`|&x|`, `|&(mut x)|`, `|&(a, b)|`, `|&P { a, .. }|`, `|&W(a, b)|`, `|(a, b)|` through default binding modes, `_`): the
    macros re-parse the closure's tokens, and a parameter matcher narrower than a pattern rejects valid chains.  (The two-parameter
    closures of fold/rfold do not take a parenthesised pattern in second position on the pinned tree either; that shape is left out.)"""
    pre = "#![allow(unused)]\npub struct P { pub a: u8, pub b: u8 }\npub struct W(pub u8, pub u8);\n"
    progs = []
    for mname, tpl in PARAM_MACROS:
        for sname, pay, pat, expr in PARAM_SHAPES:
            if mname in ("fold", "rfold") and sname == "ref-tuple":
                continue
            if ctx.tier == "quick" and sname in ("wild", "tuple-struct", "deref-mut") and mname not in ("map", "for_each!"):
                continue
            progs.append(("%s/%s" % (mname, sname), pre + tpl.replace("PAY", pay).replace("PAT", pat).replace("EXPR", expr) + "\n"))
    res_ = facts.compile_many(progs, ctx.th)
    for (n, src), r in zip(progs, res_):
        if not r["ok"]:
            ctx.violation("ACC-PARAM", n, "a valid chain is rejected: `%s`: %s" % (src.splitlines()[-1], "; ".join(e["message"][:120] for e in r["errors"][:2])),
                          detail={"program": src})
        ctx.instance("ACC-PARAM", n, sample={"program": src.splitlines()[-1], "accepted": r["ok"]})
    ctx.floor("ACC-PARAM", len(progs))


def tv(ctx):
    """the chain validation itself (rule TV): -> (chains, {(positional adapter, reverser): example chain}, samples)"""
    chains = enumerate_chains(ctx)
    CH = 60
    groups = [chains[i:i + CH] for i in range(0, len(chains), CH)]
    facts.rmeta("FULL", ctx.th)

    def build(gi):
        grp = groups[gi]
        src = PRELUDE
        meta = []
        for i, ch in enumerate(grp):
            s, pn, st = source_of(ch, i, 10 * i)
            src += s
            meta.append((ch, i, pn, st, 10 * i))
        return gi, src, meta
    built = [build(i) for i in range(len(groups))]

    def compile_(item):
        gi, src, meta = item
        f, diag, rc = facts.witness_facts(W, src, "FULL", ctx.th)
        return gi, f, diag
    with ThreadPoolExecutor(max_workers=8) as ex:
        compiled = {gi: (f, diag) for gi, f, diag in ex.map(compile_, built)}
    base = ctx.program("FULL")
    n_ok = 0
    dir_seen = {}
    samples = []
    for gi, src, meta in built:
        f, diag = compiled[gi]
        if f is None:
            # find the offending chain(s) individually
            for ch, i, pn, st, K in meta:
                s1, _, _ = source_of(ch, 0, 0)
                f1, d1, _ = facts.witness_facts(W, PRELUDE + s1, "FULL", ctx.th)
                if f1 is None:
                    first = [l for l in d1.splitlines() if l.startswith("error")][:1]
                    ctx.violation("ACC", ch.name(), "the documented chain `%s` is rejected: %s" % (ch.name(), first[0] if first else d1[:200]), detail={"source": s1})
            continue
        prog = mir.Program("FULL")
        prog.bodies = base.bodies
        prog.by_key = dict(base.by_key)
        prog.promoted = dict(base.promoted)
        prog.adts = base.adts
        prog.raw_index = dict(base.raw_index)
        prog.add_crate(f)
        for ch, i, pn, st, K in meta:
            ok = (validate_nested if ch.flat_at() is not None else validate)(ctx, prog, ch, i, pn, st, K)
            n_ok += ok
            ctx.instance("TV", ch.name(), sample={"chain": ch.name()} if len(samples) < 0 else None)
            if len(samples) < 8 and ok:
                samples.append({"chain": "eval!(s, %s)" % ch.name(), "paths_matched": True})
            if not std_rejects(ch):
                for a, r in direction_findings(ch):
                    dir_seen.setdefault((a, r), ch.name())
    return chains, dir_seen, samples
