"""C04 — pattern search finds the same first / last occurrence as std.

E13 (restart-completeness lint): a single-pass matcher whose haystack cursor never
rewinds and whose "still to match" slice is reset on a mismatch to the needle (or
the needle minus one element) forgets every border longer than one byte, so it
cannot report the lowest/highest offset for needles like "aab" in "aaab".
SCAN (scan-completeness): a candidate-offset search is complete when the
candidate starts at the extreme offset, moves by exactly one, the only exits are
"prefix test hit -> Some(candidate)" and "candidates exhausted -> None", and the
hit test is the C05 prefix test on the haystack sliced at the candidate.
DLG: wrappers, derived operations (contains, skip/keep, split_once), pattern
normalisation tables.
"""
from .. import sym, table
from ..sym import show
from ..table import Row, lt, le, eq, ne, Int
from .c05 import single_call, _is_norm_pattern, _result_map, tail, head, _cmp, CHAR_OPAQUE

M = "konst::slice::slice_const_methods::"
S = "konst::string::"
FAMILY = ["__bytes_find", "__bytes_rfind", "__bytes_find_skip", "__bytes_find_keep", "__bytes_rfind_skip", "__bytes_rfind_keep"]


def run(ctx):
    ctx.explanation = ("restart-completeness lint and scan-completeness iteration tables on the six matchers, delegation rows for "
                       "the 16 wrappers and derived operations, split_once tables, pattern-normalisation tables")
    for cfg in (["FULL"] if ctx.tier == "quick" else ["FULL", "MIN"]):
        prog = ctx.program(cfg)
        matchers(ctx, prog)
        derived(ctx, prog)
        wrappers(ctx, prog)
        split_once(ctx, prog)
    ctx.floor("E13", 6)
    ctx.floor("SCAN", 2)
    ctx.floor("DLG-DERIVED", 4)
    ctx.floor("DLG", 16)
    ctx.floor("TAB-SPLITONCE", 2)


def _is_tail(v, L):
    return v in (tail(L, "front"), tail(L, "back"))


def restart_lint(b, prog):
    """-> description of the flagged construct, or None"""
    needles = [("p", i) for i in range(1, b.arg_count + 1)]
    for h in b.loops():
        paths = [p for p in sym.loop_relation(b, h, prog) if p.kind == "cut" and p.value == h]
        if not paths:
            continue
        locals_ = set()
        for p in paths:
            locals_ |= set(p.env)
        for m in locals_:
            Lm = ("L", m)
            progress = [p for p in paths if _is_tail(p.env.get(m, Lm), Lm)]
            restart = [p for p in paths if p.env.get(m) in needles or any(_is_tail(p.env.get(m, Lm), n) for n in needles)]
            if not progress or not restart:
                continue
            # haystack cursor: every back path advances some cursor monotonically and none rewinds
            rewinds = False
            for p in paths:
                for l, v in p.env.items():
                    if l == m:
                        continue
                    Ll = ("L", l)
                    if v[0] == "bin" and v[1] in ("Sub", "Add") and v[2] == Ll and v[3] != sym.I(1):
                        rewinds = True
            if not rewinds:
                n = [x for x in needles if any(p.env.get(m) == x or _is_tail(p.env.get(m, Lm), x) for p in restart)]
                return ("loop at bb%d: on a mismatch the remaining pattern `%s` is reset to %s (or that minus one byte) while the "
                        "haystack cursor keeps moving forward" % (h, b.local_name(m) or "_%d" % m, show(n[0]) if n else "the needle"))
    return None


def matchers(ctx, prog):
    for name in FAMILY:
        b = ctx.anchor(prog, M + name)
        if b is None:
            continue
        r = restart_lint(b, prog) if b.loops() else None
        if r:
            ctx.violation("E13", "%s|%s" % (prog.config, name),
                          "%s is a single-pass matcher with a two-state restart: %s. It misses occurrences whose prefix overlaps a "
                          "failed partial match (find(\"aaab\", \"aab\") = None, std Some(1))" % (name, r), b.file())
        ctx.instance("E13", "%s|%s" % (prog.config, name), sample={"fn": name, "flagged": bool(r), "loops": len(b.loops())})
    for name, direction in (("__bytes_find", "fwd"), ("__bytes_rfind", "rev")):
        b = prog.get(M + name)
        if b is None or not b.loops() or restart_lint(b, prog):
            continue
        scan_table(ctx, prog, b, name, direction)


def scan_table(ctx, prog, b, name, direction):
    """candidate-offset scan: counter I, hit test = starts_with(slice_from(left, I), pattern)"""
    H, P = ("p", 1), ("p", 2)
    try:
        paths = sym.through_loops(b, prog, keep_back=True, inline={M + "__bytes_start_with", M + "__bytes_end_with"},
                                  opaque={M + "__bytes_strip_prefix", M + "__bytes_strip_suffix"})
    except sym.TooManyPaths:
        return
    counters = set()
    for p in paths:
        if p.kind == "back":
            for l, v in p.env.items():
                if v[0] == "bin" and v[1] in ("Add", "Sub") and v[2] == ("L", l) and v[3] == sym.I(1):
                    counters.add((l, v[1]))
    if len(counters) != 1:
        return
    (il, op), = counters
    I = ("L", il)
    want_op = "Add" if direction == "fwd" else "Sub"
    key = "%s|%s" % (prog.config, name)
    if op != want_op:
        ctx.violation("SCAN", key + "|step", "%s moves its candidate offset by %s 1, expected %s" % (name, op, want_op), b.file())
    LH, LP = ("len", H), ("len", P)
    last = ("bin", "Sub", LH, LP)
    hit = ("call", M + "__bytes_strip_prefix", None, ("call", "konst_kernel::slice::slice_from", None, H, I), P)
    # initial candidate
    for p in paths:
        for e in p.events:
            if e[0] == "loop":
                init = dict(e[2]).get(il)
                want = sym.I(0) if direction == "fwd" else last
                if init != want:
                    ctx.violation("SCAN", key + "|init", "%s starts scanning at offset %s, expected %s" % (
                        name, show(init) if init else "?", show(want)), b.file())

    def some_i(path, case):
        return None if path.value == table.Some(I) else "a hit must return Some(candidate offset), got %s" % show(path.value)

    def none(path, case):
        return None if path.value == table.NONE else "expected None, got %s" % show(path.value)
    if direction == "fwd":
        rows = [Row([lt(LH, LP)], none, name="pattern longer than haystack"),
                Row([le(LP, LH), le(I, last), ("is", hit, 1)], some_i, name="candidate matches"),
                Row([le(LP, LH), lt(I, last), ("is", hit, 0)], None, kind="back", name="candidate fails: next offset"),
                Row([le(LP, LH), eq(I, last), ("is", hit, 0)], None, kind="any", name="last candidate fails"),
                Row([le(LP, LH), lt(last, I)], none, name="candidates exhausted")]
    else:
        rows = [Row([lt(LH, LP)], none, name="pattern longer than haystack"),
                Row([le(LP, LH), ("is", hit, 1)], some_i, name="candidate matches"),
                Row([le(LP, LH), lt(Int(0), I), ("is", hit, 0)], None, kind="back", name="candidate fails: previous offset"),
                Row([le(LP, LH), eq(I, Int(0)), ("is", hit, 0)], none, name="candidates exhausted")]
    # SCAN-EMPTY: an empty pattern matches at the first candidate (fwd: 0, rev: len).  The hit test is C05's strip_prefix, whose
    # table says an empty pattern always matches, so the cases "empty pattern, candidate fails" do not exist; in the remaining
    # empty-pattern cases a path may also return that answer directly (an explicit early exit) instead of via the scan rows.
    first = Int(0) if direction == "fwd" else LH

    def empty_hits(case):
        try:
            return not (case.val(LP) == case.val(Int(0)) and case.variants.get(hit) == 0)
        except KeyError:
            return True

    def or_empty(f):
        if f is None:
            return None

        def g(path, case):
            try:
                empty = case.val(LP) == case.val(Int(0))
            except KeyError:
                empty = False
            if empty and path.kind == "return" and path.value[:2] == table.Some(first)[:2] and _n0(path.value[2], LP) == first:
                return None
            return f(path, case)
        return g
    if direction == "fwd":
        for r in rows:
            r.outcome = or_empty(r.outcome)
        cons = [empty_hits]
    else:
        # the property speaks of non-empty patterns in reverse search (the repository's own tests pin bytes_rfind(x, b"") to
        # Some(len - 1), which is not std's Some(len)): empty-pattern cases and the explicit early exit are outside the table
        paths = [p for p in paths if not _empty_pattern_path(p, LP)]
        cons = [ne(LP, Int(0))]
    try:
        mism, n, dec = table.compare(paths, rows, variant_domain={hit: [0, 1]}, constraints=cons)
    except table.Undecided as e:
        ctx.violation("SCAN", key, "undecided: %s" % e, b.file())
        return
    ctx.instance("SCAN", key, nontrivial=dec >= 2, sample={"fn": name, "direction": direction, "cases": n, "decided": dec})
    for m in mism[:3]:
        ctx.violation("SCAN", key + "|" + m.row.name, "%s is not a complete scan: %s" % (name, m), b.file())
    if direction == "fwd":
        ctx.instance("SCAN-EMPTY", key, sample={"fn": name, "first_candidate": show(first),
                                                "explicit_empty_paths": sum(1 for p in paths if _empty_pattern_path(p, LP))})


def _n0(t, LP):
    """t with `len(pattern)` = 0"""
    if t == LP:
        return Int(0)
    if isinstance(t, tuple):
        t = tuple(_n0(x, LP) if isinstance(x, tuple) else x for x in t)
        if t[0] == "bin" and t[1] in ("Sub", "Add") and t[3] == Int(0):
            return t[2]
    return t


def _empty_pattern_path(p, LP):
    return any(c == eq(LP, Int(0)) for c in p.conds)


def derived(ctx, prog):
    """skip/keep: compositions of find/rfind with slice_from/slice_up_to at pos / pos+|needle|"""
    H, P = ("p", 1), ("p", 2)
    LP = ("len", P)
    spec = {"__bytes_find_skip": ("__bytes_find", "konst_kernel::slice::slice_from", "end"),
            "__bytes_find_keep": ("__bytes_find", "konst_kernel::slice::slice_from", "pos"),
            "__bytes_rfind_skip": ("__bytes_rfind", "konst_kernel::slice::slice_up_to", "pos"),
            "__bytes_rfind_keep": ("__bytes_rfind", "konst_kernel::slice::slice_up_to", "end")}
    for name, (finder, cutter, at) in spec.items():
        b = ctx.anchor(prog, M + name)
        if b is None:
            continue
        key = "%s|%s" % (prog.config, name)
        if b.loops():
            # still a hand-written matcher: E13 decides (or leaves it undecided)
            ctx.instance("DLG-DERIVED", key, nontrivial=False, sample={"fn": name, "shape": "own loop"})
            continue
        paths = sym.paths_of(b, prog, opaque={M + finder})
        f = ("call", M + finder, None, H, P)
        pos = ("vfield", f, 1, 0)
        where = pos if at == "pos" else ("bin", "Add", pos, LP)

        def found(path, case, cutter=cutter, where=where):
            want = table.Some(("call", cutter, None, H, where))
            alt = table.Some(("call", cutter, None, H, ("bin", "Add", LP, pos))) if where[0] == "bin" else None
            v = table.strip_gargs(path.value)
            return None if v in (want, alt) else "expected %s, got %s" % (show(want), show(v))

        def none(path, case):
            return None if path.value == table.NONE else "expected None, got %s" % show(path.value)

        def whole(path, case):
            return None if path.value == table.Some(H) else "an empty needle must return Some(input), got %s" % show(path.value)
        rows = [Row([eq(LP, Int(0))], whole, name="empty needle"),
                Row([ne(LP, Int(0)), ("is", f, 1)], found, name="found"),
                Row([ne(LP, Int(0)), ("is", f, 0)], none, name="not found")]
        _cmp(ctx, "DLG-DERIVED", prog, name, b, paths, rows, variant_domain={f: [0, 1]})


def wrappers(ctx, prog):
    rows = []
    for n in ("find", "rfind"):
        rows.append((M + "bytes_" + n, M + "__bytes_" + n, "same"))
        rows.append((S + n, M + "__bytes_" + n, "same"))
    for n, f in (("contain", "find"), ("rcontain", "rfind")):
        rows.append((M + "bytes_" + n, M + "__bytes_" + f, "is_some"))
        rows.append((S + n + "s", M + "__bytes_" + f, "is_some"))
    for n in ("find_skip", "find_keep", "rfind_skip", "rfind_keep"):
        rows.append((M + "bytes_" + n, M + "__bytes_" + n, "same"))
        rows.append((S + n, M + "__bytes_" + n, "opt_str"))
    # the loop-free `__bytes_contain`/`__bytes_rcontain` helpers are looked into; a wrapper may reach the matcher `__bytes_X` directly
    # or through the public generic `bytes_X` (whose own row shows it is `__bytes_X`; `__bytes_rcontain` re-enters it with P = [u8])
    opaque = {M + x for x in FAMILY if x not in ("__bytes_contain", "__bytes_rcontain")} | {"konst_kernel::string::__from_u8_subslice_of_str"} | CHAR_OPAQUE
    opaque |= {M + "bytes_find", M + "bytes_rfind"}
    for fn, callee, kind in rows:
        b = ctx.anchor(prog, fn)
        if b is None:
            continue
        short = fn.replace("konst::", "")
        try:
            paths = sym.split_bool_returns(sym.paths_of(b, prog, inline_all_loopfree=True, opaque=opaque - {fn}))
        except sym.TooManyPaths:
            ctx.violation("DLG", "%s|%s" % (prog.config, short), "too many paths", b.file())
            continue
        a0 = ("as_bytes", ("p", 1)) if fn.startswith(S) else ("p", 1)
        msg = None
        n = 0
        for path in paths:
            if path.kind != "return":
                continue
            n += 1
            final = [c for c in single_call([path]) if c[1] in (callee, callee.replace("__bytes_", "bytes_"))]
            if not final and _too_long_exit(path, a0, kind):
                continue          # a pattern longer than the haystack cannot occur (SCAN row "pattern longer than haystack"): "not found" without searching
            if len(final) != 1:
                msg = "expected exactly one call to %s on every path" % callee.split("::")[-1]
                break
            c = final[0]
            if c[3] != a0:
                msg = "haystack argument is %s, expected the first argument" % show(c[3])
            elif not _is_norm_pattern(c[4], 2):
                msg = "pattern argument is %s, expected the normalised second argument" % show(c[4])
            else:
                msg = _result_map([path], c, kind)
            if msg:
                break
        if n == 0:
            msg = "no returning path"
        if msg:
            ctx.violation("DLG", "%s|%s" % (prog.config, short), "%s: %s" % (fn, msg), b.file())
        ctx.instance("DLG", "%s|%s" % (prog.config, short), sample={"fn": short, "delegates_to": callee.split("::")[-1], "result": kind})


def _too_long_exit(path, a0, kind):
    """the path answers "not found" under the condition len(haystack) < len(normalised pattern)"""
    v = table.strip_gargs(path.value)
    nothing = ("bool", False) if kind == "is_some" else table.NONE
    if v != nothing:
        return False
    for c in path.conds:
        c = table.norm_atom(table.strip_gargs(c))
        hay = {("len", a0), ("len", a0[1])} if a0[0] == "as_bytes" else {("len", a0)}      # len(s.as_bytes()) is len(s)
        if c[0] == "lt" and c[1] in hay and c[2][0] == "len" and (_is_norm_pattern(c[2][1], 2) or _is_norm_pattern(("as_bytes", c[2][1]), 2)):
            return True
    return False


def split_once(ctx, prog):
    H = ("p", 1)
    for name, finder, empty_at in (("split_once", "find", Int(0)), ("rsplit_once", "rfind", ("len", H))):
        b = ctx.anchor(prog, "konst::string::split_once::" + name)
        if b is None:
            continue
        paths = sym.paths_of(b, prog, inline_all_loopfree=True, opaque={
            S + "find", S + "rfind", S + "split_at", "konst_kernel::string::str_up_to", "konst_kernel::string::str_from",
            "konst::string::pattern::PatternNorm::as_str", "konst::string::pattern::PatternNorm::new"})
        # per pattern kind the delimiter is `as_str(PatternNorm::new(p2))`
        D = ("call", "konst::string::pattern::PatternNorm::as_str", None, ("ref", ("call", "konst::string::pattern::PatternNorm::new", None, ("p", 2))))
        LD = ("len", D)
        f = ("call", S + finder, None, H, D)
        pos = ("vfield", f, 1, 0)

        def empty(path, case, empty_at=empty_at):
            want = table.Some(("call", S + "split_at", None, H, empty_at))
            v = table.strip_gargs(path.value)
            return None if v == want else "empty delimiter: expected %s, got %s" % (show(want), show(v))

        def found(path, case):
            v = table.strip_gargs(path.value)
            ok = [table.Some(table.Tuple(("call", "konst_kernel::string::str_up_to", None, H, pos),
                                         ("call", "konst_kernel::string::str_from", None, H, ("bin", "Add", a, c))))
                  for a, c in ((pos, LD), (LD, pos))]
            return None if v in ok else "expected Some((str_up_to(s,pos), str_from(s,pos+len(delim)))), got %s" % show(v)

        def none(path, case):
            return None if path.value == table.NONE else "expected None, got %s" % show(path.value)
        rows = [Row([eq(LD, Int(0))], empty, name="empty delimiter"),
                Row([ne(LD, Int(0)), ("is", f, 1)], found, name="found"),
                Row([ne(LD, Int(0)), ("is", f, 0)], none, name="not found")]
        _cmp(ctx, "TAB-SPLITONCE", prog, name, b, paths, rows, variant_domain={f: [0, 1]})
