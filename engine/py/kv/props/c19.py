"""C19 — Option/Result, rebind and min/max macros equal their std / `?` counterparts.

TAB-MACRO  every option::/result:: macro form (closure and function-path argument), try_!, try_opt!,
           unwrap_ctx! is expanded in a witness crate whose closures are opaque marker calls; the MIR decision
           table (variant -> value term) and the *set of marker calls made on each path* (laziness: a
           fallback is called exactly when std would call it) are compared with the std method's definition.
TAB-MINMAX which operand min!/max!/_by/_by_key return under Less/Equal/Greater (ties: first for min, second
           for max).
ACC-REBIND try_rebind!/rebind_if_ok! are accepted for arities 1..6 with place / let / typed let / `_`
           positions and component i flows to position i (DEP).
LINT       no `$name:frag` inside a macro transcriber of the anchored macro files.
"""
from .. import facts, macrolint, mir, sym, table
from ..sym import show
from ..table import Row, lt, le, eq

W = "w19::"


def c(name, *a):
    return ("call", W + name, None) + a


SOME = ("vfield", ("p", 1), 1, 0)
OKP = ("vfield", ("p", 1), 0, 0)
ERRP = ("vfield", ("p", 1), 1, 0)
NONE = table.NONE

PRELUDE = '''
#![allow(unused, unreachable_code, clippy::all)]
pub struct E(pub u8);
impl E { #[inline(never)] pub fn panic(&self) -> ! { loop {} } }
pub struct F(pub u8);
#[inline(never)] pub fn fb() -> u8 { loop {} }
#[inline(never)] pub fn fbo() -> Option<u8> { loop {} }
#[inline(never)] pub fn fe() -> E { loop {} }
#[inline(never)] pub fn m0(x: u8) -> u16 { loop {} }
#[inline(never)] pub fn mo(x: u8) -> Option<u16> { loop {} }
#[inline(never)] pub fn pr(x: &u8) -> bool { loop {} }
#[inline(never)] pub fn me(x: E) -> F { loop {} }
#[inline(never)] pub fn mr(x: u8) -> Result<u16, E> { loop {} }
#[inline(never)] pub fn er(x: E) -> Result<u8, F> { loop {} }
#[inline(never)] pub fn e8(x: E) -> u8 { loop {} }
#[inline(never)] pub fn u2e(x: u8) -> E { loop {} }
pub struct K(pub u8);
#[inline(never)] pub fn key(x: &K) -> u8 { loop {} }
#[inline(never)] pub fn cmpk(l: &K, r: &K) -> core::cmp::Ordering { loop {} }
'''

# name -> (body, {variant: (kind, value, [marker calls])})   variant index of p1 (Option: 0 None / 1 Some; Result: 0 Ok / 1 Err)
SPECS = {}


def opt(name, sig, body, none, some):
    SPECS[name] = ("pub fn %s(o: %s) -> %s { %s }" % (name, sig[0], sig[1], body), {0: none, 1: some})


def res(name, sig, body, ok, err):
    SPECS[name] = ("pub fn %s(r: %s) -> %s { %s }" % (name, sig[0], sig[1], body), {0: ok, 1: err})


O8 = "Option<u8>"
R8 = "Result<u8, E>"
ret = lambda v, ev=(): ("return", v, list(ev))

opt("o_unwrap", (O8, "u8"), "konst::option::unwrap!(o)", ("panic", None, []), ret(SOME))
opt("o_unwrap_or", (O8, "u8"), "konst::option::unwrap_or!(o, fb())", ret(c("fb"), ["fb"]), ret(SOME, ["fb"]))
opt("o_unwrap_or_else_c", (O8, "u8"), "konst::option::unwrap_or_else!(o, || fb())", ret(c("fb"), ["fb"]), ret(SOME))
opt("o_unwrap_or_else_p", (O8, "u8"), "konst::option::unwrap_or_else!(o, fb)", ret(c("fb"), ["fb"]), ret(SOME))
opt("o_ok_or", (O8, "Result<u8, E>"), "konst::option::ok_or!(o, fe())", ret(table.Err(c("fe")), ["fe"]), ret(table.Ok(SOME), ["fe"]))
opt("o_ok_or_else_c", (O8, "Result<u8, E>"), "konst::option::ok_or_else!(o, || fe())", ret(table.Err(c("fe")), ["fe"]), ret(table.Ok(SOME)))
opt("o_ok_or_else_p", (O8, "Result<u8, E>"), "konst::option::ok_or_else!(o, fe)", ret(table.Err(c("fe")), ["fe"]), ret(table.Ok(SOME)))
opt("o_map_c", (O8, "Option<u16>"), "konst::option::map!(o, |x| m0(x))", ret(NONE), ret(table.Some(c("m0", SOME)), ["m0"]))
opt("o_map_p", (O8, "Option<u16>"), "konst::option::map!(o, m0)", ret(NONE), ret(table.Some(c("m0", SOME)), ["m0"]))
opt("o_and_then_c", (O8, "Option<u16>"), "konst::option::and_then!(o, |x| mo(x))", ret(NONE), ret(c("mo", SOME), ["mo"]))
opt("o_and_then_p", (O8, "Option<u16>"), "konst::option::and_then!(o, mo)", ret(NONE), ret(c("mo", SOME), ["mo"]))
opt("o_or_else_c", (O8, O8), "konst::option::or_else!(o, || fbo())", ret(c("fbo"), ["fbo"]), ret(table.Some(SOME)))
opt("o_or_else_p", (O8, O8), "konst::option::or_else!(o, fbo)", ret(c("fbo"), ["fbo"]), ret(table.Some(SOME)))
opt("o_flatten", ("Option<Option<u8>>", O8), "konst::option::flatten!(o)", ret(NONE), ret(SOME))
opt("o_copied", ("Option<&u8>", O8), "konst::option::copied(o)", ret(NONE), ret(table.Some(("deref", SOME))))
opt("o_try_opt", (O8, "Option<u16>"), "let x = konst::try_opt!(o); Some(m0(x))", ret(NONE), ret(table.Some(c("m0", SOME)), ["m0"]))
res("r_unwrap_ctx", (R8, "u8"), "konst::result::unwrap_ctx!(r)", ret(OKP), ("panic", None, []))
res("r_unwrap_or", (R8, "u8"), "konst::result::unwrap_or!(r, fb())", ret(OKP, ["fb"]), ret(c("fb"), ["fb"]))
res("r_unwrap_or_else_c", (R8, "u8"), "konst::result::unwrap_or_else!(r, |e| e8(e))", ret(OKP), ret(c("e8", ERRP), ["e8"]))
res("r_unwrap_or_else_p", (R8, "u8"), "konst::result::unwrap_or_else!(r, e8)", ret(OKP), ret(c("e8", ERRP), ["e8"]))
res("r_unwrap_err_or_else_c", (R8, "E"), "konst::result::unwrap_err_or_else!(r, |x| u2e(x))", ret(c("u2e", OKP), ["u2e"]), ret(ERRP))
res("r_unwrap_err_or_else_p", (R8, "E"), "konst::result::unwrap_err_or_else!(r, u2e)", ret(c("u2e", OKP), ["u2e"]), ret(ERRP))
res("r_ok", (R8, O8), "konst::result::ok!(r)", ret(table.Some(OKP)), ret(NONE))
res("r_err", (R8, "Option<E>"), "konst::result::err!(r)", ret(NONE), ret(table.Some(ERRP)))
res("r_map_c", (R8, "Result<u16, E>"), "konst::result::map!(r, |x| m0(x))", ret(table.Ok(c("m0", OKP)), ["m0"]), ret(table.Err(ERRP)))
res("r_map_p", (R8, "Result<u16, E>"), "konst::result::map!(r, m0)", ret(table.Ok(c("m0", OKP)), ["m0"]), ret(table.Err(ERRP)))
res("r_map_err_c", (R8, "Result<u8, F>"), "konst::result::map_err!(r, |e| me(e))", ret(table.Ok(OKP)), ret(table.Err(c("me", ERRP)), ["me"]))
res("r_map_err_p", (R8, "Result<u8, F>"), "konst::result::map_err!(r, me)", ret(table.Ok(OKP)), ret(table.Err(c("me", ERRP)), ["me"]))
res("r_and_then_c", (R8, "Result<u16, E>"), "konst::result::and_then!(r, |x| mr(x))", ret(c("mr", OKP), ["mr"]), ret(table.Err(ERRP)))
res("r_and_then_p", (R8, "Result<u16, E>"), "konst::result::and_then!(r, mr)", ret(c("mr", OKP), ["mr"]), ret(table.Err(ERRP)))
res("r_or_else_c", (R8, "Result<u8, F>"), "konst::result::or_else!(r, |e| er(e))", ret(table.Ok(OKP)), ret(c("er", ERRP), ["er"]))
res("r_or_else_p", (R8, "Result<u8, F>"), "konst::result::or_else!(r, er)", ret(table.Ok(OKP)), ret(c("er", ERRP), ["er"]))
res("r_try", (R8, "Result<u16, E>"), "let x = konst::try_!(r); Ok(m0(x))", ret(table.Ok(c("m0", OKP)), ["m0"]), ret(table.Err(ERRP)))
res("r_try_map_err", (R8, "Result<u16, F>"), "let x = konst::try_!(r, map_err = |e| me(e)); Ok(m0(x))", ret(table.Ok(c("m0", OKP)), ["m0"]), ret(table.Err(c("me", ERRP)), ["me"]))

FILTER = {
    "o_filter_c": "pub fn o_filter_c(o: Option<u8>) -> Option<u8> { konst::option::filter!(o, |x| pr(x)) }",
    "o_filter_p": "pub fn o_filter_p(o: Option<u8>) -> Option<u8> { konst::option::filter!(o, pr) }",
}

MINMAX = {
    # name: (source, kind, which operand under (Less, Equal, Greater))
    "mm_min": ("pub fn mm_min(a: u8, b: u8) -> u8 { konst::min!(a, b) }", "val", (1, 1, 2)),
    "mm_max": ("pub fn mm_max(a: u8, b: u8) -> u8 { konst::max!(a, b) }", "val", (2, 2, 1)),
    "mm_min_by": ("pub fn mm_min_by(a: K, b: K) -> K { konst::min_by!(a, b, |l, r| cmpk(l, r)) }", "by", (1, 1, 2)),
    "mm_max_by": ("pub fn mm_max_by(a: K, b: K) -> K { konst::max_by!(a, b, |l, r| cmpk(l, r)) }", "by", (2, 2, 1)),
    "mm_min_by_key": ("pub fn mm_min_by_key(a: K, b: K) -> K { konst::min_by_key!(a, b, |x| key(x)) }", "key", (1, 1, 2)),
    "mm_max_by_key": ("pub fn mm_max_by_key(a: K, b: K) -> K { konst::max_by_key!(a, b, |x| key(x)) }", "key", (2, 2, 1)),
}


def witness_program(ctx, name, src, cfg="FULL"):
    f, diag, rc = facts.witness_facts(name, src, cfg, ctx.th)
    if f is None:
        return None, diag
    prog = mir.Program(cfg)
    base = ctx.program(cfg)
    prog.bodies = list(base.bodies)
    prog.by_key = {k: list(v) for k, v in base.by_key.items()}
    prog.promoted = dict(base.promoted)
    prog.adts = dict(base.adts)
    prog.raw_index = dict(base.raw_index)
    prog.add_crate(f)
    return prog, diag


def run(ctx):
    ctx.explanation = ("witness crate expanding every macro form with opaque marker closures; MIR decision tables and per-path marker "
                       "call sets vs the std method definitions; min/max operand tables; rebind accept programs for arities 1..6 "
                       "with component provenance; token lint on the macro definitions")
    lint(ctx)
    tables(ctx)
    minmax(ctx)
    rebind(ctx)
    rebind_order(ctx)
    inference_programs(ctx)
    noncopy_programs(ctx)
    param_programs(ctx)
    from .. import macrolint, facts as _facts
    macrolint.hygiene_rule(ctx, ["opt_unwrap", "opt_unwrap_or", "opt_unwrap_or_else", "opt_ok_or", "opt_ok_or_else", "opt_map", "opt_and_then",
                                 "opt_or_else", "opt_flatten", "opt_filter", "res_unwrap_or", "res_unwrap_or_else", "res_unwrap_err_or_else",
                                 "res_ok", "res_err", "res_map", "res_map_err", "res_and_then", "res_or_else", "try_", "try_opt", "try_rebind",
                                 "rebind_if_ok", "min", "max", "min_by", "max_by", "min_by_key", "max_by_key", "unwrap_ctx"], _facts.REPO)
    ctx.floor("HYGIENE", 30)
    ctx.floor("TAB-MACRO", 34)
    ctx.floor("TAB-MINMAX", 12)
    ctx.floor("ACC-REBIND", 12)
    ctx.floor("LINT", 8)


INFER_PROGS = [
    ("min!/typed,untyped", "pub const M: u32 = konst::min!(3u32, 5);"),
    ("max!/typed,untyped", "pub const M: i64 = konst::max!(3i64, 5);"),
    ("max!/str", "pub const M: &str = konst::max!(\"world\", \"hello\");"),
    ("min_by!/untyped", "pub const M: u32 = konst::min_by!(3u32, 10, |&l, &r| konst::const_cmp!(l, r / 4));"),
    ("max_by_key!/untyped", "pub const M: u32 = konst::max_by_key!(3u32, 10, |x| *x % 4);"),
    # operands that borrow from a temporary created in the operand expression itself: std's functions take them as arguments, which
    # keeps the temporaries alive to the end of the caller's statement - a macro that binds its operands with `let` does not
    ("min!/temporaries", "pub fn f(a: &str, b: &str) -> usize { konst::min!(a.to_uppercase().as_str(), b.to_lowercase().as_str()).len() }"),
    ("max!/temporaries", "pub fn f(a: &str, b: &str) -> usize { konst::max!(a.to_uppercase().as_str(), b.to_lowercase().as_str()).len() }"),
    ("min_by!/temporaries", "pub fn f(a: &str, b: &str) -> usize { konst::min_by!(a.to_uppercase().as_str(), b.to_lowercase().as_str(), |l, r| konst::const_cmp!(l.len(), r.len())).len() }"),
    ("max_by_key!/temporaries", "pub fn f(a: &str, b: &str) -> usize { konst::max_by_key!(a.to_uppercase().as_str(), b.to_lowercase().as_str(), |x| x.len()).len() }"),
    ("option::unwrap_or!/temporaries", "pub fn f(a: Option<&str>, b: &str) -> usize { konst::option::unwrap_or!(a, b.to_lowercase().as_str()).len() }"),
    ("result::unwrap_or!/temporaries", "pub fn f(a: Result<&str, ()>, b: &str) -> usize { konst::result::unwrap_or!(a, b.to_lowercase().as_str()).len() }"),
    ("option::map!/temporaries", "pub fn f(b: &str) -> Option<usize> { konst::option::map!(Some(b.to_lowercase().as_str()), |s| s.len()) }"),
    # a fallback that only *coerces* to the payload type (array reference to slice, fn item to fn pointer, reference to trait
    # object): `opt.unwrap_or(fallback)` coerces its argument, so the macro must leave a coercion site for it
    ("option::unwrap_or!/unsize", "pub fn f(o: Option<&'static [u8]>) -> &'static [u8] { konst::option::unwrap_or!(o, &[1u8, 2, 3]) }"),
    ("result::unwrap_or!/unsize", "pub fn f(r: Result<&'static [u8], ()>) -> &'static [u8] { konst::result::unwrap_or!(r, &[1u8, 2, 3]) }"),
    ("option::unwrap_or!/fn pointer", "pub fn id(x: u8) -> u8 { x }\npub fn f(o: Option<fn(u8) -> u8>) -> fn(u8) -> u8 { konst::option::unwrap_or!(o, id) }"),
    ("option::unwrap_or!/dyn", "pub fn f(o: Option<&'static dyn core::fmt::Debug>) -> &'static dyn core::fmt::Debug { konst::option::unwrap_or!(o, &5u8) }"),
    ("option::unwrap_or_else!/unsize", "pub fn f(o: Option<&'static [u8]>) -> &'static [u8] { konst::option::unwrap_or_else!(o, || &[1u8, 2, 3]) }"),
    ("result::unwrap_or_else!/unsize", "pub fn f(r: Result<&'static [u8], ()>) -> &'static [u8] { konst::result::unwrap_or_else!(r, |_| &[1u8, 2, 3]) }"),
    ("unwrap_or!/untyped", "pub const M: u8 = konst::option::unwrap_or!(Some(3u8), 5);"),
    ("result::unwrap_or!/untyped", "pub const M: u8 = konst::result::unwrap_or!(Ok::<u8, ()>(3), 5);"),
]


def noncopy_programs(ctx):
    """ACC-NONCOPY: every option::/result:: macro form with the payload and error types replaced by types that are neither Copy nor
    Clone must still compile - the std methods they mirror move their payloads and have no such bound (the decision tables above run on
    `u8` payloads, for which a stray copy is invisible)"""
    import re as _re

    def nc(src):
        return _re.sub(r"\bu16\b", "NC16", _re.sub(r"\bu8\b", "NC8", src))
    pre = "#![allow(unused, unreachable_code)]\npub struct NC8(pub u32);\npub struct NC16(pub u64);\n" + nc(PRELUDE.replace("#![allow(unused, unreachable_code, clippy::all)]", ""))
    items = [(n, s_) for n, (s_, _) in SPECS.items() if n != "o_copied"] + list(FILTER.items())
    progs = [(n, pre + nc(s_) + "\n") for n, s_ in items]
    res_ = facts.compile_many(progs, ctx.th)
    for (n, src), r in zip(progs, res_):
        if not r["ok"]:
            ctx.violation("ACC-NONCOPY", n, "%s with a non-Copy payload no longer compiles (%s): the std method has no Copy/Clone bound" % (
                n, "; ".join("%s %s" % (e["code"], e["message"][:90]) for e in r["errors"][:2])), detail={"program": src.split("\n")[-2]})
        ctx.instance("ACC-NONCOPY", n, sample={"witness": n, "accepted": r["ok"]})
    ctx.floor("ACC-NONCOPY", len(progs))


def inference_programs(ctx):
    """(only the documented direction: the right operand's type may be inferred from the left one - `min!(3, 5u32)` is rejected
    by the pinned tree as well and is not part of the property)
    ACC-INFER: the documented call shapes in which one operand's type is inferred from the other (`min!(3u32, 5)`) must keep
    compiling - the macros route their operands through type-inference helpers, and a slip there rejects valid programs"""
    res = facts.compile_many([(n, "#![allow(unused)]\n" + src + "\n") for n, src in INFER_PROGS], ctx.th)
    for (n, src), r in zip(INFER_PROGS, res):
        if not r["ok"]:
            ctx.violation("ACC-INFER", n, "a valid program is rejected: `%s`: %s" % (src, "; ".join(e["message"][:120] for e in r["errors"][:2])), detail={"program": src})
        ctx.instance("ACC-INFER", n, sample={"program": src, "accepted": r["ok"]})
    ctx.floor("ACC-INFER", len(INFER_PROGS))


PARAM_SHAPES = [
    # name, payload type, closure parameter pattern, a u8 expression over its bindings
    ("ident", "u8", "x", "x"), ("wild", "u8", "_", "0"), ("mut", "u8", "mut x", "{ x += 1; x }"), ("ref", "u8", "ref x", "*x"),
    ("tuple", "(u8, u8)", "(a, b)", "a + b"), ("struct", "P", "P { a, .. }", "a"), ("tuple-struct", "W", "W(a, b)", "a + b"),
    ("deref", "&'static u8", "&x", "x"),
]
PARAM_MACROS = [
    ("option::map!", "pub fn f(o: Option<PAY>) -> Option<u8> { konst::option::map!(o, |PAT| EXPR) }"),
    ("option::and_then!", "pub fn f(o: Option<PAY>) -> Option<u8> { konst::option::and_then!(o, |PAT| Some(EXPR)) }"),
    ("result::map!", "pub fn f(r: Result<PAY, ()>) -> Result<u8, ()> { konst::result::map!(r, |PAT| EXPR) }"),
    ("result::and_then!", "pub fn f(r: Result<PAY, ()>) -> Result<u8, ()> { konst::result::and_then!(r, |PAT| Ok(EXPR)) }"),
    ("result::map_err!", "pub fn f(r: Result<(), PAY>) -> Result<(), u8> { konst::result::map_err!(r, |PAT| EXPR) }"),
    ("result::or_else!", "pub fn f(r: Result<u8, PAY>) -> Result<u8, ()> { konst::result::or_else!(r, |PAT| Ok(EXPR)) }"),
    ("result::unwrap_or_else!", "pub fn f(r: Result<u8, PAY>) -> u8 { konst::result::unwrap_or_else!(r, |PAT| EXPR) }"),
    ("result::unwrap_err_or_else!", "pub fn f(r: Result<PAY, u8>) -> u8 { konst::result::unwrap_err_or_else!(r, |PAT| EXPR) }"),
    ("try_!/map_err", "pub fn f(r: Result<u8, PAY>) -> Result<u8, u8> { let x = konst::try_!(r, map_err = |PAT| EXPR); Ok(x) }"),
]


def param_programs(ctx):
    """ACC-PARAM: the closure-taking forms accept every irrefutable parameter pattern a closure may have - the std methods they
    mirror take any closure (`o.map(|&x| ..)`, `|mut x|`, `|ref x|`, `|(a, b)|`, `|P { a, .. }|`, `|W(a, b)|`, `|_|`); the macros
    re-parse the closure's tokens, and a parameter matcher that is narrower than a pattern rejects valid programs"""
    pre = "#![allow(unused)]\npub struct P { pub a: u8, pub b: u8 }\npub struct W(pub u8, pub u8);\n"
    progs = []
    for mname, tpl in PARAM_MACROS:
        for sname, pay, pat, expr in PARAM_SHAPES:
            if ctx.tier == "quick" and sname in ("wild", "tuple-struct") and mname not in ("option::map!", "result::map!"):
                continue
            progs.append(("%s/%s" % (mname, sname), pre + tpl.replace("PAY", pay).replace("PAT", pat).replace("EXPR", expr) + "\n"))
    res_ = facts.compile_many(progs, ctx.th)
    for (n, src), r in zip(progs, res_):
        if not r["ok"]:
            ctx.violation("ACC-PARAM", n, "a valid program is rejected: `%s`: %s" % (src.splitlines()[-1], "; ".join(e["message"][:120] for e in r["errors"][:2])),
                          detail={"program": src})
        ctx.instance("ACC-PARAM", n, sample={"program": src.splitlines()[-1], "accepted": r["ok"]})
    ctx.floor("ACC-PARAM", len(progs))


def rebind_order(ctx):
    """components are assigned in order: with the same place listed at positions k and k+1 the place must end up holding
    component k+1 (for every adjacent pair of every arity 2..6, both macros)"""
    src = "#![allow(unused)]\npub struct E(pub u8);\n#[inline(never)] pub fn sink1(a: u8) { loop {} }\n"
    cases = []
    for macro in ("try_rebind", "rebind_if_ok"):
        for n in range(2, 7):
            for k in range(n - 1):
                pats = ["x" if j in (k, k + 1) else "v%d" % j for j in range(n)]
                decl = "let mut x: u8 = 0; " + " ".join("let mut v%d: u8 = 0;" % j for j in range(n) if j not in (k, k + 1))
                tup = "(" + ", ".join(["u8"] * n) + ")"
                name = "o_%s_%d_%d" % (macro, n, k)
                if macro == "try_rebind":
                    body = "%s konst::try_rebind!{(%s) = r} sink1(x); Ok(())" % (decl, ", ".join(pats))
                else:
                    body = "%s konst::rebind_if_ok!{(%s) = r => sink1(x); } Ok(())" % (decl, ", ".join(pats))
                src += "pub fn %s(r: Result<%s, E>) -> Result<(), E> { %s }\n" % (name, tup, body)
                cases.append((macro, n, k, name))
    prog, diag = witness_program(ctx, "w19o", src)
    if prog is None:
        ctx.violation("ORD-REBIND", "witness", "the rebind-order witness crate does not compile:\n%s" % diag[-2000:])
        return
    payload = ("vfield", ("p", 1), 0, 0)
    for macro, n, k, name in cases:
        key = "%s|arity%d|%d" % (macro, n, k)
        b = prog.get("w19o::" + name)
        if b is None:
            ctx.violation("ORD-REBIND", key, "witness %s missing" % name)
            continue
        seen = False
        for p in sym.paths_of(b, prog):
            if p.kind == "unreachable" or ("is", ("p", 1), 0) not in p.conds:
                continue
            evs = [e for e in p.events if e[0] == "call" and e[1].startswith("w19o::sink")]
            if len(evs) != 1:
                continue
            seen = True
            got = evs[0][2][3]
            want = ("field", payload, k + 1)
            if got != want:
                ctx.violation("ORD-REBIND", key, "%s! with %d components: the place listed at positions %d and %d ends up holding %s, expected component %d "
                              "(components must be assigned left to right, as a destructuring assignment does)" % (macro, n, k, k + 1, show(got), k + 1),
                              detail={"witness": name})
        if not seen:
            ctx.violation("ORD-REBIND", key + "|ok", "%s!: no Ok path reaches the code after the rebind" % macro)
        ctx.instance("ORD-REBIND", key, sample={"macro": macro, "arity": n, "pair": [k, k + 1]})
    ctx.floor("ORD-REBIND", 30)


def lint(ctx):
    files = ("konst/src/macros/parsing_macros.rs", "konst_kernel/src/macros/option_macros_.rs", "konst_kernel/src/macros/result_macros_.rs",
             "konst/src/macros/unwrapping.rs", "konst/src/macros/minmax_macros.rs")
    for d in macrolint.scan_repo(facts.REPO):
        if d.file not in files:
            continue
        for line, text in macrolint.frag_in_transcriber(d):
            ctx.violation("LINT", "%s|%s" % (d.name, text),
                          "macro %s has `%s` inside a transcriber: a fragment specifier is only valid in a matcher, so this arm "
                          "expands to invalid tokens (here: the tuple-field walker stops working after two components)" % (d.name, text),
                          "%s:%d" % (d.file, line))
        ctx.instance("LINT", d.name, sample={"macro": d.name, "file": d.file, "arms": len(d.arms)})


def events_of(path):
    return [e[1].replace(W, "") for e in path.events if e[0] == "call" and e[1].startswith(W)]


def tables(ctx):
    src = PRELUDE + "\n".join(s for s, _ in SPECS.values()) + "\n" + "\n".join(FILTER.values()) + "\n"
    prog, diag = witness_program(ctx, "w19", src)
    if prog is None:
        ctx.violation("TAB-MACRO", "witness", "the option/result witness crate does not compile:\n%s" % diag[-2500:])
        return
    for name, (s, exp) in SPECS.items():
        b = prog.get(W + name)
        key = name
        if b is None:
            ctx.violation("TAB-MACRO", key, "witness function %s missing" % name)
            continue
        paths = [p for p in sym.paths_of(b, prog, inline={"konst::option::copied"}) if p.kind != "unreachable"]
        seen = set()
        for p in paths:
            var = None
            for cnd in p.conds:
                if cnd[0] == "is" and cnd[1] == ("p", 1):
                    var = cnd[2]
            if var is None or var not in exp:
                ctx.violation("TAB-MACRO", key + "|shape", "%s: path does not branch on the variant of the argument" % name, detail={"src": s})
                continue
            seen.add(var)
            kind, val, evs = exp[var]
            if p.kind != kind:
                ctx.violation("TAB-MACRO", key + "|%d" % var, "%s: on variant %d expected %s, got %s (%s)" % (
                    name, var, kind, p.kind, show(p.value) if isinstance(p.value, tuple) else p.value), detail={"src": s})
                continue
            if kind == "return" and table.strip_gargs(p.value) != val:
                ctx.violation("TAB-MACRO", key + "|%d" % var, "%s: on variant %d returns %s, std gives %s" % (
                    name, var, show(p.value), show(val)), detail={"src": s})
            got = events_of(p)
            if kind == "return" and got != evs:
                ctx.violation("TAB-MACRO", key + "|%d|calls" % var, "%s: on variant %d the closure/function calls made are %s, std makes %s "
                              "(a fallback must run exactly when std runs it)" % (name, var, got, evs), detail={"src": s})
        if seen != set(exp):
            ctx.violation("TAB-MACRO", key + "|cover", "%s: variants covered %s, expected %s" % (name, sorted(seen), sorted(exp)))
        ctx.instance("TAB-MACRO", key, sample={"witness": s.split("{", 1)[1].strip(" }"), "paths": len(paths)})
    # filter: Some(x) & p(&x) -> Some(x); Some(x) & !p -> None; None -> None (no call)
    for name in FILTER:
        b = prog.get(W + name)
        if b is None:
            ctx.violation("TAB-MACRO", name, "witness function %s missing" % name)
            continue
        paths = [p for p in sym.paths_of(b, prog) if p.kind != "unreachable"]
        ok = True
        n = 0
        for p in paths:
            conds = [table.strip_gargs(x) for x in p.conds]
            evs = events_of(p)
            is_some = ("is", ("p", 1), 1) in conds
            prc = [x for x in conds if x[0] in ("holds", "nholds") and x[1][0] == "call" and x[1][1] == W + "pr"]
            if is_some:
                n += 1
                if len(prc) != 1 or evs != ["pr"]:
                    ok = False
                elif prc[0][0] == "holds" and p.value != table.Some(SOME):
                    ok = False
                elif prc[0][0] == "nholds" and p.value != NONE:
                    ok = False
            else:
                if p.value != NONE or evs:
                    ok = False
        if not ok or n != 2:
            ctx.violation("TAB-MACRO", name, "%s: filter! must yield Some(x) iff the predicate holds on &x and must not call it for None" % name,
                          detail={"paths": [(show(p.value), [sym.show_atom(x) for x in p.conds]) for p in paths]})
        ctx.instance("TAB-MACRO", name, sample={"witness": FILTER[name]})


# each argument expression must be evaluated exactly once (Copy arguments, so that a re-evaluation would compile)
MM_EVAL = """
#[derive(Copy, Clone)] pub struct C(pub u8);
#[inline(never)] pub fn a1() -> C { loop {} }
#[inline(never)] pub fn a2() -> C { loop {} }
#[inline(never)] pub fn a1u() -> u8 { loop {} }
#[inline(never)] pub fn a2u() -> u8 { loop {} }
#[inline(never)] pub fn keyc(x: &C) -> u8 { loop {} }
#[inline(never)] pub fn cmpc(l: &C, r: &C) -> core::cmp::Ordering { loop {} }
pub fn ev_min() -> u8 { konst::min!(a1u(), a2u()) }
pub fn ev_max() -> u8 { konst::max!(a1u(), a2u()) }
pub fn ev_min_by() -> C { konst::min_by!(a1(), a2(), |l, r| cmpc(l, r)) }
pub fn ev_max_by() -> C { konst::max_by!(a1(), a2(), |l, r| cmpc(l, r)) }
pub fn ev_min_by_key() -> C { konst::min_by_key!(a1(), a2(), |x| keyc(x)) }
pub fn ev_max_by_key() -> C { konst::max_by_key!(a1(), a2(), |x| keyc(x)) }
"""


def minmax_eval(ctx):
    prog, diag = witness_program(ctx, "w19e", "#![allow(unused)]\n" + MM_EVAL)
    if prog is None:
        ctx.violation("TAB-MINMAX", "eval-witness", "the min/max evaluation witness crate does not compile:\n%s" % diag[-2000:])
        return
    for name in ("ev_min", "ev_max", "ev_min_by", "ev_max_by", "ev_min_by_key", "ev_max_by_key"):
        b = prog.get("w19e::" + name)
        if b is None:
            ctx.violation("TAB-MINMAX", name, "witness function %s missing" % name)
            continue
        bad = None
        n = 0
        for p in sym.paths_of(b, prog, inline_all_loopfree=True):
            if p.kind != "return":
                continue
            n += 1
            args = [e[1].split("::")[-1] for e in p.events if e[0] == "call" and e[1].split("::")[-1] in ("a1", "a2", "a1u", "a2u")]
            # (the order is not part of the property: max_by_key! evaluates its second argument first, std the first)
            if sorted(a[:2] for a in args) != ["a1", "a2"]:
                bad = "argument expressions are evaluated as %s, expected each exactly once" % args
            v = table.strip_gargs(p.value)
            if not (v[0] == "call" and v[1].split("::")[-1] in ("a1", "a2", "a1u", "a2u")):
                bad = bad or "returns %s, expected the value of one of the two argument expressions" % show(v)
        if n == 0:
            bad = "no returning path"
        if bad:
            ctx.violation("TAB-MINMAX", name + "|eval", "%s: %s" % (name, bad))
        ctx.instance("TAB-MINMAX", name + "|eval", sample={"witness": name, "paths": n})


def minmax(ctx):
    minmax_eval(ctx)
    src = PRELUDE + "\n".join(s for s, _, _ in MINMAX.values()) + "\n"
    prog, diag = witness_program(ctx, "w19m", src.replace("w19", "w19"))
    if prog is None:
        ctx.violation("TAB-MINMAX", "witness", "the min/max witness crate does not compile:\n%s" % diag[-2500:])
        return
    for name, (s, kind, which) in MINMAX.items():
        b = prog.get("w19m::" + name)
        if b is None:
            ctx.violation("TAB-MINMAX", name, "witness function %s missing" % name)
            continue
        paths = [p for p in sym.split_bool_returns(sym.paths_of(b, prog, inline_all_loopfree=True)) if p.kind == "return"]
        for p in paths:
            p.conds = tuple(table.strip_gargs(x) for x in p.conds)
        A, B = ("p", 1), ("p", 2)

        def pick(i):
            want = A if i == 1 else B

            def f(path, case):
                v = path.value
                return None if v == want else "returns %s, std returns the %s argument" % (show(v), "first" if i == 1 else "second")
            return f
        if kind == "val":
            rows = [Row([lt(A, B)], pick(which[0]), name="Less"), Row([eq(A, B)], pick(which[1]), name="Equal"), Row([lt(B, A)], pick(which[2]), name="Greater")]
            vdom = None
        elif kind == "key":
            ka = ("call", "w19m::key", None, ("ref", A))
            kb = ("call", "w19m::key", None, ("ref", B))
            rows = [Row([lt(ka, kb)], pick(which[0]), name="Less"), Row([eq(ka, kb)], pick(which[1]), name="Equal"), Row([lt(kb, ka)], pick(which[2]), name="Greater")]
            vdom = None
        else:
            cm = ("call", "w19m::cmpk", None, ("ref", A), ("ref", B))
            rows = [Row([("is", cm, -1)], pick(which[0]), name="Less"), Row([("is", cm, 0)], pick(which[1]), name="Equal"), Row([("is", cm, 1)], pick(which[2]), name="Greater")]
            vdom = {cm: [-1, 0, 1]}
        # by/by_key: operands are moved into an array first; normalise `index(array{a,b}, k)` projections
        try:
            mism, n, dec = table.compare(paths, rows, nonneg=False, variant_domain=vdom)
        except table.Undecided as e:
            ctx.violation("TAB-MINMAX", name, "undecided: %s" % e)
            continue
        ctx.instance("TAB-MINMAX", name, nontrivial=dec >= 2, sample={"witness": s, "cases": n, "decided": dec})
        for m in mism[:2]:
            ctx.violation("TAB-MINMAX", name + "|" + m.row.name, "%s: %s" % (name, m), detail={"src": s})


KINDS = ["place", "let", "tlet", "skip"]
TYS = ["u8", "u16", "u32", "u64", "i8", "i16"]


def rebind_source(macro, arity, kinds):
    tys = TYS[:arity]
    tup = "(" + ", ".join(tys) + ("," if arity == 1 else "") + ")"
    decl = []
    pats = []
    outs = []
    for i, k in enumerate(kinds):
        if k == "place":
            decl.append("let mut v%d: %s = 0;" % (i, tys[i]))
            pats.append("v%d" % i)
            outs.append("v%d" % i)
        elif k == "let":
            pats.append("let v%d" % i)
            outs.append("v%d" % i)
        elif k == "tlet":
            pats.append("let v%d: %s" % (i, tys[i]))
            outs.append("v%d" % i)
        else:
            pats.append("_")
            outs.append(None)
    live = [o for o in outs if o]
    sink = "sink%d(%s);" % (len(live), ", ".join(live))
    sinkdef = "#[inline(never)] pub fn sink%d(%s) { loop {} }" % (len(live), ", ".join("a%d: %s" % (i, tys[j]) for i, j in enumerate(j for j, o in enumerate(outs) if o)))
    pat = "(" + ", ".join(pats) + ")"
    if arity == 1:
        # a single pattern (parenthesised or not) binds the whole Ok payload
        if kinds[0] == "place":
            pat = "v0"
        tup = "u8"
    if macro == "try_rebind":
        body = "%s konst::try_rebind!{%s = r} %s Ok(())" % (" ".join(decl), pat, sink)
    else:
        body = "%s konst::rebind_if_ok!{%s = r => %s } Ok(())" % (" ".join(decl), pat, sink)
    src = "#![allow(unused)]\npub struct E(pub u8);\n%s\npub fn w(r: Result<%s, E>) -> Result<(), E> { %s }\n" % (sinkdef, tup, body)
    return src, [j for j, o in enumerate(outs) if o], arity == 1


def rebind(ctx):
    import itertools
    import random
    rng = random.Random(ctx.seed)
    for macro in ("try_rebind", "rebind_if_ok"):
        for arity in range(1, 7):
            combos = list(itertools.product(KINDS, repeat=arity))
            if arity == 1:
                combos = [("place",), ("let",), ("tlet",)]
            elif ctx.tier == "quick":
                base = [tuple(k for _ in range(arity)) for k in KINDS[:3]] + [tuple(KINDS[(i + j) % 4] for i in range(arity)) for j in range(2)]
                combos = base
            else:
                rng.shuffle(combos)
                combos = combos[:24] + [tuple(k for _ in range(arity)) for k in KINDS[:3]]
            ok_all = True
            n = 0
            for kinds in combos:
                if all(k == "skip" for k in kinds):
                    continue
                src, live, single = rebind_source(macro, arity, kinds)
                name = "w19r"
                prog, diag = witness_program(ctx, name, src)
                n += 1
                key = "%s|arity%d" % (macro, arity)
                if prog is None:
                    ok_all = False
                    first = [l for l in diag.splitlines() if l.startswith("error")][:2]
                    ctx.violation("ACC-REBIND", key, "%s! with %d components (%s) does not compile: %s" % (
                        macro, arity, ", ".join(kinds), " / ".join(first)), detail={"src": src, "diag": diag[-1500:]})
                    break
                b = prog.get("w19r::w")
                paths = [p for p in sym.paths_of(b, prog) if p.kind != "unreachable"]
                payload = ("vfield", ("p", 1), 0, 0)
                good = False
                for p in paths:
                    conds = list(p.conds)
                    if ("is", ("p", 1), 0) in conds:
                        evs = [e for e in p.events if e[0] == "call" and e[1].startswith("w19r::sink")]
                        if len(evs) != 1:
                            ctx.violation("ACC-REBIND", key + "|flow", "%s!: the Ok path does not reach the code after the rebind" % macro, detail={"src": src})
                            continue
                        args = evs[0][2][3:]
                        want = tuple(payload if single else ("field", payload, j) for j in live)
                        if args != want:
                            ctx.violation("ACC-REBIND", key + "|dep", "%s! (%s): positions receive %s, expected components %s in order" % (
                                macro, ", ".join(kinds), [show(a) for a in args], live), detail={"src": src})
                        good = True
                    elif ("is", ("p", 1), 1) in conds:
                        if macro == "try_rebind":
                            if table.strip_gargs(p.value) != table.Err(("vfield", ("p", 1), 1, 0)):
                                ctx.violation("ACC-REBIND", key + "|err", "try_rebind!: Err(e) must return Err(e), got %s" % show(p.value), detail={"src": src})
                        else:
                            if any(e[1].startswith("w19r::sink") for e in p.events if e[0] == "call"):
                                ctx.violation("ACC-REBIND", key + "|err", "rebind_if_ok!: the block runs for Err", detail={"src": src})
                if not good:
                    ctx.violation("ACC-REBIND", key + "|ok", "%s!: no Ok path found" % macro, detail={"src": src})
            ctx.instance("ACC-REBIND", "%s|arity%d" % (macro, arity), sample={"macro": macro, "arity": arity, "programs": n, "example": ", ".join(combos[-1])})
