"""C07 — char iteration and char<->UTF-8/u32 conversions agree with std.

D3-SCALAR  from_u32 returns Some exactly for [0,D7FF] u [E000,10FFFF] and the payload is that same value.
D4-ENCODE  per length class the arm range is std's, len is 1..4, and each output byte is marker bits | the
           right payload bits of the scalar value (bit provenance).
D4-DECODE  string_to_usv composed with encode_utf8 is the identity on the scalar's bits for each length.
TAB-STEP   one-step tables of Chars/CharIndices next/next_back (boundary search opaque): item, remainder,
           offsets; ISO for the R* types; as_str.    TAB-BOUND  one-iteration relation of the two boundary
           searches (move by one, stop on the forgiving boundary predicate).
"""
from .. import accessors, bits, byteset, ivset, sym, table
from ..sym import show
from ..table import Row, eq, ne, Int

KC = "konst_kernel::chr::"
CM = "konst::string::chars_methods::"


def run(ctx):
    ctx.explanation = ("exact scalar-value set of from_u32; bit provenance of the UTF-8 encoder per length class and of the decoder "
                       "composed with it; one-step tables of the four char iterators; one-iteration relation of the boundary searches")
    for cfg in ["FULL", "DEBUG"]:   # string_to_usv differs under the debug feature
        prog = ctx.program(cfg)
        scalar(ctx, prog)
        enc = encode(ctx, prog)
        decode(ctx, prog, enc)
        steps(ctx, prog)
        bounds(ctx, prog)
        # the boundary searches stop on the forgiving char-boundary predicate: its table (C03 TAB-PRED, exact byte classes) is decided
        # here too, so that a slip in the byte test is reported by the property whose iterators step with it
        from . import c03
        c03.pred_tables(ctx, prog)
        # the conversions the interleavings go through: copy() is a field-wise copy, rev() the other direction's type with the same fields
        for fwd, rev, nf in (("Chars", "RChars", 1), ("CharIndices", "RCharIndices", 2)):
            for ty, other in ((fwd, rev), (rev, fwd)):
                accessors.rebuild(ctx, "ACC", prog, CM + ty + "::copy", nfields=nf)
                accessors.rebuild(ctx, "ACC", prog, CM + ty + "::rev", target=CM + other, byref=False, nfields=nf)
    ctx.floor("D3-SCALAR", 1)
    ctx.floor("D4-ENCODE", 4)
    ctx.floor("D4-DECODE", 4)
    ctx.floor("TAB-STEP", 4)
    ctx.floor("ISO", 4)
    ctx.floor("TAB-BOUND", 2)
    ctx.floor("ACC", 16)
    ctx.floor("TAB-PRED", 6)


def _int_bytes(t):
    """byte i of `x.to_be_bytes()` / `to_le_bytes()` (u32) written as the shift-and-mask of x it is"""
    if not isinstance(t, tuple) or not t:
        return t
    if t[0] == "cidx" and isinstance(t[1], tuple) and t[1][0] == "call" and t[1][1] in (
            "core::num::<impl u32>::to_be_bytes", "core::num::<impl u32>::to_le_bytes") and isinstance(t[2], int) and t[3] is False and 0 <= t[2] < 4:
        sh = (3 - t[2]) * 8 if t[1][1].endswith("to_be_bytes") else t[2] * 8
        return ("bin", "BitAnd", ("bin", "Shr", _int_bytes(t[1][3]), ("int", sh, "u32")), ("int", 255, "u32"))
    return tuple(_int_bytes(x) if isinstance(x, tuple) else x for x in t)


def cond_set_wide(paths, hole, lo=0, hi=(1 << 32) - 1):
    """union over paths of { v : all conditions of the path hold }"""
    out = []
    for p in paths:
        t = None
        for c in p.conds:
            r = byteset.atom_to_bool(c)
            if r is None or r[0] is None:
                continue
            term, pol = r
            term = _int_bytes(term)
            if byteset.holes(term) != [hole]:
                continue
            term = term if pol else ("un", "Not", term)
            t = term if t is None else ("bin", "BitAnd", t, term)
        if t is None:
            out.append((lo, hi))
        else:
            out.extend(ivset.trueset(t, hole, 32, ((lo, hi),)))
    merged = []
    for a, b in sorted(out):
        if merged and merged[-1][1] >= a - 1:
            merged[-1][1] = max(merged[-1][1], b)
        else:
            merged.append([a, b])
    return tuple((a, b) for a, b in merged)


def scalar(ctx, prog):
    b = ctx.anchor(prog, KC + "from_u32")
    if b is None:
        return
    paths = sym.paths_of(b, prog)
    some = [p for p in paths if p.kind == "return" and p.value != table.NONE]
    key = prog.config + "|from_u32"
    try:
        got = cond_set_wide(some, ("p", 1))
    except byteset.Opaque as e:
        ctx.violation("D3-SCALAR", key, "cannot compute the accepted set: %s" % e, b.file())
        return
    want = ((0, 0xD7FF), (0xE000, 0x10FFFF))
    # from_u32 is total: an input for which it panics (an arithmetic overflow check on the way to the answer) gets no answer at all
    for p in paths:
        if p.kind in ("panic", "diverge"):
            try:
                bad = cond_set_wide([p], ("p", 1))
            except byteset.Opaque:
                bad = ((0, (1 << 32) - 1),)
            if bad:
                ctx.violation("D3-SCALAR", key + "|panics", "from_u32 panics for %s" % [(hex(a), hex(c)) for a, c in bad[:4]], b.file())
    if got != want:
        ctx.violation("D3-SCALAR", key + "|set", "from_u32 returns Some for %s; Unicode scalar values are %s" % (
            [(hex(a), hex(c)) for a, c in got], [(hex(a), hex(c)) for a, c in want]), b.file())
    for p in some:
        v = p.value
        ok = v[0] == "agg" and v[1].endswith("Some#1") and (
            v[2] == ("call", KC + "from_u32_unchecked", (), ("p", 1)) or (v[2][0] == "cast" and v[2][1] == "transmute" and v[2][3] == ("p", 1)))
        if not ok:
            ctx.violation("D3-SCALAR", key + "|payload", "from_u32 returns %s, expected Some(the same value as char)" % show(v), b.file())
    u = prog.get(KC + "from_u32_unchecked")
    if u is not None:
        ps = sym.paths_of(u, prog)
        if not (len(ps) == 1 and ps[0].value[0] in ("cast", "call") and ps[0].value[-1] == ("p", 1)):
            ctx.violation("D3-SCALAR", key + "|unchecked", "from_u32_unchecked is not a plain transmute of its argument: %s" % show(ps[0].value), u.file())
    ctx.instance("D3-SCALAR", key, sample={"accepted": [(hex(a), hex(c)) for a, c in got]})


ARMS = {1: (0, 0x7F, 7), 2: (0x80, 0x7FF, 11), 3: (0x800, 0xFFFF, 16), 4: (0x10000, 0x10FFFF, 21)}
MARK = {1: [(0, 1)], 2: [(0b110, 3), (0b10, 2)], 3: [(0b1110, 4), (0b10, 2), (0b10, 2)], 4: [(0b11110, 5), (0b10, 2), (0b10, 2), (0b10, 2)]}


def expected_layout(n, X):
    """list of n bytes, each a list of 8 bits (LSB first) in terms of scalar bits (X,k)"""
    nbits = ARMS[n][2]
    out = []
    pos = nbits
    for (marker, mlen) in MARK[n]:
        payload = 8 - mlen
        pos -= payload
        byte = [(X, pos + i) for i in range(payload)] + [(marker >> i) & 1 for i in range(mlen)]
        out.append(byte)
    return out


def encode(ctx, prog):
    b = ctx.anchor(prog, KC + "char_formatting::encode_utf8")
    if b is None:
        return None
    X = ("cast", "int2int", "u32", ("p", 1))
    paths = [p for p in sym.paths_of(b, prog) if p.kind == "return"]
    by_len = {}
    for p in paths:
        v = p.value
        if not (v[0] == "agg" and "Utf8Encoded" in v[1] and v[2][0] == "agg" and v[2][1] == "array" and v[3][0] == "int"):
            ctx.violation("D4-ENCODE", prog.config + "|shape", "encode_utf8 returns %s" % show(v), b.file())
            continue
        by_len.setdefault(v[3][1], []).append(p)
    enc = {}
    for n in (1, 2, 3, 4):
        key = "%s|len%d" % (prog.config, n)
        ps = by_len.get(n, [])
        if not ps:
            ctx.violation("D4-ENCODE", key, "no arm of encode_utf8 produces %d bytes" % n, b.file())
            continue
        try:
            rng = cond_set_wide(ps, ("p", 1), 0, 0x10FFFF)      # char invariant: value <= 10FFFF
        except byteset.Opaque as e:
            ctx.violation("D4-ENCODE", key, "cannot compute the arm range: %s" % e, b.file())
            continue
        lo, hi, nbits = ARMS[n]
        if rng != ((lo, hi),):
            ctx.violation("D4-ENCODE", key + "|range", "the %d-byte arm covers %s, expected %#x..=%#x" % (n, [(hex(a), hex(c)) for a, c in rng], lo, hi), b.file())
        want = expected_layout(n, X)
        arr = ps[0].value[2][2:]
        got_bytes = []
        for i in range(4):
            try:
                bb = bits.bits_of(arr[i], {X: 32}, 32)
            except bits.Unknown as e:
                ctx.violation("D4-ENCODE", key + "|byte%d" % i, "byte %d is not a shift/mask expression: %s" % (i, e), b.file())
                bb = [None] * 32
            bb = bits.assume_zero_above(bb, X, nbits)[:8]
            got_bytes.append(bb)
            exp = want[i] if i < n else [0] * 8
            if bb != exp:
                ctx.violation("D4-ENCODE", key + "|byte%d" % i, "byte %d of the %d-byte encoding has bits [%s], UTF-8 requires [%s]" % (
                    i, n, bits.show(bb, 8), bits.show(exp, 8)), b.file())
        enc[n] = got_bytes
        ctx.instance("D4-ENCODE", key, sample={"len": n, "range": [hex(lo), hex(hi)], "byte0": bits.show(got_bytes[0], 8)})
    # as_bytes / as_str expose exactly `len` bytes
    ab = prog.get(KC + "char_formatting::Utf8Encoded::as_bytes")
    if ab is not None:
        ps = sym.paths_of(ab, prog)
        me = ("deref", ("p", 1))
        want = ("call", "konst_kernel::slice::slice_up_to", (), ("cast", "coerce:Unsize", "&[u8]", ("ref", ("field", me, 0))),
                ("cast", "int2int", "usize", ("field", me, 1)))
        if len(ps) != 1 or table.strip_gargs(ps[0].value) != table.strip_gargs(want):
            ctx.violation("D4-ENCODE", prog.config + "|as_bytes", "Utf8Encoded::as_bytes is %s, expected encoded[..len]" % show(ps[0].value), ab.file())
    return enc


def decode(ctx, prog, enc):
    b = ctx.anchor(prog, CM + "string_to_usv")
    if b is None or enc is None:
        return
    X = ("cast", "int2int", "u32", ("p", 1))
    B = ("deref", ("as_bytes", ("p", 1)))
    paths = [p for p in sym.paths_of(b, prog) if p.kind == "return"]
    L = ("len", ("p", 1))
    for n in (1, 2, 3, 4):
        key = "%s|len%d" % (prog.config, n)
        ps = [p for p in paths if eq(L, Int(n)) in [table.norm_atom(c) for c in p.conds] or ("eq", Int(n), L) in p.conds]
        if len(ps) != 1:
            ctx.violation("D4-DECODE", key, "string_to_usv has %d arms for a %d-byte string" % (len(ps), n), b.file())
            continue
        if n not in enc:
            continue
        holes = {("cidx", B, i, False): list(enc[n][i]) for i in range(n)}
        try:
            res = bits.bits_of(ps[0].value, holes, 32)
        except bits.Unknown as e:
            ctx.violation("D4-DECODE", key, "decoder arm is not a shift/mask expression: %s" % e, b.file())
            continue
        nbits = ARMS[n][2]
        want = [(X, i) if i < nbits else 0 for i in range(32)]
        if res != want:
            ctx.violation("D4-DECODE", key, "decoding the %d-byte encoding of a scalar x gives bits [%s], expected x itself [%s]" % (
                n, bits.show(res, 24), bits.show(want, 24)), b.file())
        ctx.instance("D4-DECODE", key, sample={"len": n, "decoded": bits.show(res, nbits)})
    c = prog.get(CM + "string_to_char")
    if c is not None:
        ps = sym.paths_of(c, prog)
        want = ("call", "konst_kernel::chr::from_u32_unchecked", None, ("call", CM + "string_to_usv", None, ("p", 1)))
        if len(ps) != 1 or table.strip_gargs(ps[0].value) != want:
            ctx.violation("D4-DECODE", prog.config + "|string_to_char", "string_to_char is %s" % show(ps[0].value), c.file())


def steps(ctx, prog):
    KS = "konst_kernel::string::"
    S = "konst::string::"
    for ty, with_off in (("Chars", False), ("CharIndices", True)):
        this = ("field", ("p", 1), 0)
        off = ("field", ("p", 1), 1)
        for m in ("next", "next_back"):
            b = ctx.anchor(prog, CM + ty + "::" + m)
            if b is None:
                continue
            # split_at(s, at) is (str_up_to(s, at), str_from(s, at)): look inside, so that both spellings compare equal
            paths = sym.paths_of(b, prog, inline={S + "split_at"})
            for p in paths:
                p.conds = tuple(table.strip_gargs(c) for c in p.conds)
            if m == "next":
                at = ("call", KS + "__find_next_char_boundary", None, ("as_bytes", this), Int(0))
            else:
                at = ("call", KS + "__find_prev_char_boundary", None, ("as_bytes", this), ("len", this))
            up_to, from_ = ("call", KS + "str_up_to", None, this, at), ("call", KS + "str_from", None, this, at)
            piece, rest = (up_to, from_) if m == "next" else (from_, up_to)
            ch = ("call", CM + "string_to_char", None, piece)
            if with_off:
                item = table.Tuple(off, ch) if m == "next" else table.Tuple(("bin", "Add", off, at), ch)
                new = [rest, ("bin", "Add", off, at) if m == "next" else off]
            else:
                item = ch
                new = [rest]

            def some(path, case, item=item, new=new, at=at, m=m, this=this):
                v = table.strip_gargs(path.value)
                if not (v[0] == "agg" and v[1].endswith("Some#1") and v[2][0] == "agg" and v[2][1] == "tuple"):
                    return "expected Some((item, iter)), got %s" % show(v)
                st = v[2][3]
                got = [sym.mk_field(st, i) for i in range(len(new))]
                if v[2][2] == item and got == new:
                    return None
                if m == "next":
                    # the width of the first char read off its lead byte instead of scanning to the next boundary: for a `&str`
                    # remainder (valid UTF-8 starting at a char) the two agree when the lead bytes the path admits all have that width
                    for w in (1, 2, 3, 4):
                        if _subst(item, at, Int(w)) == v[2][2] and [_subst(x, at, Int(w)) for x in new] == got:
                            why = _width_justified(path, this, w)
                            if why is None:
                                return None
                            return "takes the first char to be %d byte(s) long %s" % (w, why)
                if v[2][2] != item:
                    return "yields %s, expected %s" % (show(v[2][2]), show(item))
                return "new state is %s, expected %s" % ([show(x) for x in got], [show(x) for x in new])

            def none(path, case):
                return None if path.value == table.NONE else "expected None, got %s" % show(path.value)
            rows = [Row([eq(("len", this), Int(0))], none, name="empty"), Row([ne(("len", this), Int(0))], some, name="non-empty")]
            key = "%s|%s::%s" % (prog.config, ty, m)
            try:
                mism, n, dec = table.compare(paths, rows)
            except table.Undecided as e:
                ctx.violation("TAB-STEP", key, "undecided: %s" % e, b.file())
                continue
            ctx.instance("TAB-STEP", key, nontrivial=dec >= 2, sample={"iter": ty, "method": m})
            for mm in mism[:2]:
                ctx.violation("TAB-STEP", key + "|" + mm.row.name, "%s::%s: %s" % (ty, m, mm), b.file())
        # reversed twin + as_str
        rty = "R" + ty
        for m, twin in (("next", "next_back"), ("next_back", "next")):
            a, c = prog.get(CM + rty + "::" + m), prog.get(CM + ty + "::" + twin)
            key = "%s|%s::%s" % (prog.config, rty, m)
            if a is None or c is None:
                ctx.violation("ISO", key, "missing twin")
                continue
            if _tab(a, prog, rty, ty) != _tab(c, prog, rty, ty):
                ctx.violation("ISO", key, "%s::%s is not %s::%s" % (rty, m, ty, twin), a.file())
            ctx.instance("ISO", key)
        a = prog.get(CM + ty + "::as_str")
        if a is not None:
            ps = sym.paths_of(a, prog)
            if len(ps) != 1 or ps[0].value != ("field", ("deref", ("p", 1)), 0):
                ctx.violation("TAB-STEP", "%s|%s::as_str" % (prog.config, ty), "as_str returns %s, expected the remaining string" % show(ps[0].value), a.file())
    # constructors
    for fn, want in (("chars", [("p", 1)]), ("char_indices", [("p", 1), Int(0)])):
        b = prog.get(CM + fn)
        if b is not None:
            ps = sym.paths_of(b, prog)
            if len(ps) != 1 or list(ps[0].value[2:]) != want:
                ctx.violation("TAB-STEP", "%s|%s" % (prog.config, fn), "%s() builds %s" % (fn, show(ps[0].value)), b.file())


UTF8_WIDTH = {1: set(range(0x00, 0x80)), 2: set(range(0xC2, 0xE0)), 3: set(range(0xE0, 0xF0)), 4: set(range(0xF0, 0xF5))}
UTF8_NOT_LEAD = set(range(0x80, 0xC2)) | set(range(0xF5, 0x100))      # never the first byte of a char in valid UTF-8


def _subst(t, a, b):
    if t == a:
        return b
    if isinstance(t, tuple):
        return tuple(_subst(x, a, b) if isinstance(x, tuple) else x for x in t)
    return t


def _width_justified(path, this, w):
    """None when the byte tests of the path on the first byte of `this` leave only lead bytes of UTF-8 width w (bytes that cannot start
    a char of valid UTF-8 do not matter); otherwise the reason"""
    holes = [("cidx", ("deref", ("as_bytes", this)), 0, False), ("index", ("deref", ("as_bytes", this)), Int(0))]
    left = None
    for c in path.conds:
        a = table.norm_atom(byteset.canon_atom(table.strip_gargs(c)))
        if a[0] in ("holds", "nholds") and a[1][0] == "byteclass" and a[1][1] in holes:
            s_ = set()
            for lo, hi in (a[1][2] if a[0] == "holds" else byteset.complement(a[1][2])):
                s_ |= set(range(lo, hi + 1))
            left = s_ if left is None else (left & s_)
    if left is None:
        return "without looking at its lead byte"
    bad = sorted(left - UTF8_WIDTH[w] - UTF8_NOT_LEAD)
    if bad:
        return "also for the lead bytes {%s}, whose chars are not that long" % byteset.show_ranges(byteset.to_ranges(set(bad)))
    return None


def _tab(b, prog, rty, ty):
    def norm(t):
        if isinstance(t, tuple):
            return tuple(norm(x) for x in t)
        if isinstance(t, str):
            return t.replace(rty, ty)
        return t
    return sorted((repr(norm(tuple(sorted(p.conds, key=repr)))), p.kind, repr(norm(p.value))) for p in sym.paths_of(b, prog))


def bounds(ctx, prog):
    KS = "konst_kernel::string::"
    F = KS + "__is_char_boundary_forgiving"
    for fn, step in (("__find_next_char_boundary", "Add"), ("__find_prev_char_boundary", "Sub")):
        b = ctx.anchor(prog, KS + fn)
        if b is None:
            continue
        key = "%s|%s" % (prog.config, fn)
        hs = list(b.loops())
        if len(hs) != 1:
            ctx.violation("TAB-BOUND", key, "%s: expected one loop" % fn, b.file())
            continue
        paths = sym.through_loops(b, prog, keep_back=True)
        pos = None
        for p in paths:
            if p.kind == "back":
                for l, v in p.env.items():
                    if v[0] == "bin" and v[1] == step and v[2] == ("L", l) and v[3] == Int(1):
                        pos = l
        if pos is None:
            ctx.violation("TAB-BOUND", key, "%s does not move its position by exactly one per iteration" % fn, b.file())
            continue
        P = ("L", pos)
        msg = None
        if fn == "__find_next_char_boundary":
            nxt = ("bin", "Add", P, Int(1))
            test = ("call", F, (), ("p", 1), nxt)
            for p in paths:
                conds = p.conds
                if p.kind == "back" and ("nholds", test) not in conds:
                    msg = "continues without the boundary test on position+1 failing"
                if p.kind == "return" and (("holds", test) not in conds or p.value != nxt):
                    msg = "returns %s, expected position+1 once the boundary test on it succeeds" % show(p.value)
                for e in p.events:
                    if e[0] == "loop" and dict(e[2]).get(pos, ("p", 2)) != ("p", 2):
                        msg = "search does not start from the given position"
        else:
            test = ("call", F, (), ("p", 1), P)
            for p in paths:
                if p.kind == "back" and ("nholds", test) not in p.conds:
                    msg = "continues without the boundary test on the position failing"
                if p.kind == "return" and (("holds", test) not in p.conds or p.value != P):
                    msg = "returns %s, expected the position once the boundary test on it succeeds" % show(p.value)
                for e in p.events:
                    if e[0] != "loop":
                        continue
                    v0 = dict(e[2]).get(pos)
                    one = Int(1)
                    # position.saturating_sub(1), in one term or spelled as a case split (checked_sub + match, if position == 0 ..)
                    ok0 = v0 == ("bin", "SatSub", ("p", 2), one) \
                        or (v0 == ("bin", "Sub", ("p", 2), one) and any(c in p.conds for c in (table.le(one, ("p", 2)), table.ne(("p", 2), Int(0)), table.lt(Int(0), ("p", 2))))) \
                        or (v0 == Int(0) and any(c in p.conds for c in (table.lt(("p", 2), one), table.eq(("p", 2), Int(0)), table.le(("p", 2), Int(0)))))
                    if not ok0:
                        msg = "search does not start from position.saturating_sub(1): %s" % show(v0 or ("?",))
        if msg:
            ctx.violation("TAB-BOUND", key, "%s %s" % (fn, msg), b.file())
        ctx.instance("TAB-BOUND", key, sample={"fn": fn, "step": step})
