"""C03 — string slicing agrees with std str indexing incl. char-boundary rules.

D3: the byte class tested by the boundary predicates must be exactly the
non-continuation bytes 00-7F, C0-FF.  TAB: strict / forgiving predicate tables,
fallible getters (= str::get) and clamping variants (clamp beyond len, panic
inside a char), with every callee inlined down to raw views and the byte test.
"""
from .. import byteset, sym, table, views
from ..table import P, Len, Row, lt, le, eq, ne, Sub, Int, NONE

NONCONT = ((0x00, 0x7F), (0xC0, 0xFF))
S = P(1)
B = ("as_bytes", S)
LEN = Len(S)


def bclass(idx, root=B):
    return ("byteclass", ("index", ("deref", root), idx), NONCONT)


def canon_paths(paths):
    out = []
    for p in paths:
        conds = byteset.merge_byteclass_conds([byteset.canon_atom(c) for c in p.conds])
        if conds is None:
            continue
        p.conds = conds
        if isinstance(p.value, tuple) and p.kind == "return":
            c = byteset.canon_bool(p.value)
            if c is not None:
                a = byteset.norm_byteclass(c)
                p.value = a[1] if a[0] == "holds" else ("un", "Not", a[1])
        out.append(p)
    return out


def foreign_byteclasses(paths, allowed):
    """every byte predicate met on a path must be the boundary class on an allowed index"""
    bad = []
    for p in paths:
        for c in p.conds:
            if c[0] in ("holds", "nholds") and c[1][0] == "byteclass":
                # (which bytes the class contains is decided by the table, over the cells all tests of that byte generate;
                #  here only: the byte looked at is one the function may look at)
                if c[1][1] not in {a[1] for a in allowed}:
                    bad.append(c[1])
    return bad


def _complement(bc):
    full = set(range(256))
    for lo, hi in bc[2]:
        full -= set(range(lo, hi + 1))
    return ("byteclass", bc[1], byteset.to_ranges(full))


def nb(idx, root=B):
    """atom: byte at idx is NOT a boundary byte (i.e. a continuation byte)"""
    return ("nholds", bclass(idx, root))


def isb(idx, root=B):
    return ("holds", bclass(idx, root))


def utf8_of(chk):
    def f(t, case):
        if t[0] == "call" and t[1] == "konst_kernel::string::__from_u8_subslice_of_str":
            return chk(t[3], case)
        if t[0] == "utf8_unchecked":
            return chk(t[1], case)
        # the whole input string un-sliced
        return chk(t, case)
    return f


def _as_view(t, case):
    """-> (off, cnt) normalised under the case, or an error string"""
    if t == S or t == B:
        return (Int(0), case.norm(LEN))
    v = views.view(t)
    if v is None:
        return "not a view of the input: %s" % sym.show(t)
    if v[0] == "empty":
        return (None, Int(0))
    if v[0] == "whole":
        if v[1] not in (S, B):
            return "not derived from the input string: %s" % sym.show(t)
        return (Int(0), case.norm(LEN))
    if v[1] not in (S, B):
        return "not derived from the input string: %s" % sym.show(t)
    return (case.norm(v[2]), case.norm(v[3]))


def view_is(root, off, cnt):
    def chk(t, case):
        r = _as_view(t, case)
        if isinstance(r, str):
            return r
        eo, ec = case.norm(off), case.norm(cnt)
        if r[1] == ec and (r[0] == eo or (ec == Int(0) and r[0] is None)):
            return None
        return "expected str[%s..][..%s], got offset %s count %s" % (
            sym.show(eo), sym.show(ec), sym.show(r[0]) if r[0] else "-", sym.show(r[1]))
    return chk


def whole(t, case):
    return view_is(B, Int(0), LEN)(t, case)


def empty(t, case):
    r = _as_view(t, case)
    if isinstance(r, str):
        return r
    return None if r[1] == Int(0) else "expected an empty string, got count %s" % sym.show(r[1])


def ret(chk):
    return lambda path, case: chk(path.value, case)


def some(chk):
    def f(path, case):
        t = path.value
        if t[0] != "agg" or not t[1].endswith("Option::Some#1"):
            return "expected Some(..), got %s" % sym.show(t)
        return chk(t[2], case)
    return f


def none(path, case):
    return None if path.value == NONE else "expected None, got %s" % sym.show(path.value)


def pair(c0, c1):
    def f(path, case):
        t = path.value
        if t[0] != "agg" or t[1] != "tuple" or len(t) != 4:
            return "expected a pair, got %s" % sym.show(t)
        return c0(t[2], case) or c1(t[3], case)
    return f


def boolean(v):
    def f(path, case):
        got = case.truth(path.value)
        if got is None:
            return "result %s is not decided by the case" % sym.show(path.value)
        return None if got == v else "expected %s, got %s" % (v, got)
    return f


def panic_names(which, idx):
    def f(path, case=None):
        v = path.value
        if v[0] == "diverge" and v[1].endswith("non_char_boundary_panic"):
            if which is not None and (len(v) < 4 or v[2][0] != "lit" or v[2][1] != which.encode()):
                return "panic names %s, expected %r" % (sym.show(v[2]) if len(v) > 2 else "?", which)
            if len(v) >= 4 and v[3] != idx:
                return "panic reports index %s, expected %s" % (sym.show(v[3]), sym.show(idx))
            return None
        return "expected non_char_boundary_panic, got %s" % sym.show(v)
    return f


def decide(ctx, rule, prog, key, rows, allowed, opaque=(), **kw):
    b = ctx.anchor(prog, key)
    if b is None:
        return
    try:
        paths = sym.paths_of(b, prog, inline_all_loopfree=True, opaque=set(opaque) | {
            "konst_kernel::string::__from_u8_subslice_of_str", "konst_kernel::string::non_char_boundary_panic"})
        paths = canon_paths(paths)
        foreign = foreign_byteclasses(paths, allowed)
        vd = dict(kw.pop("variant_domain", None) or {})
        vd.update(table.cellify(paths, rows))
        mism, ncases, decided = table.compare(paths, rows, variant_domain=vd, **kw)
    except (table.Undecided, sym.TooManyPaths) as e:
        ctx.violation(rule, "%s|%s" % (prog.config, key), "table undecided: %s" % e, b.file())
        return
    ctx.instance(rule, "%s|%s" % (prog.config, key), nontrivial=decided >= 2,
                 sample={"fn": key, "cases": ncases, "decided": decided, "paths": len(paths)})
    for m in mism[:3]:
        ctx.violation(rule, "%s|%s|%s" % (prog.config, key, m.row.name if m.row else "-"),
                      "%s disagrees with std: %s" % (key, m), b.file(), detail={"mir": b.pretty()})
    for bc in foreign[:2]:
        ctx.violation("D3-BOUNDARY", "%s|%s" % (prog.config, key),
                      "%s tests a byte class ({%s}) on %s, which is not a byte the table says it may look at"
                      % (key, byteset.show_ranges(bc[2]), sym.show(bc[1])), b.file())
    ctx.instance("D3-BOUNDARY", "%s|%s" % (prog.config, key))


def pred_tables(ctx, prog):
    """TAB-PRED: the three char-boundary predicates (strict on bytes, forgiving on bytes, public on str) against
    str::is_char_boundary - also run by C07, whose boundary searches stop on the forgiving one"""
    a = P(2)
    KS = "konst_kernel::string::"
    t = boolean
    R = P(1)
    RL = Len(R)
    # predicates (bytes: p1 is &[u8] here)
    rows = [Row([eq(a, RL)], t(True), name="pos==len"),
            Row([lt(RL, a)], t(False), name="pos>len"),
            Row([lt(a, RL), isb(a, R)], t(True), name="pos<len, boundary byte"),
            Row([lt(a, RL), nb(a, R)], t(False), name="pos<len, continuation byte")]
    decide(ctx, "TAB-PRED", prog, KS + "__is_char_boundary_bytes", rows, {bclass(a, R)})
    rows = [Row([le(RL, a)], t(True), name="pos>=len"),
            Row([lt(a, RL), isb(a, R)], t(True), name="pos<len, boundary byte"),
            Row([lt(a, RL), nb(a, R)], t(False), name="pos<len, continuation byte")]
    decide(ctx, "TAB-PRED", prog, KS + "__is_char_boundary_forgiving", rows, {bclass(a, R)})
    rows = [Row([eq(a, LEN)], t(True), name="pos==len"),
            Row([lt(LEN, a)], t(False), name="pos>len"),
            Row([lt(a, LEN), isb(a)], t(True), name="pos<len, boundary byte"),
            Row([lt(a, LEN), nb(a)], t(False), name="pos<len, continuation byte")]
    decide(ctx, "TAB-PRED", prog, KS + "is_char_boundary", rows, {bclass(a)})


def run(ctx):
    ctx.explanation = ("byte class of the boundary test computed exactly over all 256 bytes; decision tables of the boundary "
                       "predicates, fallible getters and clamping variants compared with str::is_char_boundary / str::get / "
                       "documented clamping for every order type of (len, indices) x boundary-ness of each indexed byte")
    for cfg in (["FULL"] if ctx.tier == "quick" else ["FULL", "DEBUG", "MIN"]):
        prog = ctx.program(cfg)
        a, b = P(2), P(3)
        KS = "konst_kernel::string::"
        pred_tables(ctx, prog)

        # fallible getters == str::get
        K = "konst::string::"
        rows = [Row([lt(LEN, a)], none, name="len>str.len"),
                Row([eq(a, LEN)], some(utf8_of(view_is(B, Int(0), a))), name="len==str.len"),
                Row([lt(a, LEN), isb(a)], some(utf8_of(view_is(B, Int(0), a))), name="in range, boundary"),
                Row([lt(a, LEN), nb(a)], none, name="in range, inside char")]
        decide(ctx, "TAB-GET", prog, K + "get_up_to", rows, {bclass(a)})
        rows = [Row([lt(LEN, a)], none, name="from>len"),
                Row([eq(a, LEN)], some(utf8_of(view_is(B, a, Sub(LEN, a)))), name="from==len"),
                Row([lt(a, LEN), isb(a)], some(utf8_of(view_is(B, a, Sub(LEN, a)))), name="in range, boundary"),
                Row([lt(a, LEN), nb(a)], none, name="in range, inside char")]
        decide(ctx, "TAB-GET", prog, K + "get_from", rows, {bclass(a)})
        ok = some(utf8_of(view_is(B, a, Sub(b, a))))
        rows = [Row([lt(b, a)], none, name="start>end"),
                Row([le(a, b), lt(LEN, b)], none, name="end>len"),
                Row([le(a, b), eq(b, LEN), eq(a, LEN)], ok, name="start==end==len"),
                Row([lt(a, LEN), eq(b, LEN), isb(a)], ok, name="end==len, start on boundary"),
                Row([lt(a, LEN), eq(b, LEN), nb(a)], none, name="end==len, start inside char"),
                Row([le(a, b), lt(b, LEN), isb(a), isb(b)], ok, name="both in range, both boundaries"),
                Row([le(a, b), lt(b, LEN), nb(a)], none, name="start inside char"),
                Row([le(a, b), lt(b, LEN), isb(a), nb(b)], none, name="end inside char")]
        decide(ctx, "TAB-GET", prog, K + "get_range", rows, {bclass(a), bclass(b)})

        # clamping variants
        rows = [Row([le(LEN, a)], ret(utf8_of(whole)), name="len>=str.len: whole string"),
                Row([lt(a, LEN), isb(a)], ret(utf8_of(view_is(B, Int(0), a))), name="in range, boundary"),
                Row([lt(a, LEN), nb(a)], panic_names("index", a), kind="panic", name="in range, inside char: panic")]
        decide(ctx, "TAB-CLAMP", prog, KS + "str_up_to", rows, {bclass(a)})
        rows = [Row([lt(LEN, a)], ret(utf8_of(empty)), name="start>len: empty"),
                Row([eq(a, LEN)], ret(utf8_of(view_is(B, a, Sub(LEN, a)))), name="start==len"),
                Row([lt(a, LEN), isb(a)], ret(utf8_of(view_is(B, a, Sub(LEN, a)))), name="in range, boundary"),
                Row([lt(a, LEN), nb(a)], panic_names("start", a), kind="panic", name="in range, inside char: panic")]
        decide(ctx, "TAB-CLAMP", prog, KS + "str_from", rows, {bclass(a)})
        rows = [Row([le(LEN, a)], pair(utf8_of(whole), utf8_of(empty)), name="at>=len: (whole, empty)"),
                Row([lt(a, LEN), isb(a)], pair(utf8_of(view_is(B, Int(0), a)), utf8_of(view_is(B, a, Sub(LEN, a)))), name="in range, boundary"),
                Row([lt(a, LEN), nb(a)], panic_names(None, a), kind="panic", name="in range, inside char: panic")]
        decide(ctx, "TAB-CLAMP", prog, K + "split_at", rows, {bclass(a)})
        # str_range(s, start, end): in-range non-boundary index panics; otherwise the clamped C02 range
        inb = lambda x: [lt(x, LEN), isb(x)]
        rows = [Row([lt(a, LEN), nb(a)], panic_names("start", a), kind="panic", name="start inside char"),
                Row([le(LEN, a), lt(b, LEN), nb(b)], panic_names("end", b), kind="panic", name="start clamped, end inside char"),
                Row([lt(a, LEN), isb(a), lt(b, LEN), nb(b)], panic_names("end", b), kind="panic", name="start ok, end inside char"),
                Row([lt(a, LEN), isb(a), lt(b, LEN), isb(b), le(a, b)], ret(utf8_of(view_is(B, a, Sub(b, a)))), name="both in range"),
                Row([lt(a, LEN), isb(a), lt(b, LEN), isb(b), lt(b, a)], ret(utf8_of(empty)), name="start>end"),
                Row([lt(a, LEN), isb(a), le(LEN, b)], ret(utf8_of(view_is(B, a, Sub(LEN, a)))), name="end clamped"),
                Row([le(LEN, a), le(LEN, b)], ret(utf8_of(empty)), name="both clamped: empty"),
                Row([le(LEN, a), lt(b, LEN), isb(b)], ret(utf8_of(empty)), name="start clamped, end in range")]
        decide(ctx, "TAB-CLAMP", prog, KS + "str_range", rows, {bclass(a), bclass(b)})
    ctx.floor("TAB-PRED", 3)
    ctx.floor("TAB-GET", 3)
    ctx.floor("TAB-CLAMP", 4)
