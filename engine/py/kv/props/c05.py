"""C05 — prefix/suffix tests, stripping and trimming agree with std.

D3-SPACE: the byte set removed by the whitespace trimmers, computed exactly from
the loop's continue condition, must be std's u8::is_ascii_whitespace set.
TAB-STRIP: iteration tables of the strip_prefix / strip_suffix loops (length
pre-check, element compare, both sides advance by one from the right end).
TAB-TRIMM: the two-level trim-matches loops: empty needle returns the input,
partial matches roll back to the snapshot taken at outer-iteration entry, a full
repetition commits and resets the needle.  DLG: the wrappers.
"""
from .. import byteset, sym, table
from ..sym import show
from ..table import Row, lt, le, eq, ne, Int

ASCII_WS = ((0x09, 0x0A), (0x0C, 0x0D), (0x20, 0x20))
# the char -> UTF-8 normalisation is C07's subject; keep it as one opaque step here
CHAR_OPAQUE = {"konst_kernel::chr::encode_utf8", "konst_kernel::chr::Utf8Encoded::as_bytes", "konst_kernel::chr::Utf8Encoded::as_str",
               "konst_kernel::chr::char_formatting::encode_utf8", "konst_kernel::chr::char_formatting::Utf8Encoded::as_bytes",
               "konst_kernel::chr::char_formatting::Utf8Encoded::as_str"}
M = "konst::slice::slice_const_methods::"


def head(L, end):
    return ("cidx", ("deref", L), 0, False) if end == "front" else ("cidx", ("deref", L), 1, True)


def tail(L, end):
    return ("ref", ("subslice", ("deref", L), 1, 0, True)) if end == "front" else ("ref", ("subslice", ("deref", L), 0, 1, True))


def run(ctx):
    ctx.explanation = ("exact byte set of the whitespace trimmers; iteration decision tables of the strip and trim-matches loops "
                       "(pre-check, compare, advance, rollback, reset) compared with the definition of strip_prefix / "
                       "trim_start_matches and their mirrors; delegation rows of the wrappers")
    for cfg in (["FULL"] if ctx.tier == "quick" else ["FULL", "MIN"]):
        prog = ctx.program(cfg)
        spaces(ctx, prog)
        strips(ctx, prog)
        trim_matches(ctx, prog)
        delegations(ctx, prog)
    ctx.floor("D3-SPACE", 2)
    ctx.floor("TAB-STRIP", 2)
    ctx.floor("TAB-TRIMM", 4)
    ctx.floor("DLG", 20)


# ----------------------------------------------------------------------------
def spaces(ctx, prog):
    for name, end in (("bytes_trim_start", "front"), ("bytes_trim_end", "back")):
        b = ctx.anchor(prog, M + name)
        if b is None:
            continue
        hs = list(b.loops())
        if len(hs) != 1:
            ctx.violation("D3-SPACE", "%s|%s" % (prog.config, name), "%s: expected exactly one loop" % name, b.file())
            continue
        paths = sym.loop_relation(b, hs[0], prog)
        this = None
        cont, stop = set(), set()
        ok_shape = True
        for p in paths:
            hb = None
            vals = None
            for c in p.conds:
                if c[0] in ("in", "notin") and c[1][0] == "cidx":
                    hb = c[1]
            if p.kind == "cut":
                # which local is the cursor: the one replaced by its tail
                for l, v in p.env.items():
                    if v[0] == "ref" and v[1][0] == "subslice" and v[1][1] == ("deref", ("L", l)):
                        this = l
                        if v != tail(("L", l), end):
                            ctx.violation("D3-SPACE", "%s|%s|advance" % (prog.config, name),
                                          "%s drops %s, expected exactly one byte from the %s" % (name, show(v), end), b.file())
                if hb is None:
                    ok_shape = False
                    continue
                if hb != head(("L", this if this is not None else 1), end):
                    ctx.violation("D3-SPACE", "%s|%s|which" % (prog.config, name), "%s tests %s, expected the %s byte" % (name, show(hb), end), b.file())
                s = set(range(256))
                for c in p.conds:
                    s &= _byte_set(c, hb)
                cont |= s
            elif p.kind == "return":
                if p.value[0] != "L":
                    ctx.violation("D3-SPACE", "%s|%s|ret" % (prog.config, name), "%s returns %s, expected the cursor" % (name, show(p.value)), b.file())
        got = byteset.to_ranges(cont)
        if got != ASCII_WS:
            ctx.violation("D3-SPACE", "%s|%s|set" % (prog.config, name),
                          "%s removes bytes {%s}; u8::is_ascii_whitespace / trim_ascii removes {%s}" % (
                              name, byteset.show_ranges(got), byteset.show_ranges(ASCII_WS)), b.file())
        ctx.instance("D3-SPACE", "%s|%s" % (prog.config, name), sample={"fn": name, "removed": byteset.show_ranges(got)})


def _byte_set(c, hole):
    r = byteset.atom_to_bool(c)
    if r is None or r[0] is None:
        return set(range(256))
    t, pol = r
    hs = byteset.holes(t)
    if hs != [hole]:
        return set(range(256))
    try:
        return {v for v in range(256) if byteset.ev(t, hole, v) is pol}
    except byteset.Opaque:
        return set(range(256))


# ----------------------------------------------------------------------------
def carried_pair(paths):
    """(left cursor local, right cursor local): the two locals replaced by their own tails on the back edge"""
    cur = []
    for p in paths:
        if p.kind in ("back", "cut"):
            for l, v in sorted(p.env.items()):
                if v[0] == "ref" and v[1][0] == "subslice" and v[1][1] == ("deref", ("L", l)) and l not in cur:
                    cur.append(l)
    return cur


def strips(ctx, prog):
    for name, end in (("__bytes_strip_prefix", "front"), ("__bytes_strip_suffix", "back")):
        b = ctx.anchor(prog, M + name)
        if b is None:
            continue
        paths = sym.through_loops(b, prog, keep_back=True)
        cur = carried_pair(paths)
        if len(cur) != 2:
            ctx.violation("TAB-STRIP", "%s|%s" % (prog.config, name), "%s: cannot find the two cursors" % name, b.file())
            continue
        L, R = ("L", cur[0]), ("L", cur[1])
        A, B = ("len", ("p", 1)), ("len", ("p", 2))
        la, lb = ("len", L), ("len", R)
        hl, hr = head(L, end), head(R, end)

        def none(path, case):
            return None if path.value == table.NONE else "expected None, got %s" % show(path.value)

        def some_left(path, case):
            return None if path.value == table.Some(L) else "expected Some(remaining left), got %s" % show(path.value)

        def advance(path, case):
            if path.env.get(cur[0]) != tail(L, end) or path.env.get(cur[1]) != tail(R, end):
                return "both cursors must drop exactly one byte from the %s: left=%s right=%s" % (
                    end, show(path.env.get(cur[0], L)), show(path.env.get(cur[1], R)))
            return None
        rows = [Row([lt(A, B)], none, name="pattern longer than input"),
                Row([le(B, A), le(Int(1), la), le(Int(1), lb), eq(hl, hr)], advance, kind="back", name="bytes equal: advance both"),
                Row([le(B, A), le(Int(1), la), le(Int(1), lb), ne(hl, hr)], none, name="bytes differ"),
                Row([le(B, A), lt(lb, Int(1))], some_left, name="pattern exhausted")]
        # loop invariant len(left) >= len(pattern): holds at entry (pre-check) and both shrink by one per iteration
        cons = [le(lb, la)]
        init_ok = True
        for p in paths:
            for e in p.events:
                if e[0] == "loop":
                    init = dict(e[2])
                    if init.get(cur[0], ("p", 1)) != ("p", 1) or init.get(cur[1], ("p", 2)) != ("p", 2):
                        init_ok = False
        if not init_ok:
            ctx.violation("TAB-STRIP", "%s|%s|init" % (prog.config, name), "%s: loop does not start from (input, pattern)" % name, b.file())
        try:
            mism, n, dec = table.compare(paths, rows, constraints=cons)
        except table.Undecided as e:
            ctx.violation("TAB-STRIP", "%s|%s" % (prog.config, name), "undecided: %s" % e, b.file())
            continue
        ctx.instance("TAB-STRIP", "%s|%s" % (prog.config, name), nontrivial=dec >= 2, sample={"fn": name, "cases": n, "decided": dec})
        for m in mism[:3]:
            ctx.violation("TAB-STRIP", "%s|%s|%s" % (prog.config, name, m.row.name), "%s: %s" % (name, m), b.file())


# ----------------------------------------------------------------------------
def trim_matches(ctx, prog):
    for name, end in (("__bytes_trim_start_matches", "front"), ("__bytes_trim_end_matches", "back")):
        b = ctx.anchor(prog, M + name)
        if b is None:
            continue
        loops = b.loops()
        if len(loops) != 2:
            ctx.violation("TAB-TRIMM", "%s|%s" % (prog.config, name), "%s: expected an outer and an inner loop" % name, b.file())
            continue
        outer, inner = sorted(loops, key=lambda h: -len(loops[h]))
        # entry: empty needle returns the input
        ent = sym.paths_of(b, prog)
        A2 = ("len", ("p", 2))
        rows = [Row([eq(A2, Int(0))], lambda path, case: None if path.value == ("p", 1) else "empty pattern must return the input unchanged, got %s" % show(path.value), name="empty pattern"),
                Row([ne(A2, Int(0)), table.le(A2, ("len", ("p", 1)))], None, kind="cut", name="non-empty pattern: enter the loop"),
                # a pattern longer than the input cannot match even once: entering the loop or returning the input at once are the same
                Row([ne(A2, Int(0)), table.lt(("len", ("p", 1)), A2)],
                    lambda path, case: None if path.kind == "cut" or (path.kind == "return" and path.value == ("p", 1)) else
                    "a pattern longer than the input must leave the input unchanged, got %s" % (show(path.value) if isinstance(path.value, tuple) else path.value),
                    kind="any", name="pattern longer than the input")]
        _cmp(ctx, "TAB-TRIMM", prog, name + "|entry", b, ent, rows)
        op = sym.loop_relation(b, outer, prog)
        ip = sym.loop_relation(b, inner, prog)
        cur = carried_pair(op + ip)
        if len(cur) != 2:
            ctx.violation("TAB-TRIMM", "%s|%s" % (prog.config, name), "%s: cannot find the two cursors" % name, b.file())
            continue
        T, Mm = ("L", cur[0]), ("L", cur[1])
        # snapshot local: assigned the cursor at outer-iteration entry
        snap = None
        for p in op:
            for l, v in p.env.items():
                if v == T and l != cur[0] and b.local_name(l):
                    snap = l
        if snap is None:
            ctx.violation("TAB-TRIMM", "%s|%s|snapshot" % (prog.config, name), "%s: no snapshot of the cursor is taken at outer-iteration entry" % name, b.file())
            continue
        SN = ("L", snap)
        lt_, lm = ("len", T), ("len", Mm)
        ht, hm = head(T, end), head(Mm, end)

        def ret(term, what):
            return lambda path, case: None if path.value == term else "expected to return %s (%s), got %s" % (show(term), what, show(path.value))

        def adv_to_inner(path, case):
            if path.value != inner:
                return "expected to enter the inner loop"
            if path.env.get(cur[0]) != tail(T, end) or path.env.get(cur[1]) != tail(Mm, end):
                return "first byte matched: both cursors must advance by one"
            if path.env.get(snap) != T:
                return "snapshot must be the cursor at outer-iteration entry"
            return None
        rows = [Row([lt(lt_, Int(1))], ret(T, "input exhausted"), name="outer: input exhausted"),
                Row([le(Int(1), lt_), le(Int(1), lm), ne(ht, hm)], ret(T, "first byte differs"), name="outer: first byte differs"),
                Row([le(Int(1), lt_), le(Int(1), lm), eq(ht, hm)], adv_to_inner, kind="cut", name="outer: first byte matches")]
        _cmp(ctx, "TAB-TRIMM", prog, name + "|outer", b, op, rows, constraints=[le(Int(1), lm)])

        def adv(path, case):
            if path.value != inner:
                return "expected to continue the inner loop"
            if path.env.get(cur[0]) != tail(T, end) or path.env.get(cur[1]) != tail(Mm, end):
                return "both cursors must advance by one"
            return None

        def commit(path, case):
            if path.value != outer:
                return "expected to go back to the outer loop"
            if path.env.get(cur[1]) != ("p", 2):
                return "after a whole repetition the needle cursor must be reset to the whole needle, got %s" % show(path.env.get(cur[1], Mm))
            if cur[0] in path.env and path.env[cur[0]] != T:
                return "commit must keep the cursor where the repetition ended"
            return None
        rows = [Row([lt(lt_, Int(1)), le(Int(1), lm)], ret(SN, "rollback: input ends inside a repetition"), name="inner: input ends mid-pattern"),
                Row([le(Int(1), lt_), le(Int(1), lm), eq(ht, hm)], adv, kind="cut", name="inner: byte matches"),
                Row([le(Int(1), lt_), le(Int(1), lm), ne(ht, hm)], ret(SN, "rollback: mismatch inside a repetition"), name="inner: mismatch"),
                Row([lt(lm, Int(1))], commit, kind="cut", name="inner: repetition complete")]
        _cmp(ctx, "TAB-TRIMM", prog, name + "|inner", b, ip, rows)


def _cmp(ctx, rule, prog, name, b, paths, rows, **kw):
    try:
        mism, n, dec = table.compare(paths, rows, **kw)
    except table.Undecided as e:
        ctx.violation(rule, "%s|%s" % (prog.config, name), "undecided: %s" % e, b.file())
        return
    ctx.instance(rule, "%s|%s" % (prog.config, name), nontrivial=dec >= 2, sample={"what": name, "cases": n, "decided": dec})
    for m in mism[:3]:
        ctx.violation(rule, "%s|%s|%s" % (prog.config, name, m.row.name), "%s: %s" % (name, m), b.file())


# ----------------------------------------------------------------------------
def norm_bytes(i):
    """argument i normalised to bytes: PatternNorm::new(p_i).as_bytes()  (slice / string pattern)"""
    return None


def single_call(paths):
    """all uninterpreted repo calls made on any path, as terms"""
    out = []
    for p in paths:
        for e in p.events:
            if e[0] == "call" and e[2] not in out:
                out.append(table.strip_gargs(e[2]))
    return out


def delegations(ctx, prog):
    S = "konst::string::"
    BP = "konst::slice::bytes_pattern::"
    rows = [
        # (function, callee, result kind)
        (M + "__bytes_start_with", M + "__bytes_strip_prefix", "is_some"),
        (M + "__bytes_end_with", M + "__bytes_strip_suffix", "is_some"),
        (M + "bytes_start_with", M + "__bytes_strip_prefix", "is_some"),
        (M + "bytes_end_with", M + "__bytes_strip_suffix", "is_some"),
        (M + "bytes_strip_prefix", M + "__bytes_strip_prefix", "same"),
        (M + "bytes_strip_suffix", M + "__bytes_strip_suffix", "same"),
        (M + "bytes_trim_matches", M + "__bytes_trim_end_matches", "same"),
        (M + "bytes_trim_start_matches", M + "__bytes_trim_start_matches", "same"),
        (M + "bytes_trim_end_matches", M + "__bytes_trim_end_matches", "same"),
        (S + "starts_with", M + "__bytes_strip_prefix", "is_some"),
        (S + "ends_with", M + "__bytes_strip_suffix", "is_some"),
        (S + "strip_prefix", M + "__bytes_strip_prefix", "opt_str"),
        (S + "strip_suffix", M + "__bytes_strip_suffix", "opt_str"),
        (S + "trim", M + "bytes_trim_start", "str"),
        (S + "trim_start", M + "bytes_trim_start", "str"),
        (S + "trim_end", M + "bytes_trim_end", "str"),
        (S + "trim_matches", M + "__bytes_trim_end_matches", "str"),
        (S + "trim_start_matches", M + "__bytes_trim_start_matches", "str"),
        (S + "trim_end_matches", M + "__bytes_trim_end_matches", "str"),
    ]
    opaque = {M + x for x in ("__bytes_strip_prefix", "__bytes_strip_suffix", "__bytes_trim_start_matches",
                              "__bytes_trim_end_matches", "bytes_trim_start", "bytes_trim_end")}
    for fn, callee, kind in rows:
        b = ctx.anchor(prog, fn)
        if b is None:
            continue
        short = fn.split("::")[-1]
        try:
            paths = sym.split_bool_returns(sym.paths_of(b, prog, inline_all_loopfree=True, opaque=opaque | CHAR_OPAQUE | {
                "konst_kernel::string::__from_u8_subslice_of_str"}))
        except sym.TooManyPaths:
            ctx.violation("DLG", "%s|%s" % (prog.config, short), "too many paths", b.file())
            continue
        is_str = fn.startswith(S)
        a0 = ("as_bytes", ("p", 1)) if is_str else ("p", 1)
        msg = None
        npaths = 0
        for path in paths:
            if path.kind != "return":
                continue
            npaths += 1
            calls = single_call([path])
            final = [c for c in calls if c[1] == callee]
            if len(final) != 1:
                msg = "expected exactly one call to %s on every path, found %s" % (callee.split("::")[-1], [c[1].split("::")[-1] for c in calls])
                break
            c = final[0]
            inp, pat = c[3], c[4] if len(c) > 4 else None
            chain = [c[1].split("::")[-1]]
            while inp[0] == "call" and inp[1] in opaque:
                chain.append(inp[1].split("::")[-1])
                if len(inp) > 4 and pat is not None and inp[4] != pat:
                    msg = "the two trims use different patterns"
                inp = inp[3]
            if inp != a0:
                msg = "input of %s is %s, expected the first argument" % (chain, show(inp))
            want_chain = {"trim": {"bytes_trim_start", "bytes_trim_end"}, "bytes_trim_matches": {"__bytes_trim_end_matches", "__bytes_trim_start_matches"},
                          "trim_matches": {"__bytes_trim_end_matches", "__bytes_trim_start_matches"}}.get(short)
            if want_chain is not None:
                if set(chain) != want_chain or len(chain) != 2:
                    msg = msg or "%s must trim both ends, found %s" % (short, chain)
                if short.endswith("trim_matches") and chain != ["__bytes_trim_end_matches", "__bytes_trim_start_matches"]:
                    msg = msg or "trim_matches trims the start first and then the end; found order %s" % list(reversed(chain))
            elif len(chain) != 1:
                msg = msg or "unexpected composition %s" % chain
            if pat is not None and not msg and not _is_norm_pattern(pat, 2):
                msg = "pattern argument is %s, expected the normalised second argument" % show(pat)
            if not msg:
                msg = _result_map([path], c, kind)
            if msg:
                break
        if npaths == 0:
            msg = "no returning path"
        if msg:
            ctx.violation("DLG", "%s|%s" % (prog.config, short), "%s: %s" % (fn, msg), b.file())
        ctx.instance("DLG", "%s|%s" % (prog.config, short), sample={"fn": short, "delegates_to": callee.split("::")[-1], "result": kind})
    # bytes_trim = trim_start(trim_end(x))
    b = ctx.anchor(prog, M + "bytes_trim")
    if b is not None:
        ps = sym.paths_of(b, prog)
        want = {("call", M + "bytes_trim_start", None, ("call", M + "bytes_trim_end", None, ("p", 1))),
                ("call", M + "bytes_trim_end", None, ("call", M + "bytes_trim_start", None, ("p", 1)))}
        if len(ps) != 1 or table.strip_gargs(ps[0].value) not in want:
            ctx.violation("DLG", "%s|bytes_trim" % prog.config, "bytes_trim is %s, expected trim_start(trim_end(x))" % (show(ps[0].value) if ps else "?"), b.file())
        ctx.instance("DLG", "%s|bytes_trim" % prog.config)


def _is_norm_pattern(t, param):
    """the pattern argument normalised to bytes: &str -> as_bytes, char -> encode_utf8(..).as_bytes(), [u8]/[u8;N] -> itself"""
    P = ("p", param)
    D = ("deref", P)
    ok = {P, ("as_bytes", P), D, ("as_bytes", D), ("cast", "coerce:Unsize", "&[u8]", D),
          ("call", "konst_kernel::chr::Utf8Encoded::as_bytes", None, ("ref", ("call", "konst_kernel::chr::encode_utf8", None, D))), ("cast", "coerce:Unsize", "&[u8]", P),
          ("call", "konst_kernel::chr::Utf8Encoded::as_bytes", None, ("ref", ("call", "konst_kernel::chr::encode_utf8", None, P))),
          ("call", "konst_kernel::chr::char_formatting::Utf8Encoded::as_bytes", None, ("ref", ("call", "konst_kernel::chr::char_formatting::encode_utf8", None, P)))}
    return table.strip_gargs(t) in ok


def _result_map(paths, c, kind):
    for p in paths:
        if p.kind != "return":
            continue
        v = table.strip_gargs(p.value)
        conds = [table.norm_atom(x) for x in p.conds]
        if kind == "is_some":
            is_some = ("is", c, 1) in conds or ("notin_variants", c, (0,)) in conds
            is_none = ("is", c, 0) in conds or ("notin_variants", c, (1,)) in conds
            if is_some and v != ("bool", True):
                return "Some(..) must map to true"
            if is_none and v != ("bool", False):
                return "None must map to false"
            if not is_some and not is_none:
                return "result does not depend on the Option returned by the callee"
        elif kind == "same":
            if v != c:
                return "result is %s, expected the callee's result unchanged" % show(v)
        elif kind == "str":
            if v != ("call", "konst_kernel::string::__from_u8_subslice_of_str", None, c):
                return "result is %s, expected the callee's bytes as str" % show(v)
        elif kind == "opt_str":
            if ("is", c, 1) in conds:
                want = table.Some(("call", "konst_kernel::string::__from_u8_subslice_of_str", None, ("vfield", c, 1, 0)))
                if v != want:
                    return "Some payload is %s, expected the callee's payload as str" % show(v)
            elif ("is", c, 0) in conds:
                if v != table.NONE:
                    return "None must map to None"
            else:
                return "result does not depend on the Option returned by the callee"
    return None
