"""C17 — misused macros are rejected at compile time instead of compiling to unsound code.

REJ/ACC: a generated family of programs, each reject paired with an accept twin that differs only in the
offending element; every program is compiled by the real (stable) rustc against the current konst.
A reject must fail *for the guard's reason* (error code / message / guard macro in the expansion
back-trace); a twin must compile.  INV: every `compile_error!` arm of the six anchored macro files is
either hit by a reject program of the family (matched by message) or listed in DEFENSIVE with the reason.
"""
import itertools
import random
import re

from .. import facts, macrolint

HEAD = "#![allow(unused, dead_code, unreachable_code)]\n"


class Prog:
    def __init__(self, guard, shape, reject, accept, expect):
        self.guard = guard      # guard name
        self.shape = shape      # syntactic shape / variant label
        self.reject = HEAD + reject
        self.accept = HEAD + accept
        self.expect = expect    # list of alternatives: dict(code=?, msg=?, macro=?, label=?)


def matches(err, exp):
    if "code" in exp and err["code"] != exp["code"]:
        return False
    if "msg" in exp and exp["msg"] not in err["message"]:
        return False
    if "macro" in exp and not any(exp["macro"] in m for m in err["macros"]):
        return False
    if "label" in exp and not any(exp["label"] in l for l in err["labels"]) and exp["label"] not in err["message"]:
        return False
    return True


# ------------------------------------------------------------------ destructure ----
def struct_defs(kind, drop, generic):
    g = "<T>" if generic else ""
    if kind == "braced":
        s = "pub struct S%s { pub a: %s, pub b: String }\n" % (g, "T" if generic else "u32")
    else:
        s = "pub struct S%s(pub %s, pub String);\n" % (g, "T" if generic else "u32")
    if drop:
        s += "impl%s Drop for S%s { fn drop(&mut self) {} }\n" % (g, g)
    return s


def destructure_family(tier):
    out = []
    # A. Drop types
    for kind, generic, form, annot in itertools.product(("braced", "tuple"), (False, True), ("path", "type"), (False, True)):
        if tier == "quick" and generic and form == "type" and annot:
            continue
        gty = "<T>" if generic else ""
        ty = "S" + gty
        if form == "path":
            head = "S"
        else:
            head = "S::<T>" if generic else "self::S"
        pat = "%s {a, b}" % head if kind == "braced" else ("%s (a, b)" % head if form == "path" else "%s, (a, b)" % head)
        ann = (": " + ty) if annot else ""
        fn = "pub fn f%s(v: %s) -> (%s, String) { konst::destructure!{%s%s = v} (a, b) }\n" % (gty, ty, "T" if generic else "u32", pat, ann)
        out.append(Prog("drop-type", "%s/%s/%s/%s" % (kind, "generic" if generic else "concrete", form, "annotated" if annot else "plain"),
                        struct_defs(kind, True, generic) + fn, struct_defs(kind, False, generic) + fn,
                        [dict(code="E0308", label="__DoesNotImplDrop"), dict(code="E0308", macro="__destructure_struct")]))
    # B. references
    shapes = {
        "braced": ("pub struct S { pub a: u32, pub b: String }\n", "S {a, b}", "S", "S { a: 1, b: String::new() }"),
        "tuple-struct": ("pub struct S(pub u32, pub String);\n", "S (a, b)", "S", "S(1, String::new())"),
        "tuple": ("", "(a, b)", "(u32, String)", "(1, String::new())"),
        "array": ("", "[a, b]", "[String; 2]", "[String::new(), String::new()]"),
    }
    # generic structs reach the macro's "type form" arms (`$struct_path:path`), which have their own is-not-a-reference check
    shapes["braced/type-form"] = ("pub struct S<T> { pub a: T, pub b: String }\n", "S<u32> {a, b}", "S<u32>", "")
    shapes["braced/turbofish"] = ("pub struct S<T> { pub a: T, pub b: String }\n", "S::<u32> {a, b}", "S<u32>", "")
    shapes["braced/type-form-comma"] = ("pub struct S<T> { pub a: T, pub b: String }\n", "S<u32>, {a, b}", "S<u32>", "")
    shapes["tuple-struct/type-form"] = ("pub struct S<T>(pub T, pub String);\n", "S<u32>, (a, b)", "S<u32>", "")
    shapes["tuple-struct/turbofish"] = ("pub struct S<T>(pub T, pub String);\n", "S::<u32>, (a, b)", "S<u32>", "")
    shapes["tuple-struct/self-path"] = ("pub struct S(pub u32, pub String);\n", "self::S (a, b)", "S", "")
    # one-element aggregates: `(a,)` / `S(a)` / `S {a}` / `[a]` take their own paths through the macro's repetitions (`$(x),*` vs `$(x,)*`)
    shapes["tuple/arity1"] = ("", "(a,)", "(String,)", "")
    shapes["tuple-struct/arity1"] = ("pub struct S(pub String);\n", "S (a)", "S", "")
    shapes["braced/arity1"] = ("pub struct S { pub a: String }\n", "S {a}", "S", "")
    shapes["array/arity1"] = ("", "[a]", "[String; 1]", "")
    shapes["tuple/arity3"] = ("", "(a, b, c)", "(u32, String, u8)", "")
    for shape, (defs, pat, ty, val) in shapes.items():
        for annot in (False, True):
            for ref in ("&", "&mut "):
                rej = defs + "pub fn f(v: %s%s) { konst::destructure!{%s%s = v} }\n" % (ref, ty, pat, (": " + ref + ty) if annot else "")
                acc = defs + "pub fn f(v: %s) { konst::destructure!{%s%s = v} }\n" % (ty, pat, (": " + ty) if annot else "")
                out.append(Prog("reference", "%s/%s%s" % (shape, "annotated" if annot else "plain", "" if ref == "&" else "/mut"), rej, acc,
                                [dict(code="E0308"), dict(code="E0529"), dict(code="E0614"), dict(code="E0507"), dict(code="E0596"),
                                 dict(msg="mismatched types")]))
    # C. wrong field / element count
    counts = [
        ("braced", "pub struct S { pub a: u32, pub b: String }\n", "S", "S {a}", "S {a, b}", [dict(msg="pattern requires `..` due to inaccessible fields"), dict(code="E0027"), dict(msg="does not mention field")]),
        ("tuple-struct", "pub struct S(pub u32, pub String);\n", "S", "S (a)", "S (a, b)", [dict(code="E0023"), dict(msg="pattern requires `..`"), dict(code="E0027"), dict(code="E0308")]),
        ("tuple-fewer", "", "(u32, String)", "(a,)", "(a, b)", [dict(code="E0308")]),
        ("tuple-more", "", "(u32, String)", "(a, b, c)", "(a, b)", [dict(code="E0308")]),
        ("array-fewer", "", "[String; 3]", "[a, b]", "[a, b, c]", [dict(code="E0527"), dict(code="E0308")]),
        ("array-more", "", "[String; 2]", "[a, b, c]", "[a, b]", [dict(code="E0527"), dict(code="E0308")]),
    ]
    counts += [
        # the annotation names a longer tuple than the pattern (the value is one: elements would leak)
        ("tuple1-annotated-longer", "", "(String, u32)", "(a,): (String, u32)", "(a, b): (String, u32)", [dict(code="E0308")]),
        ("tuple2-annotated-longer", "", "(String, u32, u8)", "(a, b): (String, u32, u8)", "(a, b, c): (String, u32, u8)", [dict(code="E0308")]),
        ("tuple1-fewer", "", "(String, u32)", "(a,)", "(a, b)", [dict(code="E0308")]),
        ("array1-fewer", "", "[String; 2]", "[a]", "[a, b]", [dict(code="E0527"), dict(code="E0308")]),
        ("tuple-struct1-fewer", "pub struct S(pub u32, pub String);\n", "S", "S (a,)", "S (a, b)", [dict(code="E0023"), dict(msg="pattern requires `..`"), dict(code="E0027"), dict(code="E0308")]),
        # a tuple pattern with an annotation that is not a tuple at all (a tuple struct: its Drop impl / privacy would be bypassed)
        ("tuple1-annotated-struct", "pub struct S(pub String);\n", "S", "(a,): S", "S (a)", [dict(code="E0308")]),
    ]
    for shape, defs, ty, bad, good, exp in counts:
        out.append(Prog("field-count", shape, defs + "pub fn f(v: %s) { konst::destructure!{%s = v} }\n" % (ty, bad),
                        defs + "pub fn f(v: %s) { konst::destructure!{%s = v} }\n" % (ty, good), exp))
    # D. `..` rest patterns
    rests = [
        ("braced", "pub struct S { pub a: u32, pub b: String }\n", "S", "S {a, ..}", "S {a, b}", "top-level struct patterns"),
        ("tuple-struct", "pub struct S(pub u32, pub String);\n", "S", "S (a, ..)", "S (a, b)", "top-level tuple struct patterns"),
        ("tuple", "", "(u32, String)", "(a, ..)", "(a, b)", "top-level tuple patterns"),
    ]
    for shape, defs, ty, bad, good, msg in rests:
        out.append(Prog("rest-pattern", shape, defs + "pub fn f(v: %s) { konst::destructure!{%s = v} }\n" % (ty, bad),
                        defs + "pub fn f(v: %s) { konst::destructure!{%s = v} }\n" % (ty, good), [dict(msg=msg)]))
    return out


# ------------------------------------------------------------------ iterator DSL ----
REV = {"rev": ("rev()", None), "rfind": ("rfind(|x| **x == 1)", "consumer"), "rfold": ("rfold(0u8, |a, x| a + *x)", "consumer"),
       "rposition": ("rposition(|x| *x == 1)", "consumer")}


def dsl_family(tier):
    out = []

    def ev(chain):
        return "pub fn f(s: &[u8]) { let _ = konst::iter::eval!(s, %s); }\n" % chain
    # E. double reversal: rev() followed by any reverser
    for name, (call, kind) in REV.items():
        if name == "rev":
            rej, acc = ev("rev(), rev(), count()"), ev("rev(), count()")
        else:
            rej, acc = ev("rev(), " + call), ev(call)
        out.append(Prog("double-reversal", "rev+" + name, rej, acc, [dict(msg="cannot call two iterator-reversing methods")]))
    out.append(Prog("double-reversal", "for_each", "pub fn f(s: &[u8]) { konst::iter::for_each!{x in s, rev(), rev() => { let _ = x; }} }\n",
                    "pub fn f(s: &[u8]) { konst::iter::for_each!{x in s, rev() => { let _ = x; }} }\n", [dict(msg="cannot call two iterator-reversing methods")]))
    out.append(Prog("double-reversal", "collect_const", "pub const A: [u8; 2] = konst::iter::collect_const!(u8 => &[1u8, 2], rev(), rev(), copied());\n",
                    "pub const A: [u8; 2] = konst::iter::collect_const!(u8 => &[1u8, 2], rev(), copied());\n", [dict(msg="cannot call two iterator-reversing methods")]))
    # E'. the second reverser separated from the first by another adapter: the direction state is threaded through every adapter's
    #     expansion arm (some arms rebuild it), and each must still carry "already reversed" to the guard.  Source: a slice of slices,
    #     so that flatten/flat_map type-check.
    def ev3(chain):
        return "pub fn f(s: &[&[u8]]) { let _ = konst::iter::eval!(s, %s); }\n" % chain
    MIDS = [("map", "map(|x| x)"), ("filter", "filter(|_| true)"), ("filter_map", "filter_map(|x| Some(x))"), ("copied", "copied()"),
            ("enumerate", "enumerate()"), ("take", "take(3)"), ("skip", "skip(1)"), ("take_while", "take_while(|_| true)"),
            ("skip_while", "skip_while(|_| false)"), ("zip", "zip(0usize..10)"), ("flatten", "flatten()"), ("flat_map", "flat_map(|x| *x)")]
    for mname, mid in MIDS:
        for name, (call, kind) in REV.items():
            if name != "rev" and tier == "quick" and mname not in ("enumerate", "take", "zip", "flatten"):
                continue
            if name == "rev":
                rej, acc = ev3("rev(), %s, rev(), count()" % mid), ev3("rev(), %s, count()" % mid)
            else:
                c = {"rfind": "rfind(|_| true)", "rfold": "rfold(0usize, |a, _| a + 1)", "rposition": "rposition(|_| true)"}[name]
                rej, acc = ev3("rev(), %s, %s" % (mid, c)), ev3("rev(), %s, count()" % mid)
            out.append(Prog("double-reversal", "rev,%s,%s" % (mname, name), rej, acc, [dict(msg="cannot call two iterator-reversing methods")]))
        out.append(Prog("double-reversal", "for_each/rev,%s,rev" % mname,
                        "pub fn f(s: &[&[u8]]) { konst::iter::for_each!{x in s, rev(), %s, rev() => { let _ = x; }} }\n" % mid,
                        "pub fn f(s: &[&[u8]]) { konst::iter::for_each!{x in s, rev(), %s => { let _ = x; }} }\n" % mid,
                        [dict(msg="cannot call two iterator-reversing methods")]))
    # F. unknown methods
    for m in ("step_by(2)", "sum()", "last()", "peekable()"):
        out.append(Prog("unknown-method", "eval/" + m.split("(")[0], ev(m + (", count()" if m.startswith(("step_by", "peekable")) else "")), ev("count()"),
                        [dict(msg="nsupported iterator method")]))
    out.append(Prog("unknown-method", "for_each/step_by", "pub fn f(s: &[u8]) { konst::iter::for_each!{x in s, step_by(2) => { let _ = x; }} }\n",
                    "pub fn f(s: &[u8]) { konst::iter::for_each!{x in s, skip(2) => { let _ = x; }} }\n", [dict(msg="nsupported iterator method")]))
    out.append(Prog("unknown-method", "collect_const/step_by", "pub const A: [u8; 1] = konst::iter::collect_const!(u8 => &[1u8, 2], step_by(2), copied());\n",
                    "pub const A: [u8; 1] = konst::iter::collect_const!(u8 => &[1u8, 2], skip(1), copied());\n", [dict(msg="nsupported iterator method")]))
    out.append(Prog("consumer-in-adapter-macro", "for_each/count", "pub fn f(s: &[u8]) { konst::iter::for_each!{x in s, count() => { let _ = x; }} }\n",
                    "pub fn f(s: &[u8]) { konst::iter::for_each!{x in s, copied() => { let _ = x; }} }\n", [dict(msg="method cannot be called in this macro")]))
    # F'. the same guards with the offending method at other positions of the chain: the macros rebuild their internal state after
    #     some adapters (flat_map/flatten open a nested loop, zip adds a second iterator, ...), and each rebuilt state must still
    #     reach the guard.  Source: a slice of slices, so that every prefix type-checks.
    PREFIXES = [("after-map", "map(|x| x), "), ("after-flatten", "flatten(), "), ("after-flat_map", "flat_map(|x| *x), "),
                ("after-zip", "zip(0usize..), "), ("after-take_while", "take_while(|_| true), "), ("after-skip", "skip(1), "),
                ("after-enumerate", "enumerate(), "), ("after-filter", "filter(|_| true), ")]
    UNK = [dict(msg="nsupported iterator method"), dict(msg="method cannot be called in this macro"), dict(msg="no rules expected")]
    for pname, pre in PREFIXES:
        def ev2(chain):
            return "pub fn f(s: &[&[u8]]) { let _ = konst::iter::eval!(s, %s); }\n" % chain

        def fe2(chain, form):
            if form == "block":
                return "pub fn f(s: &[&[u8]]) { konst::iter::for_each!{x in s, %s => { let _ = x; }} }\n" % chain
            if form == "paren;":
                return "pub fn f(s: &[&[u8]]) { konst::iter::for_each!(x in s, %s => { let _ = x; }); }\n" % chain
            return "pub fn f(s: &[&[u8]]) { let _ = konst::iter::for_each!{x in s, %s => { let _ = x; }}; }\n" % chain
        out.append(Prog("unknown-method", "eval/%s/step_by" % pname, ev2(pre + "step_by(2), count()"), ev2(pre + "count()"), UNK))
        out.append(Prog("args-to-argless", "eval/%s/enumerate(1)" % pname, ev2(pre + "enumerate(1), count()"), ev2(pre + "enumerate(), count()"),
                        [dict(msg="does not take arguments")]))
        if "rev" not in pre and "zip" not in pre and "take_while" not in pre and "skip" not in pre and "flat" not in pre:
            out.append(Prog("double-reversal", "eval/%s/rev,rev" % pname, ev2(pre + "rev(), rev(), count()"), ev2(pre + "rev(), count()"),
                            [dict(msg="cannot call two iterator-reversing methods")]))
        for form in ("block", "paren;", "let"):
            good = fe2(pre.rstrip(", "), form)
            out.append(Prog("unknown-method", "for_each[%s]/%s/step_by" % (form, pname), fe2(pre + "step_by(2)", form), good, UNK))
            for cons in ("count()", "any(|_| true)", "for_each(|_| ())", "next()", "fold(0u8, |a, _| a)"):
                out.append(Prog("consumer-in-adapter-macro", "for_each[%s]/%s/%s" % (form, pname, cons.split("(")[0]),
                                fe2(pre + cons, form), good, UNK + [dict(code="E0308")]))
    for pname, pre in (("after-flatten", "flatten(), "), ("after-map", "map(|x| x), ")):
        cc = "const S: &[&[u8]] = &[&[1, 2]];\npub const A: [u8; 2] = konst::iter::collect_const!(u8 => S, %scopied());\n"
        out.append(Prog("unknown-method", "collect_const/%s/step_by" % pname, cc % ("flatten(), step_by(2), " if "flatten" in pre else "flatten(), map(|x| x), step_by(2), "),
                        cc % ("flatten(), " if "flatten" in pre else "flatten(), map(|x| x), "), UNK))
        out.append(Prog("consumer-in-adapter-macro", "collect_const/%s/count" % pname, cc % ("flatten(), count(), " if "flatten" in pre else "flatten(), map(|x| x), count(), "),
                        cc % ("flatten(), " if "flatten" in pre else "flatten(), map(|x| x), "), UNK))
    # G. arguments to argument-less methods
    for m, tail_ in (("rev", ", count()"), ("copied", ", count()"), ("enumerate", ", count()"), ("flatten", None), ("count", ""), ("next", "")):
        if m == "flatten":
            rej = "pub fn f(s: &[&[u8]]) { let _ = konst::iter::eval!(s, flatten(1), count()); }\n"
            acc = "pub fn f(s: &[&[u8]]) { let _ = konst::iter::eval!(s, flatten(), count()); }\n"
        else:
            rej, acc = ev("%s(1)%s" % (m, tail_)), ev("%s()%s" % (m, tail_))
        out.append(Prog("args-to-argless", m, rej, acc, [dict(msg="does not take arguments")]))
    # secondary argument-shape guards (inventory)
    out.append(Prog("missing-args", "take()", ev("take(), count()"), ev("take(1), count()"), [dict(msg="method call expected arguments"), dict(msg="expected an expression to be passed")]))
    out.append(Prog("too-many-args", "take(1,2)", ev("take(1, 2), count()"), ev("take(1), count()"), [dict(msg="only takes one argument")]))
    out.append(Prog("closure-shape", "map()", ev("map(), count()"), ev("map(|x| *x), count()"), [dict(msg="expected a closure argument"), dict(msg="method call expected arguments"), dict(msg="-parameter closure")]))
    out.append(Prog("closure-shape", "map(|x|)", ev("map(|x|), count()"), ev("map(|x| *x), count()"), [dict(msg="passed closure without return value")]))
    out.append(Prog("closure-shape", "map(|x| x, 3)", ev("map(|x| *x, 3), count()"), ev("map(|x| *x), count()"), [dict(msg="expects no arguments after closure argument")]))
    out.append(Prog("closure-shape", "map(|x, y| x)", ev("map(|x, y| *x), count()"), ev("map(|x| *x), count()"), [dict(msg="-parameter closure")]))
    out.append(Prog("fold-shape", "fold()", ev("fold()"), ev("fold(0u8, |a, x| a + *x)"), [dict(msg="fold method expects accumulator and closure arguments")]))
    out.append(Prog("fold-shape", "rfold()", ev("rfold()"), ev("rfold(0u8, |a, x| a + *x)"), [dict(msg="rfold method expects accumulator and closure arguments")]))
    out.append(Prog("fold-shape", "fold(0)", ev("fold(0u8)"), ev("fold(0u8, |a, x| a + *x)"), [dict(msg="fold method expects accumulator and closure arguments"), dict(msg="-parameter closure")]))
    out.append(Prog("fold-shape", "rfold(0)", ev("rfold(0u8)"), ev("rfold(0u8, |a, x| a + *x)"), [dict(msg="rfold method expects accumulator and closure arguments"), dict(msg="-parameter closure")]))
    out.append(Prog("separator", "missing comma", ev("rev() count()"), ev("rev(), count()"), [dict(msg="comma-separated"), dict(msg="no rules expected")]))
    out.append(Prog("no-iterator", "eval!()", "pub fn f() { let _ = konst::iter::eval!(); }\n", ev("count()"), [dict(msg="expects an iterator argument")]))
    out.append(Prog("trailing", "eval trailing", ev("count(), 1"), ev("count()"), [dict(msg="Unsupported trailing syntax"), dict(msg="nsupported"), dict(msg="no rules expected")]))
    return out


# ------------------------------------------------------------------ parser_method! ----
def pm_family(tier):
    out = []

    def pm(branches, method="strip_prefix"):
        return "pub fn f(mut p: konst::Parser<'_>) -> u8 { konst::parser_method!{p, %s; %s} }\n" % (method, branches)
    good = '"a" => 1, _ => 0'
    for m in ("strip_prefix", "strip_suffix", "find_skip", "rfind_skip"):
        out.append(Prog("non-literal-pattern", "ident/" + m, "pub fn f(mut p: konst::Parser<'_>, x: &str) -> u8 { konst::parser_method!{p, %s; x => 1, _ => 0} }\n" % m,
                        pm(good, m), [dict(msg="Expected one of"), dict(msg="string literal")]))
    for m in ("trim_start_matches", "trim_end_matches"):
        out.append(Prog("non-literal-pattern", "ident/" + m, "pub fn f(mut p: konst::Parser<'_>, x: &str) { konst::parser_method!{p, %s; x} }\n" % m,
                        "pub fn f(mut p: konst::Parser<'_>) { konst::parser_method!{p, %s; \"a\" | \"b\"} }\n" % m,
                        [dict(msg="Expected one of"), dict(msg="string literal")]))
    # a non-literal hidden inside concat!(..): first, last or only piece; a const, a variable, a nested macro call that is not a literal
    for shape, inner in (("concat-last", 'concat!("a", X)'), ("concat-first", 'concat!(X, "a")'), ("concat-only", "concat!(X)"),
                         ("concat-var", 'concat!("a", x)'), ("concat-nested", 'concat!("a", concat!(X))')):
        for m in ("strip_prefix", "rfind_skip"):
            out.append(Prog("non-literal-pattern", "%s/%s" % (shape, m),
                            "pub const X: &str = \"b\";\npub fn f(mut p: konst::Parser<'_>, x: &str) -> u8 { konst::parser_method!{p, %s; %s => 1, _ => 0} }\n" % (m, inner),
                            "pub const X: &str = \"b\";\npub fn f(mut p: konst::Parser<'_>, x: &str) -> u8 { konst::parser_method!{p, %s; concat!(\"a\", \"b\") => 1, _ => 0} }\n" % m,
                            [dict(msg="Expected one of"), dict(msg="string literal")]))
    out.append(Prog("non-literal-pattern", "concat-last/trim_start_matches",
                    "pub const X: &str = \"b\";\npub fn f(mut p: konst::Parser<'_>) { konst::parser_method!{p, trim_start_matches; concat!(\"a\", X)} }\n",
                    "pub fn f(mut p: konst::Parser<'_>) { konst::parser_method!{p, trim_start_matches; concat!(\"a\", \"b\")} }\n",
                    [dict(msg="Expected one of"), dict(msg="string literal")]))
    # patterns that merely *begin* with a string literal (range patterns), or wrap one (binding, reference, parentheses)
    for shape, pat in (("range-inclusive", '"a"..="b"'), ("range-from", '"a"..'), ("range-dots3", '"a"..."b"'), ("binding", 'x @ "a"'), ("reference", '&"a"'), ("parenthesised", '("a")')):
        for m in ("strip_prefix", "strip_suffix", "find_skip", "rfind_skip"):
            out.append(Prog("non-literal-pattern", "%s/%s" % (shape, m), pm(pat + " => 1, _ => 0", m), pm(good, m),
                            [dict(msg="Expected one of"), dict(msg="string literal"), dict(msg="no rules expected")]))
        for m in ("trim_start_matches", "trim_end_matches"):
            out.append(Prog("non-literal-pattern", "%s/%s" % (shape, m), "pub fn f(mut p: konst::Parser<'_>) { konst::parser_method!{p, %s; %s} }\n" % (m, pat),
                            "pub fn f(mut p: konst::Parser<'_>) { konst::parser_method!{p, %s; \"a\"} }\n" % m,
                            [dict(msg="Expected one of"), dict(msg="string literal"), dict(msg="no rules expected")]))
    out.append(Prog("non-literal-pattern", "range-second-alternative", pm('"q" | "a"..="b" => 1, _ => 0'), pm('"q" | "a" => 1, _ => 0'),
                    [dict(msg="Expected one of"), dict(msg="string literal"), dict(msg="no rules expected")]))
    out.append(Prog("non-literal-pattern", "byte-string", pm('b"a" => 1, _ => 0'), pm(good), [dict(msg="Expected one of"), dict(msg="string literal")]))
    out.append(Prog("non-literal-pattern", "char", pm("'a' => 1, _ => 0"), pm(good), [dict(msg="Expected one of"), dict(msg="string literal")]))
    out.append(Prog("missing-default", "no trailing comma", pm('"a" => 1'), pm(good), [dict(msg="no rules expected"), dict(msg="expected more branches"), dict(msg="unexpected end of macro")]))
    out.append(Prog("missing-default", "trailing comma", pm('"a" => 1,'), pm(good), [dict(msg="expected more branches"), dict(msg="no rules expected"), dict(msg="unexpected end of macro")]))
    out.append(Prog("branch-after-default", "", pm('_ => 0, "b" => 2'), pm('"b" => 2, _ => 0'), [dict(msg="expected no branches after the first")]))
    out.append(Prog("unknown-parser-method", "strip", pm(good, "strip"), pm(good), [dict(msg="name of the Parser method")]))
    return out


# compile_error! arms that no program of the family reaches, with the reason
DEFENSIVE = {
    "Unsupported iterator method: `": "second-line fall-back: the pre-pass __cim_preprocess_methods already rejects unknown names with `unsupported iterator method: <m>` (hit by the unknown-method programs)",
    "expected a closure argument": "fall-back arm of __parse_closure_N: a non-closure argument is passed on as a function path and rejected by the type checker instead (measured: `map(3)` -> E0618)",
    "iterator methods in this macro are comma": "fall-back arm: a missing comma already fails macro matching with `no rules expected` (hit by the separator program)",
    "method call expected arguments: ": "fall-back arm of __cim_assert_has_args: __cim_no_expr_arg_error fires first (hit by the missing-args program)",
    "Unsupported trailing syntax: `": "fall-back arm of __iter_eval: trailing tokens already fail macro matching with `no rules expected` (hit by the trailing program)",
    "Unsupported arguments: ": "catch-all arm of __call_iter_methods after every documented argument shape was matched; only reachable through the hidden internal macros",
    "expected iterator argument": "__process_iter_args is only entered by the public macros after they matched an iterator expression",
}


def run(ctx):
    ctx.explanation = ("generated reject/accept program pairs per guard and syntactic shape, compiled by stable rustc against the current "
                       "konst; a reject must fail for the guard's reason; inventory of compile_error! arms against the family")
    ctx.level = "exploration"
    tier = ctx.tier
    fam = destructure_family(tier) + dsl_family(tier) + pm_family(tier)
    progs = []
    for i, p in enumerate(fam):
        progs.append(("r%d" % i, p.reject))
        progs.append(("a%d" % i, p.accept))
    res = facts.compile_many(progs, ctx.th)
    hit_msgs = []
    distinct = set()
    for i, p in enumerate(fam):
        rr, ra = res[2 * i], res[2 * i + 1]
        key = "%s|%s" % (p.guard, p.shape)
        for e in rr["errors"]:
            hit_msgs.append(e["message"])
        if not ra["ok"]:
            ctx.violation("ACC", key, "accept twin of %s (%s) does not compile: %s" % (p.guard, p.shape, "; ".join(e["message"] for e in ra["errors"][:2])),
                          detail={"program": p.accept})
        if rr["ok"]:
            ctx.violation("REJ", key, "misuse is accepted: %s (%s) compiles although it must be rejected" % (p.guard, p.shape), detail={"program": p.reject})
        elif not any(matches(e, x) for e in rr["errors"] for x in p.expect):
            ctx.violation("REJ", key + "|reason", "%s (%s) is rejected, but not by its guard: %s" % (
                p.guard, p.shape, "; ".join("%s %s" % (e["code"], e["message"][:80]) for e in rr["errors"][:3])), detail={"program": p.reject})
        elif ra["ok"]:
            distinct.add(key)
        ctx.instance("REJ", key, nontrivial=(not rr["ok"]) and ra["ok"], sample={"guard": p.guard, "shape": p.shape,
                                                                                "reject": p.reject.split("\n")[-2][:160],
                                                                                "diagnostic": (rr["errors"][0]["message"][:100] if rr["errors"] else None)})
    # inventory
    files = ['konst/src/macros/destructuring.rs', 'konst_kernel/src/iter.rs', 'konst_kernel/src/iter/combinator_methods.rs',
             'konst_kernel/src/iter/iter_eval_macro.rs', 'konst/src/macros/parser_method.rs', 'konst_kernel/src/utils.rs']
    allhits = " || ".join(hit_msgs)
    n_arms = 0
    for d in macrolint.scan_repo(facts.REPO):
        if d.file not in files:
            continue
        for line, ai, msg in macrolint.compile_errors(d):
            n_arms += 1
            frags = [f for f in re.split(r'""|\\n|\\\n\s*', msg.strip('"')) if len(f.strip()) >= 6]
            frag = max(frags, key=len).strip() if frags else msg
            frag = frag.replace('\\"', '"')
            if any(k in msg for k in DEFENSIVE):
                ctx.instance("INV", "%s|%d|defensive" % (d.name, ai), nontrivial=False)
                continue
            if frag not in allhits:
                ctx.violation("INV", "%s|%s" % (d.name, frag[:40]), "compile_error! arm %d of %s (%r) is not reached by any reject program of the family and is "
                              "not listed as defensive" % (ai, d.name, frag[:80]), "%s:%d" % (d.file, line))
            ctx.instance("INV", "%s|%d" % (d.name, ai), sample={"macro": d.name, "message": frag[:80]})
    ctx.extra["evaluations"] = len(progs)
    ctx.extra["programs"] = len(progs)
    ctx.extra["guards"] = sorted({p.guard for p in fam})
    ctx.floor("REJ", 100)
    ctx.floor("INV", 25)
