"""C13 — Parser positions always describe where the remainder sits in the original string.

Inductive invariant  I(p): p.str == original[p.start_offset-base .. +len(p.str)].
For every function that builds or returns a Parser the rule TS-OFFSET checks that
the step preserves I: the provenance (D1 cut kind) of the new `str` w.r.t. the old
one must match the bookkeeping actually performed on `start_offset`:
    Suffix cut  => start_offset += len(before) - len(after)     (direction FromStart)
    Prefix cut  => start_offset unchanged                       (direction FromEnd)
    Middle cut  => the start must advance by the *front* cut only; a single length
                   difference of a two-sided cut cannot be right.
Errors must be built from the pre-operation parser (same str/offset, direction set);
ParseError::new / offset() / end_offset() are decided as tables.
"""
from .. import sym, table, prov
from ..sym import show

DIRS = {0: "FromStart", 1: "FromEnd", 2: "FromBoth"}


def parser_fields(prog):
    adt = prog.adts.get("konst::parsing::Parser")
    if adt is None:
        return None
    names = [f["name"] for f in adt["variants"][0]["fields"]]
    return {n: i for i, n in enumerate(names)}


def parser_methods(prog):
    out = []
    for b in prog.bodies:
        if b.promoted is not None or b.kind not in ("Fn", "AssocFn"):
            continue
        if "Parser<" in (b.rec.get("impl_self") or "") and "StdParser" not in (b.rec.get("impl_self") or ""):
            out.append(b)
    return out


def is_parser_term(t):
    """an `upd` chain or aggregate that denotes a Parser value"""
    while t[0] == "upd":
        t = t[1]
    if t[0] == "agg" and t[1].startswith("adt:konst::parsing::Parser::Parser"):
        return True
    if t[0] == "call" and t[1] in METHOD_LAW and len(t) > 3:
        return True          # the result of another Parser method (composition); its law comes from that method's own row
    return t[0] in ("p", "L")


# laws of Parser -> Parser methods that cannot be inlined (they loop): filled by the first round of run()
#   'front': str is a suffix cut of the receiver's, start_offset advances by the length difference
#   'back' : str is a prefix cut, start_offset unchanged
METHOD_LAW = {}
PARSER_FIELDS = {}


def _returns_parser(b):
    o = b.rec.get("sig_output", "")
    return o.startswith(("parsing::Parser<", "konst::parsing::Parser<")) or o in ("Self",)


def find_results(t):
    """-> list of ('ok'|'err', term) parser-ish payloads inside a return value"""
    if t[0] == "agg":
        if t[1].endswith("Result::Ok#0"):
            x = t[2]
            if x[0] == "agg" and x[1] == "tuple":
                return [("ok", y) for y in x[2:] if _looks_parser(y)]
            return [("ok", x)] if _looks_parser(x) else []
        if t[1].endswith("Result::Err#1"):
            return [("err", t[2])]
        if t[1] == "tuple":
            return [("ok", y) for y in t[2:] if _looks_parser(y)]
    if _looks_parser(t):
        return [("ok", t)]
    return []


def _looks_parser(t):
    if t[0] == "upd":
        return is_parser_term(t)
    if t[0] == "agg" and t[1].startswith("adt:konst::parsing::Parser::Parser"):
        return True
    return False


def adv_pairs(off, old_off):
    """decompose new start_offset as old_off + sum(items); items are ('diff', A, B) for len(A)-len(B) or ('raw', n)"""
    items = []

    def walk(t):
        if t == old_off:
            return True
        if t[0] == "field" and t[1][0] == "call" and t[2] == PARSER_FIELDS.get("start_offset") and METHOD_LAW.get(t[1][1]) and len(t[1]) > 3:
            c = t[1]
            recv_off = sym.mk_field(c[3], PARSER_FIELDS["start_offset"])
            if walk(recv_off):
                if METHOD_LAW[c[1]] == "front":
                    items.append(("bin", "Sub", ("len", sym.mk_field(c[3], PARSER_FIELDS["str"])), ("len", ("field", c, PARSER_FIELDS["str"]))))
                return True
            return False
        if t[0] == "bin" and t[1] == "Add":
            a, b = t[2], t[3]
            if walk(a):
                items.append(strip_cast(b))
                return True
            if walk(b):
                items.append(strip_cast(a))
                return True
        ts = strip_cast(t)
        if ts != t:
            # the sum computed in a wider type and narrowed at the end: the same value modulo the offset's width
            return walk(ts)
        if t[0] == "bin" and t[1] == "Sub" and strip_cast(t[2])[0] == "bin" and strip_cast(t[2])[1] == "Add":
            # (old + A) - B: the position of the old end minus what is left = old + (A - B)
            inner = strip_cast(t[2])
            for x, a_ in ((inner[2], inner[3]), (inner[3], inner[2])):
                n0 = len(items)
                if walk(x):
                    items.append(("bin", "Sub", strip_cast(a_), strip_cast(t[3])))
                    return True
                del items[n0:]
        return False
    if not walk(off):
        return None
    out = []
    for it in items:
        if it[0] == "bin" and it[1] == "Sub" and it[2][0] == "len" and it[3][0] in ("len", "int"):
            out.append(("diff", it[2][1], it[3][1] if it[3][0] == "len" else it[3]))
        elif it[0] == "bin" and it[1] == "Sub" and it[2][0] == "len":
            out.append(("diff", it[2][1], ("lenof", it[3])))
        else:
            out.append(("raw", it))
    return out


def strip_cast(t):
    while t[0] == "cast" and t[1] == "int2int":
        t = t[3]
    return t


class CutWalker:
    """decomposes new_str into a chain of cuts of old_str using D1 summaries of the callees"""

    def __init__(self, prog, pv):
        self.prog = prog
        self.pv = pv

    def kind_of_call(self, t):
        """(kind wrt arg0, arg0 term) for a call/projection term that cuts its first argument, else None"""
        return None

    def chain(self, t, old):
        """-> list of (kind, before_term, after_term) from old to t, or None when t is not derived from old"""
        if t == old:
            return []
        inner = self._source(t)
        if inner is None:
            return None
        kind, src = inner
        rest = self.chain(src, old)
        if rest is None:
            return None
        return rest + [(kind, src, t)]

    def _source(self, t):
        k = t[0]
        if k in ("vfield", "field"):
            # payload / component of a call result: find the call
            base = t
            projs = []
            while base[0] in ("vfield", "field"):
                projs.append((base[2], base[3]) if base[0] == "vfield" else (None, base[2]))
                base = base[1]
            projs.reverse()
            if base[0] != "call":
                return None
            return self._call_kind(base, projs)
        if k == "call":
            return self._call_kind(t, [])
        return None

    def _call_kind(self, call, projs):
        path = call[1]
        # string::trim_matches(s, n) is trim_end_matches(trim_start_matches(s, n), n) (C05 DLG row: start first, then the end):
        # a cut at the front followed by a cut at the back, with the front cut written as the library function that performs it
        if path == "konst::string::trim_matches" and not projs and len(call) == 5:
            return prov.PREFIX, ("call", "konst::string::trim_start_matches", call[2], call[3], call[4])
        law = METHOD_LAW.get(path)
        if law and projs == [(None, PARSER_FIELDS.get("str"))] and len(call) > 3:
            return (prov.SUFFIX if law == "front" else prov.PREFIX), sym.mk_field(call[3], PARSER_FIELDS["str"])
        c = self.prog.by_key.get(path, [])
        if len(c) != 1 or len(call) < 4:
            return None
        sm = self.pv.summary(c[0])
        for key in projs:
            sm = prov.agg_get(sm, key)
        if sm is None or sm == prov.TOP or sm[0] != "S":
            return None
        kinds = {k for r, k in sm[1] if r == ("p", 1)}
        others = {r for r, k in sm[1] if r != ("p", 1) and r != "static-empty"}
        if others or not kinds:
            return None
        kind = None
        for k in kinds:
            kind = k if kind is None else prov.lub(kind, k)
        return kind, call[3]


def run(ctx):
    ctx.explanation = ("typestate rule over every Parser-producing function: provenance (cut kind) of the new remainder vs "
                       "the start_offset bookkeeping and direction, error construction from the pre-operation parser, "
                       "ParseError/offset tables — an inductive proof obligation per method, symbolic in the string")
    for cfg in (["FULL"] if ctx.tier == "quick" else ["FULL", "DEBUG"]):
        prog = ctx.program(cfg)
        F = parser_fields(prog)
        if F is None or not all(k in F for k in ("parse_direction", "start_offset", "str")):
            ctx.violation("ANCHOR", cfg + "|Parser", "struct konst::parsing::Parser with fields parse_direction/start_offset/str not found")
            continue
        pv = prov.Prov(prog)
        PARSER_FIELDS.clear()
        PARSER_FIELDS.update(F)
        METHOD_LAW.clear()
        methods = parser_methods(prog)
        # methods that loop and return a Parser directly (skip, skip_back) first: other methods may be written in terms of them
        methods = sorted(methods, key=lambda m: 0 if (m.loops() and _returns_parser(m)) else 1)
        inline = {b.key for b in methods if not b.loops()} | {
            "konst::parsing::parse_errors::ParseError::new", "konst::parsing::parse_errors::ParseError::other_error"}
        inline_no_err = {b.key for b in methods if not b.loops()}
        cw = CutWalker(prog, pv)
        ctor_dirs = {}
        for b in methods:
            name = b.key.split("::")[-1]
            out = b.rec.get("sig_output", "")
            if "Parser<" not in out:
                continue
            self_is_parser = b.arg_count >= 1 and "Parser<" in b.local_ty(1)
            try:
                paths = sym.through_loops(b, prog, inline=inline_no_err - {b.key})
            except sym.TooManyPaths:
                ctx.violation("TS-OFFSET", "%s|%s" % (cfg, name), "too many paths", b.file())
                continue
            old = ("p", 1)
            old_str = sym.mk_field(old, F["str"])
            old_off = sym.mk_field(old, F["start_offset"])
            n_ok = n_err = 0
            dirs_ok = set()
            kinds_seen = set()
            clean = True
            for p in paths:
                if p.kind != "return":
                    continue
                res = find_results(p.value)
                if not any(r == "ok" for r, _ in res) and not (p.value[0] == "agg" and p.value[1].endswith("Result::Err#1")) \
                        and p.value not in (("p", 1), ("deref", ("p", 1))):          # (returning the receiver itself: copy/clone)
                    clean = False
                    ctx.violation("TS-OFFSET", "%s|%s|provenance" % (cfg, name),
                                  "%s: the returned value %s contains no recognisable Parser" % (name, show(p.value)[:300]), b.file())
                for role, t in res:
                    if role == "ok":
                        n_ok += 1
                        ns = sym.mk_field(t, F["str"])
                        no = sym.mk_field(t, F["start_offset"])
                        nd = sym.mk_field(t, F["parse_direction"])
                        d = _dir(nd)
                        if not self_is_parser:
                            # constructors: str = the argument, offset = 0 / the given base
                            if ns != ("p", 1):
                                ctx.violation("TS-OFFSET", "%s|%s|ctor-str" % (cfg, name),
                                              "%s: new parser's str is %s, expected the string argument" % (name, show(ns)), b.file())
                            exp_off = sym.I(0, "u32") if b.arg_count == 1 else ("cast", "int2int", "u32", ("p", 2))
                            if no != exp_off:
                                ctx.violation("TS-OFFSET", "%s|%s|ctor-off" % (cfg, name),
                                              "%s: new parser's start_offset is %s, expected %s" % (name, show(no), show(exp_off)), b.file())
                            ctor_dirs[name] = (d, b)
                            continue
                        chain = cw.chain(ns, old_str)
                        if chain is None:
                            ctx.violation("TS-OFFSET", "%s|%s|provenance" % (cfg, name),
                                          "%s: cannot relate the new remainder %s to the old one by prefix/suffix cuts" % (name, show(ns)), b.file())
                            continue
                        kinds = [k for k, _, _ in chain]
                        kinds_seen |= set(kinds)
                        if prov.MIDDLE in kinds:
                            ctx.violation("TS-OFFSET", "%s|%s|middle-cut" % (cfg, name),
                                          "%s: the remainder is cut on both sides in one step (%s) and start_offset is updated by a "
                                          "single length difference; the start must advance by the front cut only"
                                          % (name, show(ns)), b.file(), detail={"start_offset": show(no)})
                            continue
                        expected = [("diff", before, after) for k, before, after in chain if k == prov.SUFFIX]
                        got = adv_pairs(no, old_off)
                        if got is None:
                            ctx.violation("TS-OFFSET", "%s|%s|offset-form" % (cfg, name),
                                          "%s: new start_offset %s is not old start_offset plus consumed lengths" % (name, show(no)), b.file())
                            continue
                        if not _same_advance(expected, got, chain):
                            ctx.violation("TS-OFFSET", "%s|%s|offset" % (cfg, name),
                                          "%s: remainder cut chain %s requires start_offset to advance by %s but the code adds %s"
                                          % (name, kinds, _show_adv(expected), _show_adv(got)), b.file())
                        want_dir = None
                        if prov.SUFFIX in kinds and prov.PREFIX in kinds:
                            want_dir = 2
                        elif prov.SUFFIX in kinds:
                            want_dir = 0
                        elif prov.PREFIX in kinds:
                            want_dir = 1
                        if d is not None:
                            dirs_ok.add(d)
                        if want_dir is not None and d is not None and d != want_dir:
                            ctx.violation("TS-DIR", "%s|%s" % (cfg, name),
                                          "%s cuts the remainder as %s but sets direction %s" % (name, kinds, DIRS.get(d, d)), b.file())
                        elif want_dir is not None and d is None and nd == sym.mk_field(("p", 1), F["parse_direction"]):
                            # (`parse_direction` is "the direction that the parser was last mutated from": an error the caller builds
                            #  with into_error() after this operation reports its offset from that end)
                            ctx.violation("TS-DIR", "%s|%s|unset" % (cfg, name),
                                          "%s cuts the remainder as %s but leaves the direction as it was" % (name, kinds), b.file())
                    else:
                        n_err += 1
                        e = t
                        # map_err wrappers are calls taking the ParseError as first arg
                        while e[0] == "call" and not e[1].endswith(("ParseError::new", "ParseError::other_error")) and len(e) > 3:
                            e = e[3]
                        if not (e[0] == "call" and e[1].endswith(("ParseError::new", "ParseError::other_error"))):
                            ctx.violation("TS-ERR", "%s|%s|form" % (cfg, name), "%s: error value %s is not built by ParseError::new" % (name, show(t)), b.file())
                            continue
                        pp = e[3]
                        es, eo, ed = sym.mk_field(pp, F["str"]), sym.mk_field(pp, F["start_offset"]), _dir(sym.mk_field(pp, F["parse_direction"]))
                        if es != old_str or eo != old_off:
                            ctx.violation("TS-ERR", "%s|%s|copy" % (cfg, name),
                                          "%s: the error is built from a modified parser (str=%s, start_offset=%s), not from the "
                                          "parser the operation was called on" % (name, show(es), show(eo)), b.file())
                        if ed is None:
                            ctx.violation("TS-ERR", "%s|%s|dir" % (cfg, name), "%s: error parser's direction is not set" % name, b.file())
                        else:
                            dirs_ok.add(("err", ed))
            # direction of errors must be the direction of the operation's success paths
            okd = {d for d in dirs_ok if not isinstance(d, tuple)}
            errd = {d[1] for d in dirs_ok if isinstance(d, tuple)}
            if okd and errd and not errd <= okd:
                ctx.violation("TS-DIR", "%s|%s|err-dir" % (cfg, name),
                              "%s: success paths set direction %s but errors report %s" % (
                                  name, sorted(DIRS.get(d) for d in okd), sorted(DIRS.get(d) for d in errd)), b.file())
            if b.loops() and _returns_parser(b) and self_is_parser and n_ok and clean \
                    and not any(v["key"].startswith("TS-OFFSET|%s|%s|" % (cfg, name)) for v in ctx.violations):
                if kinds_seen <= {prov.SUFFIX}:
                    METHOD_LAW[b.key] = "front"
                elif kinds_seen <= {prov.PREFIX}:
                    METHOD_LAW[b.key] = "back"
            ctx.instance("TS-OFFSET", "%s|%s" % (cfg, name), nontrivial=n_ok > 0,
                         sample={"method": name, "ok_paths": n_ok, "err_paths": n_err, "paths": len(paths)})
        # the constructors agree on the direction a fresh parser starts with (an error built from a fresh parser reports its offset
        # from that end): a sibling cross-check - no constructor is the reference, a disagreement is the violation
        ds = {n: d_ for n, (d_, _) in ctor_dirs.items()}
        if len({v for v in ds.values() if v is not None}) > 1:
            ctx.violation("TS-DIR", "%s|constructors" % cfg, "the Parser constructors start with different directions: %s" % (
                {n: DIRS.get(v, v) for n, v in sorted(ds.items())}), list(ctor_dirs.values())[0][1].file())
        ctx.instance("TS-DIR", "%s|constructors" % cfg, sample={"constructors": sorted(ds), "direction": sorted(str(DIRS.get(v, v)) for v in set(ds.values()))})
        error_tables(ctx, prog, F)
        # the accessors through which positions, directions and errors are observed
        from .. import accessors
        PM = "konst::parsing::non_parsing_methods::<impl parsing::Parser<'a>>::"
        PE = "konst::parsing::parse_errors::ParseError::"
        efields = {f["name"]: i for i, f in enumerate((prog.adts.get("konst::parsing::parse_errors::ParseError") or {"variants": [{"fields": []}]})["variants"][0]["fields"])}
        accessors.field(ctx, "ACC", prog, PM + "parse_direction", F["parse_direction"], byref=False, what="the parse_direction field")
        accessors.term(ctx, "ACC", prog, PM + "len", ("len", ("field", ("p", 1), F["str"])), "the length of the remainder")
        accessors.term(ctx, "ACC", prog, PM + "into_error", ("call", PE + "new", None, ("p", 1), ("p", 2)), "ParseError::new(self, kind)")
        accessors.term(ctx, "ACC", prog, PM + "into_other_error", ("call", PE + "other_error", None, ("p", 1), ("p", 2)), "ParseError::other_error(self, message)")
        if "direction" in efields and "kind" in efields:
            accessors.field(ctx, "ACC", prog, PE + "error_direction", efields["direction"], what="the direction field")
            accessors.field(ctx, "ACC", prog, PE + "kind", efields["kind"], what="the kind field")
            accessors.rebuild(ctx, "ACC", prog, PE + "copy", nfields=5)
    ctx.floor("ACC", 7)
    ctx.floor("TS-OFFSET", 32)
    ctx.floor("TS-DIR", 1)
    ctx.floor("TAB-ERR", 4)


def _dir(t):
    if t[0] == "agg" and "ParseDirection::" in t[1]:
        return int(t[1].split("#")[1])
    return None


def _show_adv(items):
    return "[" + ", ".join("len(%s)-len(%s)" % (show(a), show(b)) if k == "diff" else show(a) for k, a, *rest in items for b in (rest[0] if rest else None,)) + "]"


def _same_advance(expected, got, chain):
    if len(expected) != len(got):
        # `skip`: start_offset += n with str = str_from(old, n) (same n)
        return False
    g = list(got)
    for e in expected:
        hit = None
        for x in g:
            if x == e:
                hit = x
                break
            # raw form: Add(off, n) where after = str_from(before, n)
            if x[0] == "raw" and e[2][0] == "call" and e[2][1].endswith("str_from") and e[2][3] == e[1] and e[2][4] == x[1]:
                hit = x
                break
            # diff against a length expression instead of len(after)
            if x[0] == "diff" and x[1] == e[1] and x[2] == e[2]:
                hit = x
                break
        if hit is None:
            return False
        g.remove(hit)
    return not g


def error_tables(ctx, prog, F):
    EP = "konst::parsing::parse_errors::ParseError::"
    adt = prog.adts.get("konst::parsing::parse_errors::ParseError")
    if adt is None:
        ctx.violation("ANCHOR", prog.config + "|ParseError", "struct ParseError not found")
        return
    EF = {f["name"]: i for i, f in enumerate(adt["variants"][0]["fields"])}
    pstr = sym.mk_field(("p", 1), F["str"])
    poff = sym.mk_field(("p", 1), F["start_offset"])
    pdir = sym.mk_field(("p", 1), F["parse_direction"])
    for fn in ("new", "other_error"):
        b = ctx.anchor(prog, EP + fn)
        if b is None:
            continue
        paths = sym.paths_of(b, prog, inline={EP + "new", EP + "other_error"} - {EP + fn})   # one constructor may be written via the other
        ok = len(paths) == 1 and paths[0].kind == "return"
        if ok:
            v = paths[0].value
            so, eo, d = sym.mk_field(v, EF["start_offset"]), sym.mk_field(v, EF["end_offset"]), sym.mk_field(v, EF["direction"])
            want_end = ("bin", "Add", poff, ("cast", "int2int", "u32", ("len", pstr)))
            if so != poff:
                ctx.violation("TAB-ERR", "%s|%s|start" % (prog.config, fn), "ParseError::%s: start_offset is %s, expected the parser's start_offset" % (fn, show(so)), b.file())
            if eo != want_end:
                ctx.violation("TAB-ERR", "%s|%s|end" % (prog.config, fn), "ParseError::%s: end_offset is %s, expected start_offset + len(str)" % (fn, show(eo)), b.file())
            if d != pdir:
                ctx.violation("TAB-ERR", "%s|%s|dir" % (prog.config, fn), "ParseError::%s: direction is %s, expected the parser's direction" % (fn, show(d)), b.file())
        else:
            ctx.violation("TAB-ERR", "%s|%s" % (prog.config, fn), "ParseError::%s is not straight-line" % fn, b.file())
        ctx.instance("TAB-ERR", "%s|%s" % (prog.config, fn))
    # offset(): FromStart|FromBoth -> start_offset, FromEnd -> end_offset
    b = ctx.anchor(prog, EP + "offset")
    if b is not None:
        me = ("deref", ("p", 1))
        ds = ("discr", sym.mk_field(me, EF["direction"]))
        so = ("cast", "int2int", "usize", sym.mk_field(me, EF["start_offset"]))
        eo = ("cast", "int2int", "usize", sym.mk_field(me, EF["end_offset"]))
        rows = [table.Row([("is", ds[1], 0)], so, name="FromStart"), table.Row([("is", ds[1], 1)], eo, name="FromEnd"),
                table.Row([("is", ds[1], 2)], so, name="FromBoth")]
        try:
            paths = sym.paths_of(b, prog)
            mism, n, dec = table.compare(paths, rows, variant_domain={ds[1]: [0, 1, 2]})
            for m in mism[:3]:
                ctx.violation("TAB-ERR", "%s|offset|%s" % (prog.config, m.row.name if m.row else "-"), "ParseError::offset: %s" % m, b.file())
        except table.Undecided as e:
            ctx.violation("TAB-ERR", "%s|offset" % prog.config, "undecided: %s" % e, b.file())
        ctx.instance("TAB-ERR", "%s|offset" % prog.config)
    # Parser::end_offset / start_offset accessors
    for b in parser_methods(prog):
        nm = b.key.split("::")[-1]
        if nm in ("end_offset", "start_offset", "remainder"):
            paths = sym.paths_of(b, prog)
            want = {"end_offset": ("bin", "Add", ("cast", "int2int", "usize", poff), ("len", pstr)),
                    "start_offset": ("cast", "int2int", "usize", poff), "remainder": pstr}[nm]
            if len(paths) != 1 or paths[0].value != want:
                ctx.violation("TAB-ERR", "%s|%s" % (prog.config, nm), "Parser::%s returns %s, expected %s" % (
                    nm, show(paths[0].value) if paths else "?", show(want)), b.file())
            ctx.instance("TAB-ERR", "%s|%s" % (prog.config, nm))
