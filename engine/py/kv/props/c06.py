"""C06 — string split iterators yield exactly the pieces std's split family yields.

TAB-SPLIT: one-step transition tables of Split::next / next_back, SplitTerminator::next and
RSplitTerminator::next over (state, remainder empty, find/rfind Some/None), compared with std's
SplitInternal step (and the documented mirrored rule for rsplit_terminator): what is yielded, the
new remainder, the new state.  ISO: RSplit::next/next_back are Split::next_back/next.
DLG: constructors (empty delimiter -> Empty(Start), else Normal), rsplit = split(..).rev(),
remainder() returns the remainder field.  D1: item and new remainder are a Prefix/Suffix pair.
"""
from .. import accessors, sym, table, prov
from ..sym import show
from ..table import Row, eq, ne, Int

SP = "konst::string::splitting::"
ST = "konst::string::split_terminator_items::"
S = "konst::string::"
KS = "konst_kernel::string::"
THIS = ("field", ("p", 1), 0)
STATE = ("field", ("p", 1), 1)
EMPTY = ("lit", b"", "&str")


def call(path, *a):
    return ("call", path, None) + a


def expect_some(item, this=None, state=None, width_at=None):
    def f(path, case):
        v = table.strip_gargs(path.value)
        if not (v[0] == "agg" and v[1].endswith("Some#1") and v[2][0] == "agg" and v[2][1] == "tuple"):
            return "expected Some((piece, iter)), got %s" % show(v)
        it, st = v[2][2], v[2][3]
        nt, ns = sym.mk_field(st, 0), sym.mk_field(st, 1)
        want_t = this if this is not None else THIS
        if width_at is not None and (_n(it) != _n(item) or _n(nt) != _n(want_t)):
            # the first char's width read off its lead byte instead of the boundary scan (see C07: exact on the lead bytes admitted)
            from .c07 import _subst, _width_justified
            for w in (1, 2, 3, 4):
                if _n(_subst(item, width_at, Int(w))) == _n(it) and _n(_subst(want_t, width_at, Int(w))) == _n(nt):
                    why = _width_justified(path, THIS, w)
                    if why is not None:
                        return "takes the first char to be %d byte(s) long %s" % (w, why)
                    item_, want_t = it, nt
                    break
            else:
                item_ = item
        else:
            item_ = item
        if _n(it) != _n(item_):
            return "yields %s, expected %s" % (show(it), show(item))
        if _n(nt) != _n(want_t):
            return "new remainder is %s, expected %s" % (show(nt), show(this if this is not None else THIS))
        if state is not None:
            if not state(ns):
                return "new state is %s" % show(ns)
        elif ns != STATE:
            return "state changes to %s, expected it unchanged" % show(ns)
        return None
    return f


def _n(t):
    """normalise: commutative Add, typed empty literal"""
    if not isinstance(t, tuple) or not t:
        return t
    if t[0] == "lit":
        return ("lit", t[1])
    t = tuple(_n(x) if isinstance(x, tuple) else x for x in t)
    # identities of the slicing primitives (their tables are C03's): s[0..] = s = s[..len], s[..0] = "" = s[len..]
    if t[0] == "call" and len(t) == 5 and t[1] in (KS + "str_from", KS + "str_up_to"):
        whole = t[4] == ("int", 0, "usize") if t[1].endswith("str_from") else t[4] == ("len", t[3])
        empty = t[4] == ("len", t[3]) if t[1].endswith("str_from") else t[4] == ("int", 0, "usize")
        if whole:
            return t[3]
        if empty:
            return ("lit", b"")
    if t[0] == "bin" and t[1] == "Add":
        a, b = sorted([t[2], t[3]], key=repr)
        return ("bin", "Add", a, b)
    return t


def none(path, case):
    return None if path.value == table.NONE else "expected None, got %s" % show(path.value)


def is_state(mod, name, inner=None):
    def f(t):
        if not (t[0] == "agg" and t[1].startswith("adt:" + mod + "State::" + name + "#")):
            return False
        if inner is not None:
            return len(t) > 2 and t[2][0] == "agg" and ("EmptyState::" + inner + "#") in t[2][1]
        return True
    return f


def run(ctx):
    ctx.explanation = ("one-step transition tables of the four split iterators with find/rfind opaque, compared with std's "
                       "SplitInternal step; forward/reverse isomorphism; constructor and remainder delegation")
    for cfg in (["FULL"] if ctx.tier == "quick" else ["FULL", "DEBUG"]):
        prog = ctx.program(cfg)
        split_tables(ctx, prog)
        terminator_tables(ctx, prog)
        misc(ctx, prog)
        # the step tables take string::find / rfind as "the first / last occurrence, if any": that is C04's restart lint and scan
        # table on the two matcher loops every split step searches with - decided here as well
        from . import c04
        c04.matchers(ctx, prog)
    ctx.floor("SCAN", 2)
    ctx.floor("E13", 6)
    ctx.floor("TAB-SPLIT", 4)
    ctx.floor("ISO", 2)
    ctx.floor("DLG", 6)
    ctx.floor("ACC", 4)


def _renorm(t):
    """normalising a pattern that already is a normalised &str changes nothing: as_str(&PatternNorm::new(d.as_str())) = d.as_str()"""
    if not isinstance(t, tuple) or not t:
        return t
    t = tuple(_renorm(x) if isinstance(x, tuple) else x for x in t)
    AS, NEW = S + "pattern::PatternNorm::as_str", S + "pattern::PatternNorm::new"
    if t[0] == "call" and t[1] == AS and len(t) == 4 and t[3][0] == "ref" and t[3][1][0] == "call" and t[3][1][1] == NEW \
            and len(t[3][1]) == 4 and t[3][1][3][0] == "call" and t[3][1][3][1] == AS:
        return t[3][1][3]
    return t


def _paths(prog, b, helpers):
    paths = sym.paths_of(b, prog, inline=helpers)
    for p in paths:
        p.conds = tuple(_renorm(table.strip_gargs(c)) for c in p.conds)
        if isinstance(p.value, tuple):
            p.value = _renorm(table.strip_gargs(p.value))
    # (re-normalisation can make two conditions of a path contradict each other: such paths are infeasible)
    return [p for p in paths if not any(sym.contradicts([c2 for c2 in p.conds if c2 is not c], c) for c in p.conds)]


def _decide(ctx, prog, name, b, paths, rows, vdom, constraints=()):
    key = "%s|%s" % (prog.config, name)
    try:
        mism, n, dec = table.compare(paths, rows, variant_domain=vdom, constraints=constraints)
    except table.Undecided as e:
        ctx.violation("TAB-SPLIT", key, "undecided: %s" % e, b.file())
        return
    ctx.instance("TAB-SPLIT", key, nontrivial=dec >= 2, sample={"fn": name, "cases": n, "decided": dec, "paths": len(paths)})
    for m in mism[:3]:
        ctx.violation("TAB-SPLIT", key + "|" + m.row.name, "%s is not std's split step: %s" % (name, m), b.file())


def split_tables(ctx, prog):
    helpers = {SP + "Split::next_from_empty", SP + "Split::next_back_from_empty"}
    DS = ("discr", STATE)[1]
    D = call(S + "pattern::PatternNorm::as_str", ("ref", ("vfield", STATE, 0, 0)))
    ES = ("vfield", STATE, 1, 0)
    LD = ("len", D)
    for m in ("next", "next_back"):
        b = ctx.anchor(prog, SP + "Split::" + m)
        if b is None:
            continue
        paths = _paths(prog, b, helpers)
        fwd = m == "next"
        f = call(S + ("find" if fwd else "rfind"), THIS, D)
        pos = ("vfield", f, 1, 0)
        before = call(KS + "str_up_to", THIS, pos)
        after = call(KS + "str_from", THIS, ("bin", "Add", pos, LD))
        item, rest = (before, after) if fwd else (after, before)
        if fwd:
            at = call(KS + "__find_next_char_boundary", ("as_bytes", THIS), Int(0))
            sa = call(S + "split_at", THIS, at)
            ch, rem = ("field", sa, 0), ("field", sa, 1)
        else:
            at = call(KS + "__find_prev_char_boundary", ("as_bytes", THIS), ("len", THIS))
            sa = call(S + "split_at", THIS, at)
            ch, rem = ("field", sa, 1), ("field", sa, 0)
        fin = is_state(SP, "Finished")
        rows = [
            Row([("is", STATE, 2)], none, name="Finished"),
            Row([("is", STATE, 0), ("is", f, 1)], expect_some(item, rest), name="Normal, delimiter found"),
            Row([("is", STATE, 0), ("is", f, 0)], expect_some(THIS, EMPTY, fin), name="Normal, no delimiter: last piece"),
            Row([("is", STATE, 1), ("is", ES, 0)], expect_some(EMPTY, None, is_state(SP, "Empty", "Continue")), name="Empty(Start)"),
            Row([("is", STATE, 1), ("is", ES, 1), ne(("len", THIS), Int(0))], expect_some(ch, rem, width_at=at if fwd else None), name="Empty(Continue), chars left"),
            Row([("is", STATE, 1), ("is", ES, 1), eq(("len", THIS), Int(0))], expect_some(ch, rem, fin), name="Empty(Continue), exhausted"),
        ]
        _decide(ctx, prog, "Split::" + m, b, paths, rows, {STATE: [0, 1, 2], ES: [0, 1], f: [0, 1]},
                constraints=[table.found_fits(f, ("len", THIS), LD), table.le(LD, LD), table.le(("len", THIS), ("len", THIS))])
    # RSplit == Split reversed
    for m, twin in (("next", "next_back"), ("next_back", "next")):
        a, c = prog.get(SP + "RSplit::" + m), prog.get(SP + "Split::" + twin)
        key = "%s|RSplit::%s" % (prog.config, m)
        if a is None or c is None:
            ctx.violation("ISO", key, "missing RSplit::%s or Split::%s" % (m, twin))
            continue
        if _tab(a, prog, helpers) != _tab(c, prog, helpers):
            ctx.violation("ISO", key, "RSplit::%s is not Split::%s" % (m, twin), a.file())
        ctx.instance("ISO", key)


def _tab(b, prog, helpers):
    hs = helpers | {h.replace("Split::", "RSplit::") for h in helpers}

    def norm(t):
        if isinstance(t, tuple):
            return tuple(norm(x) for x in t)
        if isinstance(t, str):
            return t.replace("RSplit", "Split")
        return t
    return sorted((repr(norm(tuple(sorted(p.conds, key=repr)))), p.kind, repr(norm(p.value))) for p in sym.paths_of(b, prog, inline=hs))


def terminator_tables(ctx, prog):
    ES = ("vfield", STATE, 1, 0)
    D = call(S + "pattern::PatternNorm::as_str", ("ref", ("vfield", STATE, 0, 0)))
    LD = ("len", D)
    LT = ("len", THIS)
    for ty, fwd in (("SplitTerminator", True), ("RSplitTerminator", False)):
        b = ctx.anchor(prog, ST + ty + "::next")
        if b is None:
            continue
        # split_once / rsplit_once are find / rfind plus the two cuts (C04 TAB-SPLITONCE): look inside
        paths = _paths(prog, b, {S + "split_once::split_once", S + "split_once::rsplit_once"})
        f = call(S + ("find" if fwd else "rfind"), THIS, D)
        pos = ("vfield", f, 1, 0)
        if fwd:
            found = expect_some(call(KS + "str_up_to", THIS, pos), call(KS + "str_from", THIS, ("bin", "Add", pos, LD)))
            last = expect_some(call(KS + "str_up_to", THIS, LT), call(KS + "str_from", THIS, LT))
            at = call(KS + "__find_next_char_boundary", ("as_bytes", THIS), Int(0))
            sa = call(S + "split_at", THIS, at)
            ch, rem = ("field", sa, 0), ("field", sa, 1)
        else:
            found = expect_some(call(KS + "str_from", THIS, ("bin", "Add", pos, LD)), call(KS + "str_up_to", THIS, pos))
            last = expect_some(call(KS + "str_from", THIS, Int(0)), call(KS + "str_up_to", THIS, Int(0)))
            at = call(KS + "__find_prev_char_boundary", ("as_bytes", THIS), ("len", THIS))
            sa = call(S + "split_at", THIS, at)
            ch, rem = ("field", sa, 1), ("field", sa, 0)
        ne0, eq0 = ne(LT, Int(0)), eq(LT, Int(0))
        rows = [
            Row([("is", STATE, 1), ("is", ES, 0)], expect_some(EMPTY, None, is_state(ST, "Empty", "Continue")), name="Empty(Start)"),
            Row([("is", STATE, 0), eq0], none, name="Normal, remainder empty: end"),
            Row([("is", STATE, 1), ("is", ES, 1), eq0], none, name="Empty(Continue), remainder empty: end"),
            Row([("is", STATE, 0), ne0, ("is", f, 1)], found, name="Normal, delimiter found"),
            Row([("is", STATE, 0), ne0, ("is", f, 0)], last, name="Normal, no delimiter: whole remainder"),
            Row([("is", STATE, 1), ("is", ES, 1), ne0], expect_some(ch, rem, width_at=at if fwd else None), name="Empty(Continue), chars left"),
        ]
        def normal_nonempty(case, LD=LD):
            # constructor invariant (DLG rows): the Normal state holds a non-empty delimiter
            try:
                return case.variants.get(STATE) != 0 or case.val(LD) != case.val(Int(0))
            except KeyError:
                return True
        _decide(ctx, prog, ty + "::next", b, paths, rows, {STATE: [0, 1], ES: [0, 1], f: [0, 1]},
                constraints=[table.found_fits(f, LT, LD), normal_nonempty, table.le(LD, LD), table.le(LT, LT)])   # (the two lengths are points of every case)


def _local_helpers(prog, mod, keep=()):
    """loop-free private helper functions of the iterator's own module: inlined, so that extracting/merging a helper is not
    mistaken for a change of behaviour"""
    out = set()
    for key, bs in prog.by_key.items():
        if key.startswith(mod) and key not in keep and "::" not in key[len(mod):]:
            for b_ in bs:
                if b_.rec.get("vis") != "pub" and not b_.loops():
                    out.add(key)
    return out


def misc(ctx, prog):
    pv = prov.Prov(prog)
    # constructors
    for mod, fn, ty in ((SP, "split", "Split"), (ST, "split_terminator", "SplitTerminator")):
        b = ctx.anchor(prog, mod + fn)
        if b is None:
            continue
        paths = sym.paths_of(b, prog, inline=_local_helpers(prog, mod))
        key = "%s|%s" % (prog.config, fn)
        pn = call(S + "pattern::PatternNorm::new", ("p", 2))
        ld = ("len", call(S + "pattern::PatternNorm::as_str", ("ref", pn)))
        lt0 = ("len", ("p", 1))

        def starts_in(*accepted, ty=ty, mod=mod, pn=pn):
            def f(path, case):
                v = table.strip_gargs(path.value)
                if not (v[0] == "agg" and v[1].endswith(ty + "#0") and v[2] == ("p", 1)):
                    return "builds %s, expected %s{this: input, ..}" % (show(v), ty)
                st = v[3]
                for a in accepted:
                    if a == "Normal" and is_state(mod, "Normal")(st) and st[2] == pn:
                        return None
                    if a != "Normal" and is_state(mod, "Empty", a)(st):
                        return None
                return "starts in %s, expected %s" % (show(st), " or ".join("Normal{delim: normalised pattern}" if a == "Normal" else "Empty(%s)" % a for a in accepted))
            return f
        # the third row: with an empty input and a non-empty delimiter, Normal and Empty(Continue) take the same single step in
        # both directions (TAB-SPLIT rows "Normal, no delimiter"/"Normal, remainder empty" and "Empty(Continue), exhausted"/
        # "Empty(Continue), remainder empty": same piece or end, empty remainder, same final state), so either is std's behaviour;
        # Empty(Start) is not (it yields one more "").
        rows = [
            Row([eq(ld, Int(0))], starts_in("Start"), name="empty delimiter"),
            Row([ne(ld, Int(0)), ne(lt0, Int(0))], starts_in("Normal"), name="non-empty delimiter"),
            Row([ne(ld, Int(0)), eq(lt0, Int(0))], starts_in("Normal", "Continue"), name="non-empty delimiter, empty input"),
        ]
        for p in paths:
            p.conds = tuple(table.strip_gargs(c) for c in p.conds)
        try:
            mism, n, dec = table.compare(paths, rows)
        except table.Undecided as e:
            ctx.violation("DLG", key, "%s: undecided: %s" % (fn, e), b.file())
            mism = []
        for m in mism[:2]:
            ctx.violation("DLG", key, "%s: %s" % (fn, m), b.file())
        ctx.instance("DLG", key)
    b = ctx.anchor(prog, SP + "rsplit")
    if b is not None:
        ps = sym.paths_of(b, prog, inline={SP + "Split::rev", SP + "RSplit::rev"})
        c0 = call(SP + "split", ("p", 1), ("p", 2))
        v0 = table.strip_gargs(ps[0].value) if len(ps) == 1 else ("?",)
        if not (v0[0] == "agg" and "RSplit#" in v0[1] and v0[2:] == (("field", c0, 0), ("field", c0, 1))):
            ctx.violation("DLG", prog.config + "|rsplit", "rsplit is %s, expected split(this, delim).rev()" % show(ps[0].value), b.file())
        ctx.instance("DLG", prog.config + "|rsplit")
    b = ctx.anchor(prog, ST + "rsplit_terminator")
    if b is not None:
        ps = sym.paths_of(b, prog)
        c = call(ST + "split_terminator", ("p", 1), ("p", 2))
        ok = len(ps) == 1 and table.strip_gargs(ps[0].value)[2:] == (("field", c, 0), ("field", c, 1)) and "RSplitTerminator" in ps[0].value[1]
        if not ok:
            # not literally `split_terminator(..)`'s fields: accept any body that builds the same (this, state) as split_terminator
            # does once both are inlined (module-local helpers and each other)
            hs = _local_helpers(prog, ST) | {ST + "split_terminator"}
            fwd = ctx.anchor(prog, ST + "split_terminator")

            def tab(bb):
                return sorted((repr(tuple(sorted(map(repr, (table.norm_atom(c_) for c_ in p_.conds))))), p_.kind,
                               repr(table.strip_gargs(p_.value)).replace("RSplitTerminator", "SplitTerminator"))
                              for p_ in sym.paths_of(bb, prog, inline=hs))
            ok = fwd is not None and tab(b) == tab(fwd) and all("RSplitTerminator" in repr(p_.value) for p_ in sym.paths_of(b, prog, inline=hs))
        if not ok:
            ctx.violation("DLG", prog.config + "|rsplit_terminator", "rsplit_terminator is %s, expected the fields of split_terminator(this, delim)" % show(ps[0].value), b.file())
        ctx.instance("DLG", prog.config + "|rsplit_terminator")
    for mod, ty in ((SP, "Split"), (SP, "RSplit"), (ST, "SplitTerminator"), (ST, "RSplitTerminator")):
        b = ctx.anchor(prog, mod + ty + "::remainder")
        if b is not None:
            ps = [p for p in sym.paths_of(b, prog) if p.kind != "unreachable"]
            me = ("deref", ("p", 1))
            bad = None
            for p in ps:
                if p.kind == "return" and p.value == ("field", me, 0):
                    continue
                # Finished => the remainder is empty: every row of TAB-SPLIT that enters Finished ("Normal, no delimiter: last
                # piece", "Empty(Continue), exhausted") leaves an empty remainder and no constructor starts there, so answering
                # "" for a finished Split/RSplit is the same answer
                fin = mod == SP and any(table.norm_atom(table.strip_gargs(c)) == ("is", ("field", me, 1), 2) for c in p.conds)
                if p.kind == "return" and fin and isinstance(p.value, tuple) and p.value[0] == "lit" and p.value[1] == b"":
                    continue
                bad = p
            if bad is not None or not ps:
                ctx.violation("DLG", "%s|%s::remainder" % (prog.config, ty), "remainder() returns %s%s" % (
                    show(bad.value) if bad is not None and isinstance(bad.value, tuple) else "?",
                    (" under " + " & ".join(sym.show_atom(c) for c in bad.conds)) if bad is not None and bad.conds else ""), b.file())
            ctx.instance("DLG", "%s|%s::remainder" % (prog.config, ty))
    for mod, ty in ((SP, "Split"), (SP, "RSplit"), (ST, "SplitTerminator"), (ST, "RSplitTerminator")):
        accessors.rebuild(ctx, "ACC", prog, mod + ty + "::copy", nfields=2)
    for ty in ("Split", "RSplit"):
        b = prog.get(SP + ty + "::rev")
        if b is not None:
            ps = sym.paths_of(b, prog)
            v = ps[0].value if len(ps) == 1 else None
            ok = v is not None and v[0] == "agg" and list(v[2:]) == [("field", ("p", 1), 0), ("field", ("p", 1), 1)] and (("RSplit" in v[1]) != (ty == "RSplit"))
            if not ok:
                ctx.violation("ISO", "%s|%s::rev" % (prog.config, ty), "%s::rev builds %s" % (ty, show(v) if v else "?"), b.file())
            ctx.instance("ISO", "%s|%s::rev" % (prog.config, ty))
