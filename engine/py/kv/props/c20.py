"""C20 — concatenation/join macros and CStr conversions equal their std counterparts.

CSTR   scan template of from_bytes_until_nul (first nul from 0, count i+1), tables of from_bytes_until_nul /
       from_bytes_with_nul (Ok iff first_nul+1 == len), the terminator walk of to_bytes_with_nul, to_bytes strips
       exactly the last byte, to_str = checked from_utf8.
CONCAT length sums (term sum' = sum + len(piece_i), join: + sep.len()*(n-1), 0 if empty), write loops (byte j of
       the piece goes to out[out_i], out_i advances by one, safe indexing), write order first,(sep,piece)*,
       __ElemDispatch / __SepArg len vs bytes per kind, ArrayStr::as_str re-validates, both consts of an
       expansion read the same ARGS constant (witness).
"""
from .. import loops, sym, table
from ..sym import show
from ..table import Row, lt, le, eq, ne, Int
from .c19 import witness_program

CS = "konst::ffi::cstr::"
SK = "konst_kernel::string::string_for_konst::"
SL = "konst_kernel::slice::slice_for_konst::"
P1 = ("p", 1)


def run(ctx):
    ctx.explanation = ("scan/walk templates and decision tables of the CStr functions; length-sum terms, byte-copy loop relations, "
                       "write order and per-kind length/bytes agreement of the concat/join machinery; macro expansions read one ARGS")
    for cfg in (["FULL"] if ctx.tier == "quick" else ["FULL", "MIN"]):
        prog = ctx.program(cfg)
        cstr(ctx, prog)
        checked_utf8(ctx, prog, cfg)
        concat(ctx, prog)
        first_elem(ctx, prog)
    expansions(ctx)
    from .. import macrolint, facts
    macrolint.hygiene_rule(ctx, ["string_concat", "string_join", "slice_concat", "str_from_iter"], facts.REPO)
    ctx.floor("CSTR", 7)
    ctx.floor("CONCAT", 14)
    ctx.floor("EXPAND", 3)
    ctx.floor("FIRST-ELEM", 2)


def _viol(ctx, rule, key, msg, b):
    ctx.violation(rule, key, msg, b.file() if b is not None else None)


def cstr(ctx, prog):
    cfg = prog.config
    b = ctx.anchor(prog, CS + "from_bytes_until_nul_inner")
    if b is not None:
        paths = sym.through_loops(b, prog, keep_back=True)
        c = loops.counted(paths, ("len", P1))
        key = cfg + "|from_bytes_until_nul_inner"
        if c is None or c["bound"] != ("len", P1):
            _viol(ctx, "CSTR", key, "the nul scan is not a counted loop over 0..bytes.len()", b)
        else:
            for m in c["problems"]:
                _viol(ctx, "CSTR", key + "|counter", "nul scan: " + m, b)
            I = c["I"]
            byte = ("index", ("deref", P1), I)
            n1 = ("bin", "Add", I, Int(1))

            def hit(path, case):
                v = table.strip_gargs(path.value)
                want = table.Ok(("agg", "adt:konst::ffi::cstr::CStrAndLen::CStrAndLen#0",
                                 ("call", "core::ffi::CStr::from_bytes_with_nul_unchecked", None, ("call", "konst_kernel::slice::slice_up_to", None, P1, n1)), n1))
                return None if v == want else "at the first nul (index i) expected Ok{cstr: bytes[..i+1], len: i+1}, got %s" % show(v)

            def err(path, case):
                v = path.value
                return None if v[0] == "agg" and v[1].endswith("Err#1") else "expected Err, got %s" % show(v)
            rows = [Row([lt(I, ("len", P1)), eq(byte, Int(0, "u8"))], hit, name="nul at i"),
                    Row([lt(I, ("len", P1)), ne(byte, Int(0, "u8"))], None, kind="back", name="non-nul: continue"),
                    Row([le(("len", P1), I)], err, name="no nul")]
            _cmp(ctx, "CSTR", key, b, paths, rows)
    # from_bytes_until_nul: Ok(c) -> Ok(c.cstr)
    inner = ("call", CS + "from_bytes_until_nul_inner", None, P1)
    okp = ("vfield", inner, 0, 0)
    b = ctx.anchor(prog, CS + "from_bytes_until_nul")
    if b is not None:
        paths = _strip(sym.paths_of(b, prog))
        rows = [Row([("is", inner, 0)], lambda p, c: None if table.strip_gargs(p.value) == table.Ok(("field", okp, 0)) else "expected Ok(inner.cstr), got %s" % show(p.value), name="Ok"),
                Row([("is", inner, 1)], lambda p, c: None if table.strip_gargs(p.value) == table.Err(("vfield", inner, 1, 0)) else "expected Err(e), got %s" % show(p.value), name="Err")]
        _cmp(ctx, "CSTR", cfg + "|from_bytes_until_nul", b, paths, rows, vdom={inner: [0, 1]})
    b = ctx.anchor(prog, CS + "from_bytes_with_nul")
    if b is not None:
        paths = _strip(sym.paths_of(b, prog, inline={CS + "from_bytes_with_nul::make_not_null_term_err"}))
        lwn = ("field", okp, 1)
        L = ("len", P1)

        def ok(p, c):
            return None if table.strip_gargs(p.value) == table.Ok(("field", okp, 0)) else "expected Ok(the CStr up to the first nul), got %s" % show(p.value)

        def er(p, c):
            v = p.value
            return None if v[0] == "agg" and v[1].endswith("Err#1") else "expected Err, got %s" % show(v)
        rows = [Row([("is", inner, 0), eq(lwn, L)], ok, name="first nul is the last byte"),
                Row([("is", inner, 0), ne(lwn, L)], er, kind="any", name="nul before the end"),
                Row([("is", inner, 1)], er, name="no nul")]
        # (the scan returns Ok{bytes[..i+1], i+1}: the length with the nul is at least 1 and at most the input's length - scan template above)
        _cmp(ctx, "CSTR", cfg + "|from_bytes_with_nul", b, paths, rows, vdom={inner: [0, 1]}, facts_=[le(Int(1), lwn), le(lwn, L)])
    b = ctx.anchor(prog, CS + "to_bytes_with_nul")
    if b is not None:
        paths = sym.through_loops(b, prog, keep_back=True)
        key = cfg + "|to_bytes_with_nul"
        back = [p for p in paths if p.kind == "back"]
        rets = [p for p in paths if p.kind == "return"]
        ok = len(back) == 1 and len(rets) == 1
        if ok:
            start = ("call", "core::ptr::const_ptr::<impl *const T>::cast", None, ("call", "core::ffi::CStr::as_ptr", None, P1))
            il = [l for l, v in back[0].env.items() if v == ("bin", "Add", ("L", l), Int(1))]
            ok = len(il) == 1
            if ok:
                I = ("L", il[0])
                # the counter may count the bytes seen so far (from 0: tests byte i, returns i + 1 bytes) or the bytes including the
                # one under test (from 1: tests byte len - 1, returns len bytes) - the same walk with i = len - 1
                init = None
                for e in rets[0].events:
                    if e[0] == "loop":
                        init = dict(e[2]).get(il[0])
                ok = False
                for c0 in (0, 1):
                    off = I if c0 == 0 else ("bin", "Sub", I, Int(1))
                    cnt = ("bin", "Add", I, Int(1)) if c0 == 0 else I
                    cell = ("deref", ("ptr_add", start, off))
                    if init == Int(c0) \
                            and ne(cell, Int(0, "u8")) in [table.norm_atom(table.strip_gargs(c)) for c in back[0].conds] \
                            and eq(cell, Int(0, "u8")) in [table.norm_atom(table.strip_gargs(c)) for c in rets[0].conds] \
                            and table.strip_gargs(rets[0].value) == ("raw_parts", start, cnt):
                        ok = True
        if not ok:
            _viol(ctx, "CSTR", key, "to_bytes_with_nul is not `walk from the start to the first nul byte, return the i+1 bytes`", b)
        ctx.instance("CSTR", key, sample={"fn": "to_bytes_with_nul", "template": "walk to first 0, count i+1"})
    # to_bytes / to_str.  Facts about w = to_bytes_with_nul(this), established by the walk template above: len(w) >= 1 and its last
    # byte is 0.  A panicking path is acceptable only under a condition that contradicts them (the `unreachable!()` arm, the
    # overflow check of `len - 1`); a returning path must yield the view w[..len-1] (to_bytes), or from_utf8 of that view with
    # its Ok/Err passed on unchanged (to_str).
    w = ("call", CS + "to_bytes_with_nul", None, P1)
    LW = ("len", w)
    last = ("cidx", ("deref", w), 1, True)

    def impossible(p):
        for c in p.conds:
            c = table.norm_atom(table.strip_gargs(c))
            if c in (lt(LW, Int(1)), eq(LW, Int(0)), le(LW, Int(0))):
                return True
            if c[0] in ("notin", "ne") and c[1] == last and (c[0] == "ne" and c[2][:2] == ("int", 0) or c[0] == "notin" and 0 in c[2]):
                return True
        return False

    def is_body_view(t):
        from .c08 import as_view
        t = table.strip_gargs(t)
        want = sym.mk_bin("Sub", LW, Int(1))
        # the slicing primitives (their tables are C03's): slice_up_to(w, n) = w[..min(n, len)], slice_range(w, 0, n) likewise
        if t[0] == "call" and t[1] == "konst_kernel::slice::slice_up_to" and t[3:] == (w, want):
            return True
        if t[0] == "call" and t[1] == "konst_kernel::slice::slice_range" and t[3:] == (w, Int(0), want):
            return True
        r = as_view(t, w, LW)
        return r is not None and r != ("empty",) and r[0] == Int(0) and sym.mk_bin("Sub", LW, Int(1)) == r[1]
    b = ctx.anchor(prog, CS + "to_bytes")
    if b is not None:
        msg = None
        n_ret = 0
        for p in sym.paths_of(b, prog):
            if p.kind == "return":
                n_ret += 1
                if not is_body_view(p.value):
                    msg = "returns %s" % show(p.value)
            elif not impossible(p):
                msg = msg or "can %s although to_bytes_with_nul always returns a nul-terminated, non-empty slice (conditions: %s)" % (
                    p.kind, [sym.show_atom(c) for c in p.conds])
        if msg or not n_ret:
            _viol(ctx, "CSTR", cfg + "|to_bytes", "to_bytes must return to_bytes_with_nul(this) without exactly its last byte: %s" % (msg or "no returning path"), b)
        ctx.instance("CSTR", cfg + "|to_bytes")
    b = ctx.anchor(prog, CS + "to_str")
    if b is not None:
        msg = None
        seen = set()
        for p in sym.paths_of(b, prog, inline={CS + "to_bytes"}):
            if p.kind != "return":
                if not impossible(p):
                    msg = msg or "can %s (conditions: %s)" % (p.kind, [sym.show_atom(c) for c in p.conds])
                continue
            if impossible(p):
                continue
            v = table.strip_gargs(p.value)

            def checked(t):
                return t[0] == "call" and t[1].endswith("string::from_utf8") and len(t) == 4 and is_body_view(t[3])
            if checked(v):
                seen |= {0, 1}
                continue
            # Ok(x) => Ok(x), Err(e) => Err(e): the result rebuilt variant by variant
            ok = False
            if v[0] == "agg" and len(v) == 3 and v[2][0] == "vfield" and checked(v[2][1]) and v[2][3] == 0:
                k = v[2][2]
                tag = "Result::Ok#0" if k == 0 else "Result::Err#1"
                if v[1].endswith(tag) and ("is", table.strip_gargs(v[2][1]), k) in [table.norm_atom(table.strip_gargs(c)) for c in p.conds]:
                    ok = True
                    seen.add(k)
            if not ok:
                msg = msg or "returns %s" % show(v)
        if seen != {0, 1}:
            msg = msg or "does not pass on both Ok and Err of from_utf8"
        if msg:
            _viol(ctx, "CSTR", cfg + "|to_str", "to_str must be the checked from_utf8 of to_bytes_with_nul(this) without its last byte: %s" % msg, b)
        ctx.instance("CSTR", cfg + "|to_str")


def checked_utf8(ctx, prog, cfg):
    """konst::string::from_utf8 (what to_str and ArrayStr::as_str call) is core's checked validation, result passed on"""
    b = ctx.anchor(prog, "konst::string::from_utf8")
    if b is None:
        return
    c = ("call", "core::str::from_utf8", None, P1)
    seen = set()
    msg = None
    for p in sym.paths_of(b, prog):
        v = table.strip_gargs(p.value) if isinstance(p.value, tuple) else p.value
        conds = [table.norm_atom(table.strip_gargs(x)) for x in p.conds]
        if p.kind != "return":
            msg = msg or "can %s" % p.kind
        elif v == c:
            seen |= {0, 1}
        elif ("is", c, 0) in conds and v == ("agg", "adt:core::result::Result::Ok#0", ("vfield", c, 0, 0)):
            seen.add(0)
        elif ("is", c, 1) in conds and v[0] == "agg" and v[1].endswith("Result::Err#1") and v[2][0] == "agg" and "Utf8Error" in v[2][1] \
                and v[2][2:] == (("vfield", c, 1, 0),):
            seen.add(1)
        else:
            msg = msg or "returns %s" % show(v)
    if seen != {0, 1}:
        msg = msg or "does not pass on both outcomes of core::str::from_utf8"
    if msg:
        _viol(ctx, "CSTR", cfg + "|from_utf8", "string::from_utf8 must be core::str::from_utf8 with Ok passed on and the error wrapped: %s" % msg, b)
    ctx.instance("CSTR", cfg + "|from_utf8")


def _strip(paths):
    for p in paths:
        p.conds = tuple(table.strip_gargs(c) for c in p.conds)
    return paths


def _cmp(ctx, rule, key, b, paths, rows, vdom=None, facts_=()):
    from .c08 import arith_constraints
    try:
        mism, n, dec = table.compare(_strip(paths), rows, variant_domain=vdom, constraints=arith_constraints(paths) + list(facts_))
    except table.Undecided as e:
        _viol(ctx, rule, key, "undecided: %s" % e, b)
        return
    ctx.instance(rule, key, nontrivial=dec >= 2, sample={"what": key, "cases": n, "decided": dec})
    for m in mism[:3]:
        _viol(ctx, rule, key + "|" + m.row.name, "%s: %s" % (key.split("|")[-1], m), b)


def _base_advance(b, prog, inner_h, base, src):
    """chunk-copy form: on every way round the enclosing loop that ran the copy loop `inner_h`, the base offset must grow by
    exactly the length of the piece that was copied (and by nothing else)"""
    try:
        paths = sym.through_loops(b, prog, keep_back=True, nested=True)
    except sym.TooManyPaths:
        return "too many paths to check how the base offset advances"
    seen = False
    want_len = sym.mk_len(sym.mk_ref(src)) if src[0] != "deref" else sym.mk_len(src[1])
    for p in paths:
        if p.kind != "back" or p.value == inner_h:
            continue
        if not any(e[0] == "loop" and e[1] == inner_h for e in p.events):
            # a round that skipped the copy (e.g. an empty piece): the base must not move
            v = p.env.get(base[1], base)
            if v not in (base, ("L", base[1])):
                return "the base offset changes on a round that copies nothing: %s" % show(v)
            continue
        seen = True
        v = p.env.get(base[1])
        ok = v is not None and v[0] == "bin" and v[1] == "Add" and v[2] in (base, ("L", base[1], inner_h)) and v[3][0] == "len"
        if ok:
            # the piece the copy loop read from, as the enclosing loop sees it
            cands = [want_len]
            if src[0] == "deref" and src[1][0] == "L" and src[1][1] in p.env:
                pv = p.env[src[1][1]]
                cands += [sym.mk_len(pv), ("len", pv), ("len", ("deref", pv))]
                if pv[0] == "ref":
                    cands += [sym.mk_len(pv[1]), ("len", pv[1])]
            ok = any(_same_piece(v[3], c) for c in cands)
        if not ok:
            return "after the copy the base offset becomes %s, expected base + len(piece)" % (show(v) if v else "?")
    return None if seen else "cannot find where the base offset advances"


def _same_piece(a, b_):
    """len terms over the same piece, modulo the header tag of inner-loop symbols"""
    def strip(t):
        if isinstance(t, tuple):
            if t and t[0] == "L":
                return ("L", t[1])
            return tuple(strip(x) for x in t)
        return t
    return strip(a) == strip(b_)


def write_loops(b, prog):
    """for every innermost loop of a fill function: (header, dest term, dest index local, source slice term, ok?)"""
    out = []
    lp = b.loops()
    inner = [h for h in lp if not any(h2 != h and h2 in lp[h] for h2 in lp)]
    for h in inner:
        rel = sym.loop_relation(b, h, prog)
        for p in rel:
            if p.kind == "cut" and p.value == h:
                stores = [e for e in p.events if e[0] == "store"]
                if len(stores) != 1:
                    out.append((h, None, None, None, "back edge with %d stores" % len(stores)))
                    continue
                _, dest, idx, val = stores[0]
                msg = None
                based = None
                if idx[0] == "bin" and idx[1] == "Add" and idx[2][0] == "L" and idx[3][0] == "L" and val[0] == "index" and val[2] == idx[3] \
                        and p.env.get(idx[2][1], idx[2]) == idx[2]:
                    # chunk form: out[base + j] = piece[j] with `base` fixed during the copy and advanced by the piece length after it
                    based = idx[2]
                    msg = _base_advance(b, prog, h, based, val[1])
                    idx = based
                elif idx[0] != "L" or p.env.get(idx[1]) != ("bin", "Add", idx, Int(1)):
                    msg = "destination index is not advanced by exactly one per byte"
                src = None
                if val[0] == "index" and val[2][0] == "L" and p.env.get(val[2][1]) == ("bin", "Add", val[2], Int(1)):
                    src = val[1]
                    # guarded by j < len(src)
                    if not any(c == lt(val[2], sym.mk_len(sym.mk_ref(src))) or (c[0] == "lt" and c[1] == val[2]) for c in p.conds):
                        msg = msg or "source index is not guarded by the piece length"
                elif val[0] == "agg" and "MaybeUninit" in val[1]:
                    src = val
                else:
                    msg = msg or "stored value %s is not `piece[j]`" % show(val)
                # safe indexing: a bounds-check panic path exists for the store
                if not any(q.kind == "panic" and q.value == ("panic", "bounds") for q in rel):
                    msg = msg or "the store is not bounds-checked"
                out.append((h, dest, idx, src, msg))
    return out


def concat(ctx, prog):
    cfg = prog.config
    # ---- sums
    for mod, fn in ((SK, "concat_sum_lengths"), (SL, "concat_sum_lengths")):
        b = ctx.anchor(prog, mod + fn)
        if b is None:
            continue
        key = "%s|%s%s" % (cfg, "str::" if mod == SK else "slice::", fn)
        paths = sym.through_loops(b, prog, keep_back=True)
        groups = {}
        for p in paths:
            var = tuple(c for c in p.conds if c[0] == "is" and c[1] == P1)
            groups.setdefault(var, []).append(p)
        bad = None
        for var, ps in groups.items():
            c = loops.counted(ps)
            if c is None:
                bad = "no counted loop"
                continue
            bad = bad or (c["problems"][0] if c["problems"] else None)
            I = c["I"]
            coll = c["bound"][1] if c["bound"][0] == "len" else None
            if coll is None:
                bad = bad or "loop bound %s is not the number of pieces" % show(c["bound"])
                continue
            for p in c["back"]:
                acc = [(l, v) for l, v in p.env.items() if v[0] == "bin" and v[1] == "Add" and v[2] == ("L", l) and l != c["counter"]]
                if len(acc) != 1:
                    bad = bad or "no single accumulator"
                    continue
                l, v = acc[0]
                add = table.strip_gargs(v[3])
                elem = ("index", ("deref", coll), I)
                ok = add == ("len", elem) or add == ("call", SK + "__ElemDispatch::len", None, ("agg", "adt:" + SK + "__ElemDispatch::__ElemDispatch#0", elem))
                if not ok:
                    bad = bad or "each iteration adds %s, expected the length of piece i" % show(add)
                for q in c["exits"]:
                    if q.kind == "return" and q.value != ("L", l):
                        bad = bad or "returns %s, expected the accumulated sum" % show(q.value)
                    for e in q.events:
                        if e[0] == "loop" and dict(e[2]).get(l) != Int(0):
                            bad = bad or "sum does not start at 0"
        if bad:
            _viol(ctx, "CONCAT", key, "%s: %s" % (fn, bad), b)
        ctx.instance("CONCAT", key, sample={"fn": fn, "term": "sum' = sum + len(piece_i), i in 0..n"})
    # ---- join length
    b = ctx.anchor(prog, SK + "join_sum_lengths")
    if b is not None:
        paths = _strip(sym.paths_of(b, prog))
        sep, sl = ("field", P1, 0), ("field", P1, 1)
        n = ("len", sl)
        want = ("bin", "Add", ("call", SK + "concat_sum_lengths", None, ("agg", "adt:" + SK + "__StrConcatArg::Str#1", sl)),
                ("bin", "Mul", ("call", SK + "__SepArg::len", None, sep), ("bin", "Sub", n, Int(1))))
        rows = [Row([eq(n, Int(0))], lambda p, c: None if p.value == Int(0) else "empty list must have length 0, got %s" % show(p.value), name="empty"),
                Row([ne(n, Int(0))], lambda p, c: None if table.strip_gargs(p.value) == want else "expected sum(len) + sep.len()*(n-1), got %s" % show(p.value), name="non-empty")]
        _cmp(ctx, "CONCAT", cfg + "|join_sum_lengths", b, paths, rows)
    # ---- per-kind length / bytes agreement
    for bdy in prog.by_key.get(SK + "__ElemDispatch::len", []) + prog.by_key.get(SK + "__ElemDispatch::as_bytesable", []) + prog.by_key.get(SK + "__SepArg::len", []):
        st = bdy.rec.get("impl_self") or ""
        nm = bdy.key.split("::")[-1]
        key = "%s|%s<%s>" % (cfg, nm, st.split("<", 1)[-1].rstrip(">"))
        ps = [p for p in sym.paths_of(bdy, prog) if p.kind == "return"]
        msg = None
        for p in ps:
            v = table.strip_gargs(p.value)
            x = ("field", P1, 0)
            if "__SepArg" in bdy.key:
                is_char = ("is", P1, 0) in p.conds
                inner = ("vfield", P1, 0, 0) if is_char else ("vfield", P1, 1, 0)
                want = ("call", "core::char::methods::<impl char>::len_utf8", None, inner) if is_char else ("len", inner)
            elif "char" in st:
                xx = ("deref", x) if "&" in st.split("<", 1)[-1] else x
                want = ("call", "core::char::methods::<impl char>::len_utf8", None, xx) if nm == "len" else ("call", "konst_kernel::chr::char_formatting::encode_utf8", None, xx)
                if nm != "len" and v[0] == "call" and v[1].endswith("encode_utf8") and v[3] == xx:
                    want = v
            else:
                xx = ("deref", x) if st.count("&") > 1 else x
                want = ("len", xx) if nm == "len" else xx
            if v != want:
                msg = "returns %s, expected %s" % (show(v), show(want))
        if msg:
            _viol(ctx, "CONCAT", key, "%s for %s %s" % (nm, st, msg), bdy)
        ctx.instance("CONCAT", key, sample={"fn": nm, "self": st})
    # ---- fill functions: every innermost loop copies piece[j] -> out[out_i], out_i += 1, bounds-checked
    for mod, fn, nloops in ((SK, "concat_strs", 2), (SK, "join_strs", 3), (SL, "concat_slices", 1)):
        b = ctx.anchor(prog, mod + fn)
        if b is None:
            continue
        key = "%s|%s" % (cfg, fn)
        wl = write_loops(b, prog)
        if len(wl) < nloops:
            _viol(ctx, "CONCAT", key, "%s: found %d byte-copy loops, expected %d" % (fn, len(wl), nloops), b)
        dests = set()
        idxs = set()
        for h, dest, idx, src, msg in wl:
            if msg:
                _viol(ctx, "CONCAT", key + "|copy", "%s: copy loop at bb%d: %s" % (fn, h, msg), b)
            if idx is not None:
                idxs.add(idx)
        if len(idxs) > 1:
            _viol(ctx, "CONCAT", key + "|cursor", "%s: the copy loops use different output cursors %s" % (fn, sorted(map(show, idxs))), b)
        ctx.instance("CONCAT", key, sample={"fn": fn, "copy_loops": len(wl)})
        if fn == "join_strs":
            # order: first piece, then inside the loop over the remaining pieces: separator, then piece
            hs = sorted(h for h, *_ in wl)
            lp = b.loops()
            outer = [h for h in lp if any(h2 != h and h2 in lp[h] for h2 in hs)]
            order_ok = False
            if len(outer) == 1 and len(hs) == 3:
                o = outer[0]
                inside = [h for h in hs if h in lp[o]]
                first = [h for h in hs if h not in lp[o]]
                if len(inside) == 2 and len(first) == 1 and b.dominates(first[0], o):
                    a, c = inside
                    if b.dominates(c, a):
                        a, c = c, a
                    if b.dominates(a, c):
                        srcs = {h: src for h, _, _, src, _ in wl}
                        # the second loop reads rem_slices[si] (an indexed piece); the first reads the loop-invariant separator
                        order_ok = _reads_indexed(b, srcs.get(c)) and not _reads_indexed(b, srcs.get(a)) and not _reads_indexed(b, srcs.get(first[0])) is None
            if not order_ok:
                _viol(ctx, "CONCAT", key + "|order", "join_strs must write the first piece, then for every remaining piece the separator followed by the piece", b)
            ctx.instance("CONCAT", key + "|order")
    b = ctx.anchor(prog, SK + "ArrayStr::as_str")
    if b is not None:
        paths = _strip(sym.paths_of(b, prog))
        ok = True
        seen = set()
        for p in paths:
            calls = [e[1] for e in p.events if e[0] == "call"]
            if p.kind == "return":
                seen.add("ok")
                ok = ok and any(c.endswith("str::converts::from_utf8") or c.endswith("str::from_utf8") for c in calls)
                ok = ok and p.value[0] == "vfield"
            elif p.kind == "panic":
                seen.add("panic")
        if not ok or seen != {"ok", "panic"}:
            _viol(ctx, "CONCAT", cfg + "|ArrayStr::as_str", "ArrayStr::as_str must re-validate with the checked from_utf8 and panic on Err", b)
        ctx.instance("CONCAT", cfg + "|ArrayStr::as_str")


def first_elem(ctx, prog):
    """concat_slices fills its output with `*first_elem(slices)` before copying: first_elem may give up (panic) only when every piece
    is empty - which, with N = the sum of the lengths, is the N == 0 case concat_slices returns from before calling it.  Walk template
    over the list of pieces, with the cursor either an index (from 0, +1) or a running remainder (from the whole list, minus its first
    piece): panic <=> the cursor is exhausted; go on <=> the current piece is empty; otherwise return an element of the current piece."""
    cfg = prog.config
    b = ctx.anchor(prog, SL + "first_elem")
    if b is None:
        return
    key = cfg + "|first_elem"
    try:
        paths = sym.through_loops(b, prog, keep_back=True)
    except sym.TooManyPaths:
        paths = []
    back = [p for p in paths if p.kind == "back"]
    c = loops.counted(paths, ("len", P1))
    cursor = None
    if c is not None and c["bound"] == ("len", P1) and not c["problems"]:
        I = c["I"]
        cursor = "index"
        piece = ("index", ("deref", P1), I)
        live, done = [lt(I, ("len", P1))], [le(("len", P1), I)]
        adv = lambda p: p.env.get(c["counter"]) == ("bin", "Add", I, Int(1))
    else:
        rl = {l for p in back for l, v in p.env.items() if v == ("ref", ("subslice", ("deref", ("L", l)), 1, 0, True))}
        inits = {dict(e[2]).get(l) for p in paths for e in p.events if e[0] == "loop" for l in rl}
        if len(rl) == 1 and inits == {P1}:
            l = rl.pop()
            R = ("L", l)
            cursor = "remainder"
            piece = ("cidx", ("deref", R), 0, False)
            live, done = [le(Int(1), ("len", R))], [lt(("len", R), Int(1))]
            adv = lambda p: p.env.get(l) == ("ref", ("subslice", ("deref", R), 1, 0, True))
    if cursor is None:
        _viol(ctx, "FIRST-ELEM", key, "first_elem is not a walk over the pieces (an index from 0 in steps of one up to slices.len(), or a remainder "
              "that loses its first piece per step): a piece could be skipped, and concat_slices would panic on a non-empty list", b)
        ctx.instance("FIRST-ELEM", key)
        return

    def goes_on(p, case):
        return None if adv(p) else "the cursor must advance by exactly one piece"

    def elem(p, case):
        v = table.strip_gargs(p.value)
        ok = v[0] == "ref" and v[1][0] in ("cidx", "index") and v[1][1] == ("deref", piece)
        return None if ok else "expected a reference to an element of the current (non-empty) piece, got %s" % show(v)

    def gives_up(p, case):
        return None
    rows = [Row(done, gives_up, kind="panic", name="no piece left"),
            Row(live + [eq(("len", piece), Int(0))], goes_on, kind="back", name="empty piece: continue"),
            Row(live + [le(Int(1), ("len", piece))], elem, name="non-empty piece")]
    _cmp(ctx, "FIRST-ELEM", key, b, paths, rows)
    # and concat_slices asks for it only after the N == 0 return
    cb = ctx.anchor(prog, SL + "concat_slices")
    if cb is not None:
        msg = None
        sites = [(bb, t) for bb, t in cb.calls() if ((t.get("callee") or {}).get("path") or "").endswith("::first_elem")]
        empt = [(bb, t) for bb, t in cb.calls() if ((t.get("callee") or {}).get("path") or "").endswith("::try_into_array_func")]
        if len(sites) != 1 or len(empt) != 1:
            msg = "expected one first_elem call and one empty-array test (found %d, %d)" % (len(sites), len(empt))
        elif not cb.dominates(empt[0][0], sites[0][0]):
            msg = "first_elem(slices) is called before the `N == 0` (empty output) return"
        if msg:
            _viol(ctx, "FIRST-ELEM", cfg + "|concat_slices", "concat_slices: " + msg, cb)
        ctx.instance("FIRST-ELEM", cfg + "|concat_slices")


def _reads_indexed(b, src, depth=0):
    """does the source slice of a copy loop come from an indexed element (`pieces[si]`)?"""
    if src is None:
        return None
    t = src
    while t[0] in ("deref", "ref"):
        t = t[1]
    if t[0] != "L":
        return "'index'" in repr(t)
    return _local_indexed(b, t[1], 0)


def _local_indexed(b, l, depth):
    if depth > 6:
        return False
    for bb, i, rv in b.defs_of(l):
        places = []
        if i == "term":
            places = [a["place"] for a in rv["args"] if a["k"] in ("copy", "move")]
        elif rv["k"] in ("use",) and rv["op"]["k"] in ("copy", "move"):
            places = [rv["op"]["place"]]
        elif rv["k"] in ("ref", "rawptr"):
            places = [rv["place"]]
        for pl in places:
            if any(pe["k"] == "index" for pe in pl["p"]):
                return True
            if _local_indexed(b, pl["l"], depth + 1):
                return True
    return False


EXP_SRC = '''
#![allow(unused)]
pub const A: &str = konst::string::str_concat!(&["ab", "cd", ""]);
pub const B: &str = konst::string::str_join!(", ", &["ab", "cd"]);
pub const C: [u8; 3] = konst::slice::slice_concat!(u8, &[&[1, 2], &[3]]);
'''


def _const_source(b, l, depth):
    if depth > 5:
        return None
    for _, i, rv in b.defs_of(l):
        if i == "term":
            continue
        if rv["k"] == "use" and rv["op"]["k"] == "const":
            return rv["op"].get("uneval")
        pl = rv["op"]["place"] if rv["k"] == "use" and rv["op"]["k"] in ("copy", "move") else rv.get("place")
        if pl is not None:
            r = _const_source(b, pl["l"], depth + 1)
            if r:
                return r
    return None


def expansions(ctx):
    prog, diag = witness_program(ctx, "w20", EXP_SRC)
    if prog is None:
        ctx.violation("EXPAND", "witness", "the concat/join witness does not compile:\n%s" % diag[-1500:])
        return
    for owner, lenfn, fillfn in (("A", "concat_sum_lengths", "concat_strs"), ("B", "join_sum_lengths", "join_strs"), ("C", "concat_sum_lengths", "concat_slices")):
        bodies = [b for b in prog.bodies if b.crate == "w20" and b.key.startswith("w20::%s::" % owner)]
        args_used = {}
        for b in bodies:
            for _, t in b.calls():
                if not t.get("callee"):
                    continue
                nm = t["callee"]["path"].split("::")[-1]
                if nm in (lenfn, fillfn):
                    a0 = t["args"][0]
                    src = None
                    if a0["k"] == "const":
                        src = a0.get("uneval")
                    else:
                        src = _const_source(b, a0["place"]["l"], 0)
                    args_used[nm] = src
        key = owner + "|" + fillfn
        if set(args_used) != {lenfn, fillfn} or None in args_used.values() or len(set(args_used.values())) != 1:
            ctx.violation("EXPAND", key, "the expansion must compute LEN with %s and the bytes with %s from the same ARGS constant; found %s" % (lenfn, fillfn, args_used))
        ctx.instance("EXPAND", key, sample={"macro": fillfn, "args_const": list(args_used.values())[:1]})
