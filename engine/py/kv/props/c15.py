"""C15 — by-value array and aggregate APIs move out every element exactly once.

LINEAR   destructure! witnesses (braced / tuple struct, tuple 1..16, arrays with prefix / rest / suffix, `_`,
         packed, generic, ZST and Drop fields): the value is wrapped in ManuallyDrop exactly once and never
         dropped as a whole; there is exactly one ptr::read / read_unaligned per field (element), from distinct
         field projections (element offsets that tile [0,N) in order) of that one pointer, in pattern order; a `_`
         binding's value is dropped right away; the function returns the read values unchanged.
CONSUMER ArrayConsumer: next/next_back read array[taken_front] / array[N-taken_back-1] only when non-empty and
         advance the matching counter by one; as_slice and Drop cover exactly [taken_front, N-taken_back); new/empty
         establish the invariant; only new/empty/next/next_back/clone/copy write the counters; assert_is_empty
         forgets only an empty consumer.   BUILDER-DROP: ArrayBuilder's Drop covers [0, inited).
"""
from .. import sym, table
from ..sym import show
from .c19 import witness_program

D = "konst::macros::destructuring::"
CASTS = {D + "cast_manuallydrop_ptr", D + "cast_manuallydrop_array_ptr", D + "cast_ptr_with_phantom"}


def tuple_witness(n):
    tys = ", ".join("String" if i % 3 == 0 else ("u8" if i % 3 == 1 else "Vec<u8>") for i in range(n))
    pats = ", ".join("f%d" % i for i in range(n))
    comma = "," if n == 1 else ""
    return "pub fn w_tuple%d(v: (%s%s)) -> (%s%s) { konst::destructure!{(%s%s) = v} (%s%s) }\n" % (n, tys, comma, tys, comma, pats, comma, pats, comma)


SRC = '''
#![allow(unused)]
pub struct B<T> { pub a: T, pub b: String, pub c: Vec<u8> }
pub struct TS<T>(pub T, pub String, pub ());
#[repr(packed)] pub struct P { pub a: u8, pub b: u32, pub c: String }
pub struct Z { pub a: (), pub b: core::marker::PhantomData<u8>, pub c: String }
pub fn w_braced<T>(v: B<T>) -> (T, String, Vec<u8>) { konst::destructure!{B{a, b, c} = v} (a, b, c) }
pub fn w_braced_reordered<T>(v: B<T>) -> (Vec<u8>, T, String) { konst::destructure!{B{c, a, b} = v} (c, a, b) }
pub fn w_braced_renamed<T>(v: B<T>) -> (T, String, Vec<u8>) { konst::destructure!{B{a: x, b: y, c: z} = v} (x, y, z) }
pub fn w_braced_skip<T>(v: B<T>) -> (T, Vec<u8>) { konst::destructure!{B{a, b: _, c} = v} (a, c) }
pub fn w_braced_annot<T>(v: B<T>) -> (T, String, Vec<u8>) { konst::destructure!{B{a, b, c}: B<T> = v} (a, b, c) }
pub fn w_tstruct<T>(v: TS<T>) -> (T, String) { konst::destructure!{TS(a, b, _) = v} (a, b) }
pub fn w_packed(v: P) -> (u8, u32, String) { konst::destructure!{P{a, b, c} = v} (a, b, c) }
pub fn w_zst(v: Z) -> String { konst::destructure!{Z{a, b, c} = v} c }
pub fn w_tuple_skip(v: (String, Vec<u8>, String)) -> (String, String) { konst::destructure!{(a, _, c) = v} (a, c) }
pub fn w_arr_all<T>(v: [T; 3]) -> (T, T, T) { konst::destructure!{[a, b, c] = v} (a, b, c) }
pub fn w_arr_rest<T>(v: [T; 6]) -> (T, T, [T; 3], T) { konst::destructure!{[a, b, r @ .., z] = v} (a, b, r, z) }
pub fn w_arr_rest_only<T>(v: [T; 4]) -> [T; 4] { konst::destructure!{[r @ ..] = v} r }
pub fn w_arr_prefix_rest<T>(v: [T; 5]) -> (T, [T; 4]) { konst::destructure!{[a, r @ ..] = v} (a, r) }
pub fn w_arr_rest_suffix<T>(v: [T; 5]) -> ([T; 3], T, T) { konst::destructure!{[r @ .., y, z] = v} (r, y, z) }
pub fn w_arr_skip(v: [String; 3]) -> (String, String) { konst::destructure!{[a, _, c] = v} (a, c) }
pub fn w_arr_dotdot(v: [String; 4]) -> (String, String) { konst::destructure!{[a, .., d] = v} (a, d) }
''' + "".join(tuple_witness(n) for n in (1, 2, 3, 5, 8, 16))

# name -> (kind, number of fields/elements, expected read order (field indices) , returned indices)
EXPECT = {
    "w_braced": ("struct", 3, [0, 1, 2], [0, 1, 2]),
    "w_braced_reordered": ("struct", 3, [2, 0, 1], [2, 0, 1]),
    "w_braced_renamed": ("struct", 3, [0, 1, 2], [0, 1, 2]),
    "w_braced_skip": ("struct", 3, [0, 1, 2], [0, 2]),
    "w_braced_annot": ("struct", 3, [0, 1, 2], [0, 1, 2]),
    "w_tstruct": ("struct", 3, [0, 1, 2], [0, 1]),
    "w_packed": ("struct", 3, [0, 1, 2], [0, 1, 2]),
    "w_zst": ("struct", 3, [0, 1, 2], [2]),
    "w_tuple_skip": ("tuple", 3, [0, 1, 2], [0, 2]),
}
for _n in (1, 2, 3, 5, 8, 16):
    EXPECT["w_tuple%d" % _n] = ("tuple", _n, list(range(_n)), list(range(_n)))
ARRAYS = {
    # name: (N, [('elem'|'rest', returned?)...])
    "w_arr_all": (3, [("elem", True)] * 3),
    "w_arr_rest": (6, [("elem", True), ("elem", True), ("rest", True), ("elem", True)]),
    "w_arr_rest_only": (4, [("rest", True)]),
    "w_arr_prefix_rest": (5, [("elem", True), ("rest", True)]),
    "w_arr_rest_suffix": (5, [("rest", True), ("elem", True), ("elem", True)]),
    "w_arr_skip": (3, [("elem", True), ("elem", False), ("elem", True)]),
    "w_arr_dotdot": (4, [("elem", True), ("rest", False), ("elem", True)]),
}


def run(ctx):
    ctx.explanation = ("linear-use analysis of destructure! expansions in a witness crate; read/advance/drop-range rules and counter "
                       "writer invariant for ArrayConsumer; drop range of ArrayBuilder")
    prog, diag = witness_program(ctx, "w15", SRC)
    if prog is None:
        ctx.violation("LINEAR", "witness", "the destructure witness crate does not compile:\n%s" % diag[-2500:])
    else:
        linear(ctx, prog)
    consumer(ctx, ctx.program("FULL"))
    # ArrayBuilder's Drop covers array[0 .. inited): that is the right set only under the builder's invariant (slots below `inited`
    # written, inited <= N, one bump per write after the capacity assertion) - the C11 BUILDER rule, run here as well
    from . import c11
    c11.builder(ctx, ctx.program("FULL"))
    ctx.floor("BUILDER", 5)
    # the by-value array map: consumer protocol (BYVAL) and ownership of the element while the closure body runs (ELEM-OWNED),
    # on C11's witnesses
    p11, d11 = witness_program(ctx, "w11", c11.SRC)
    if p11 is None:
        ctx.violation("BYVAL", "witness", "the array witness crate does not compile:\n%s" % d11[-2000:])
    else:
        c11.byval(ctx, p11)
        c11.elem_owned(ctx, p11)
    ctx.floor("BYVAL", 3)
    ctx.floor("ELEM-OWNED", 8)
    ctx.floor("LINEAR", 20)
    ctx.floor("CONSUMER", 12)


def unwind_window(bdy):
    from .. import typestate
    reach = bdy.reachable()
    S, Dn, owner = [], [], set()
    for bb, i, st in bdy.assigns():
        pl = st["place"]
        if len(pl["p"]) == 2 and pl["p"][0]["k"] == "field" and pl["p"][0].get("name") == "array" and pl["p"][1]["k"] == "index":
            S.append((bb, i))
            owner.add(pl["l"])
        if len(pl["p"]) == 1 and pl["p"][0]["k"] == "field" and pl["p"][0].get("name") in ("taken_back", "taken_front"):
            Dn.append((bb, i))
            owner.add(pl["l"])
    if len(owner) != 1:
        return "the slots and the counters written do not belong to one local value"
    this = owner.pop()

    def drops_this(bb):
        seen = set()
        st = [bb]
        while st:
            x = st.pop()
            if x in seen or not isinstance(x, int):
                continue
            seen.add(x)
            t = bdy.blocks[x]["term"]
            if t["k"] == "drop" and t["place"]["l"] == this:
                return True
            st.extend(bdy.term_succs(t))
        return False
    # walk every way through the function, keeping the balance (slots written) - (slots newly covered by a counter update) since
    # entry; the invariant `covered slots are written` holds at entry (nothing written, nothing covered by the fresh value), so the
    # balance may never be negative where a call can unwind into a drop of the value, and must be zero again wherever the walk
    # returns to a point it has already seen (one slot, one update per round) and at the end
    Sset, Dset = set(S), set(Dn)
    start = typestate._first_point(bdy, 0)
    seen = {}
    work = [(start, 0)]
    while work:
        pt, bal = work.pop()
        if pt in Sset:
            bal += 1
        if pt in Dset:
            bal -= 1
        if pt in seen:
            if seen[pt] != bal:
                return "a round of the loop does not write exactly as many slots as its counter updates newly cover"
            continue
        seen[pt] = bal
        if abs(bal) > 2:
            return "the counters and the written slots drift apart"
        bb, i = pt
        if i == "term":
            t = bdy.blocks[bb]["term"]
            if t["k"] == "call" and isinstance(t.get("unwind"), int) and bal < 0 and drops_this(t["unwind"]):
                name = t["callee"]["path"] if t.get("callee") else "an indirect call"
                return ("`%s` can unwind while the counter already covers a slot that is written only afterwards: the value's Drop would "
                        "then drop an element that was never initialised" % name)
            if t["k"] == "return" and bal != 0:
                return "returns with %d slot(s) %s" % (abs(bal), "written but not covered (leaked)" if bal > 0 else "covered but never written")
        for q in typestate._point_succ(bdy, bdy.succ, pt):
            if q[0] in reach:
                work.append((q, bal))
    return None


def strip_casts(t):
    while t[0] == "cast" and t[1] == "ptr2ptr":
        t = t[3]
    while t[0] == "call" and t[1].endswith("::cast") and len(t) == 4:
        t = t[3]
    return t


def linear(ctx, prog):
    for name in list(EXPECT) + list(ARRAYS):
        b = prog.get("w15::" + name)
        if b is None:
            ctx.violation("LINEAR", name, "witness %s missing" % name)
            continue
        paths = [p for p in sym.paths_of(b, prog, inline=CASTS) if p.kind != "unreachable"]
        if len(paths) != 1 or paths[0].kind != "return":
            ctx.violation("LINEAR", name, "%s: expected a single straight-line path, found %s" % (name, [p.kind for p in paths]))
            continue
        p = paths[0]
        evs = [e for e in p.events if e[0] == "call"]
        news = [table.strip_gargs(e[2]) for e in evs if e[1].endswith("ManuallyDrop::new")]
        reads = [table.strip_gargs(e[2]) for e in evs if e[1] in ("core::ptr::read", "core::ptr::read_unaligned")]
        drops = [e for e in p.events if e[0] == "drop"]
        msgs = []
        if len(news) != 1 or news[0][3] != ("p", 1):
            msgs.append("the value must be moved into ManuallyDrop exactly once (%d times)" % len(news))
        base = ("ref", news[0]) if news else None
        if name in EXPECT:
            kind, nf, order, returned = EXPECT[name]
            got = []
            for r in reads:
                a = strip_casts(r[3])
                ok = a[0] == "ref" and a[1][0] == "field" and a[1][1][0] == "deref" and strip_casts(a[1][1][1]) == base
                if not ok:
                    msgs.append("a read does not go through a field projection of the ManuallyDrop'ed value: %s" % show(r[3]))
                    continue
                got.append(a[1][2])
            if sorted(got) != list(range(nf)):
                msgs.append("fields read %s: every one of the %d fields must be read exactly once" % (got, nf))
            elif got != order:
                msgs.append("fields are read in order %s, expected the pattern order %s" % (got, order))
            if name == "w_packed" and any(r[1] != "core::ptr::read_unaligned" for r in reads):
                msgs.append("fields of a packed struct must be read with read_unaligned")
            want_ret = [reads[got.index(i)] for i in returned] if sorted(got) == list(range(nf)) else None
        else:
            N, parts = ARRAYS[name]
            off = sym.I(0)
            want_ret = []
            if len(reads) != len(parts):
                msgs.append("%d reads for %d pattern parts" % (len(reads), len(parts)))
            for r, (pk, ret) in zip(reads, parts):
                a = strip_casts(r[3])
                ok = (a[0] == "ptr_add" and strip_casts(a[1]) == base and a[2] == off) or (off == sym.I(0) and a == base)
                if not ok:
                    msgs.append("element read at %s, expected offset %s of the ManuallyDrop'ed array" % (show(a), show(off)))
                if pk == "elem":
                    off = sym.mk_bin("Add", off, sym.I(1))
                else:
                    if "[T;" not in repr(r[3]) and "[std::string::String;" not in repr(r[3]) and "; " not in repr(r[3]):
                        msgs.append("the rest part is not read as an array")
                    ln = [table.strip_gargs(e[2]) for e in evs if e[1].endswith("get_phantom_len")]
                    off = sym.mk_bin("Add", off, ln[0]) if ln else ("?",)
                if ret:
                    want_ret.append(r)
        # a value read for a `_` / `..` part is dropped at once: its drop comes before the next part is read
        # (not at the end of the enclosing block, where parts would be dropped late and in reverse order)
        if want_ret is not None:
            ret_set = [repr(x) for x in want_ret]
            seq = [e for e in p.events if e[0] == "drop" or (e[0] == "call" and e[1] in ("core::ptr::read", "core::ptr::read_unaligned"))]
            for i, e in enumerate(seq):
                if e[0] != "call":
                    continue
                rt = table.strip_gargs(e[2])
                if repr(rt) in ret_set:
                    continue
                later_reads = [j for j in range(i + 1, len(seq)) if seq[j][0] == "call"]
                my_drops = [j for j in range(len(seq)) if seq[j][0] == "drop" and table.strip_gargs(seq[j][1]) == rt]
                if my_drops and later_reads and min(my_drops) > later_reads[0]:
                    msgs.append("the value read for an unbound part (%s) is dropped only after later parts have been read: `_` parts must be dropped immediately"
                                % show(rt[3]))
        # drops: only values that were read out (bindings `_` / unused) - never the container or its source
        for d in drops:
            v = table.strip_gargs(d[1])
            if v == ("p", 1) or (news and v == news[0]) or "ManuallyDrop" in d[2]:
                msgs.append("the destructured value itself is dropped (%s): its fields would be dropped twice" % d[2])
        rv = table.strip_gargs(p.value)
        if want_ret is not None and not msgs:
            got_ret = list(rv[2:]) if rv[0] == "agg" and rv[1] == "tuple" else [rv]
            if got_ret != want_ret:
                msgs.append("returned values are not the values read for the bound fields, in order")
        for m in msgs[:3]:
            ctx.violation("LINEAR", name, "%s: %s" % (name, m), detail={"events": [(e[0], e[1]) for e in p.events][:40]})
        ctx.instance("LINEAR", name, sample={"witness": name, "reads": len(reads), "drops": len(drops)})


def _ptr_at(p, off, me):
    """pointer = start of self.array (+ off elements), through casts"""
    p = strip_casts(p)
    if off is not None:
        if not (p[0] == "ptr_add" and p[2] == off):
            return False
        p = strip_casts(p[1])
    elif p[0] == "ptr_add":
        return False
    return p[0] in ("as_ptr", "as_mut_ptr") and repr(("field", me, 0)) in repr(p[1]) or (
        p[0] == "call" and p[1].endswith(("as_ptr", "as_mut_ptr")) and repr(("field", me, 0)) in repr(p))


def _is_range(a, off, cnt, me):
    """a = slice_from_raw_parts_mut(array start + off, cnt)"""
    if not (a[0] == "call" and a[1].endswith("slice_from_raw_parts_mut") and len(a) == 5):
        return False
    return a[4] == cnt and _ptr_at(a[3], off, me)


def consumer(ctx, prog):
    AC = "konst::array::array_consumer::ArrayConsumer::"
    adt = prog.adts.get("konst::array::array_consumer::ArrayConsumer")
    names = [f["name"] for f in adt["variants"][0]["fields"]] if adt else []
    if names != ["array", "taken_front", "taken_back"]:
        ctx.violation("CONSUMER", "layout", "ArrayConsumer fields are %s" % names)
        return
    me = ("deref", ("p", 1))
    tf, tb = ("field", me, 1), ("field", me, 2)
    N = ("tyconst", "N")
    live = ("bin", "Sub", ("bin", "Sub", N, tf), tb)
    helpers = {AC + "is_empty", AC + "slice_len"}
    for nm, idx, adv in (("next", tf, 1), ("next_back", ("bin", "Sub", ("bin", "Sub", N, tb), sym.I(1)), 2)):
        b = ctx.anchor(prog, AC + nm)
        if b is None:
            continue
        paths = sym.paths_of(b, prog, inline=helpers)
        msg = None
        seen = set()
        for p in paths:
            conds = [table.norm_atom(table.strip_gargs(c)) for c in p.conds]
            if p.kind == "panic":
                # `&mut self` outlives a panic (Drop runs on it while unwinding): the counters must be as they were
                hv = p.heap.get(("p", 1))
                if hv is not None and (sym.mk_field(hv, 1) != tf or sym.mk_field(hv, 2) != tb):
                    msg = msg or "a panicking path leaves modified counters behind (Drop would then cover the wrong range)"
                continue
            if p.kind != "return":
                continue
            if p.value == table.NONE:
                seen.add("none")
                if table.eq(live, sym.I(0)) not in conds:
                    msg = "returns None although elements remain"
                if ("p", 1) in p.heap and p.heap[("p", 1)] != me:
                    msg = msg or "modifies the counters on the empty path"
            else:
                seen.add("some")
                if table.ne(live, sym.I(0)) not in conds:
                    msg = "reads an element without checking that the live range is non-empty"
                rd = [table.strip_gargs(e[2]) for e in p.events if e[0] == "call" and e[1].endswith("assume_init_read")]
                want_place = ("ref", ("index", ("field", me, 0), idx))
                if len(rd) != 1 or rd[0][3] != want_place:
                    msg = msg or "does not read exactly array[%s] (reads %s)" % (show(idx), [show(r[3]) for r in rd])
                newv = p.heap.get(("p", 1))
                cnt = ("field", me, adv)
                other = 2 if adv == 1 else 1
                if newv is None or sym.mk_field(newv, adv) != ("bin", "Add", cnt, sym.I(1)) or sym.mk_field(newv, other) != ("field", me, other):
                    msg = msg or "does not advance exactly its own counter by one"
                v = table.strip_gargs(p.value)
                if rd and not (v[0] == "agg" and v[1].endswith("Some#1") and v[2] == ("call", "core::mem::ManuallyDrop::new", None, rd[0])):
                    msg = msg or "does not return the read value wrapped in ManuallyDrop"
        if seen != {"none", "some"}:
            msg = msg or "paths %s" % sorted(seen)
        if msg:
            ctx.violation("CONSUMER", nm, "ArrayConsumer::%s %s" % (nm, msg), b.file())
        ctx.instance("CONSUMER", nm, sample={"method": nm})
    # views and drop range
    for key, fn, prim in (("as_slice", AC + "as_slice", "raw_parts"), ("as_mut_slice", AC + "as_mut_slice", "raw_parts_mut")):
        b = ctx.anchor(prog, fn)
        if b is None:
            continue
        ps = sym.paths_of(b, prog, inline=helpers)
        v = table.strip_gargs(ps[0].value) if len(ps) == 1 else ("?",)
        ok = v[0] == prim and v[2] == live and _ptr_at(v[1], tf, me)
        if not ok:
            ctx.violation("CONSUMER", key, "ArrayConsumer::%s must view array[taken_front..][..N-taken_front-taken_back]: %s" % (key, show(v)), b.file())
        ctx.instance("CONSUMER", key)
    for bdy in prog.bodies:
        if bdy.promoted is None and bdy.key.endswith("core::ops::Drop>::drop") and "array_consumer::ArrayConsumer" in bdy.key:
            ps = sym.paths_of(bdy, prog, inline=helpers)
            ok = False
            for p in ps:
                for e in p.events:
                    if e[0] == "call" and e[1].endswith("drop_in_place"):
                        a = table.strip_gargs(e[2])[3]
                        ok = _is_range(a, tf, live, me)
            if not ok:
                ctx.violation("CONSUMER", "drop", "ArrayConsumer's Drop must drop exactly array[taken_front .. N-taken_back)", bdy.file())
            ctx.instance("CONSUMER", "drop")
        if bdy.promoted is None and bdy.key.endswith("core::ops::Drop>::drop") and "array_builder::ArrayBuilder" in bdy.key:
            ps = [p for p in sym.paths_of(bdy, prog) if p.kind == "return"]
            ok = bool(ps)
            for p in ps:
                good = False
                for e in p.events:
                    if e[0] == "call" and e[1].endswith("drop_in_place"):
                        a = table.strip_gargs(e[2])[3]
                        # the range itself, or the accessor the BUILDER rule proves to be array[..inited]
                        good = _is_range(a, None, ("field", me, 1), me) or \
                            a == ("call", "konst::array::array_builder::ArrayBuilder::as_mut_slice", None, ("p", 1))
                if not good:
                    # a path that drops nothing is fine exactly when the element type has no drop glue
                    good = any(c[0] == "nholds" and c[1][0] == "call" and c[1][1] == "core::mem::needs_drop" and len(c[1]) == 3
                               for c in (table.norm_atom(c_) for c_ in p.conds))
                ok = ok and good
            if not ok:
                ctx.violation("BUILDER-DROP", "drop", "ArrayBuilder's Drop must drop exactly array[0 .. inited) on every path (or nothing, when T has no drop glue)", bdy.file())
            ctx.instance("BUILDER-DROP", "drop")
    for nm, want in (("new", (sym.I(0), sym.I(0))), ("empty", (N, sym.I(0)))):
        b = ctx.anchor(prog, AC + nm)
        if b is not None:
            ps = sym.paths_of(b, prog)
            v = ps[0].value if len(ps) == 1 else ("?",)
            if not (v[0] == "agg" and (v[3], v[4]) == want):
                ctx.violation("CONSUMER", nm, "ArrayConsumer::%s must start with (taken_front, taken_back) = %s" % (nm, [show(x) for x in want]), b.file())
            if nm == "new" and not (v[0] == "agg" and repr(("p", 1)) in repr(v[2])):
                ctx.violation("CONSUMER", nm + "|array", "ArrayConsumer::new must store the given array", b.file())
            ctx.instance("CONSUMER", nm)
    b = ctx.anchor(prog, AC + "assert_is_empty")
    if b is not None:
        ps = sym.paths_of(b, prog, inline=helpers)
        ok = True
        for p in ps:
            f = [e for e in p.events if e[0] == "call" and e[1].endswith("mem::forget")]
            conds = [table.norm_atom(table.strip_gargs(c)) for c in p.conds]
            lv = ("bin", "Sub", ("bin", "Sub", N, ("field", ("p", 1), 1)), ("field", ("p", 1), 2))
            if f and table.eq(lv, sym.I(0)) not in conds:
                ok = False
        if not ok:
            ctx.violation("CONSUMER", "assert_is_empty", "assert_is_empty forgets a consumer that may still own elements (leak)", b.file())
        ctx.instance("CONSUMER", "assert_is_empty")
    # writers of the counters
    writers = set()
    for bdy in prog.bodies:
        if bdy.promoted is not None or "array_consumer" not in bdy.key:
            continue
        for _, _, st in bdy.assigns():
            if any(pe["k"] == "field" and pe.get("name") in ("taken_front", "taken_back") and "ArrayConsumer" in pe.get("adt", "") for pe in st["place"]["p"]):
                writers.add(bdy.key.split("::")[-1])
            if st["rv"]["k"] == "aggregate" and st["rv"].get("agg") == "adt" and st["rv"]["adt"].endswith("ArrayConsumer"):
                writers.add(bdy.key.split("::")[-1])
    extra = writers - {"new", "empty", "next", "next_back", "clone", "copy"}
    for w in sorted(extra):
        ctx.violation("CONSUMER", "inv|" + w, "ArrayConsumer::%s writes taken_front/taken_back; only new, empty, next, next_back, clone and copy may" % w)
    ctx.instance("CONSUMER", "inv", sample={"writers": sorted(writers)})
    from .. import accessors
    accessors.rebuild(ctx, "CONSUMER", prog, AC + "copy", nfields=3)
    # clone: element i stored at this.array[i], taken_back decremented once per element
    for bdy in prog.bodies:
        if bdy.promoted is None and bdy.key.endswith("core::clone::Clone>::clone") and "array_consumer::ArrayConsumer" in bdy.key:
            stores = 0
            decs = 0
            for _, _, st in bdy.assigns():
                pl = st["place"]
                if len(pl["p"]) == 2 and pl["p"][0]["k"] == "field" and pl["p"][0].get("name") == "array" and pl["p"][1]["k"] == "index":
                    stores += 1
                if len(pl["p"]) == 1 and pl["p"][0]["k"] == "field" and pl["p"][0].get("name") == "taken_back":
                    decs += 1
            if stores != 1 or decs != 1:
                ctx.violation("CONSUMER", "clone", "ArrayConsumer::clone must store each cloned element once and shrink taken_back once per element (stores=%d, updates=%d)" % (stores, decs), bdy.file())
            ctx.instance("CONSUMER", "clone")
            # unwind window: the half-built clone is dropped if `T::clone` (or anything else in the loop) panics, and its Drop covers
            # [taken_front, N - taken_back).  A counter update that comes *before* the store of the slot it newly covers opens a
            # window in which that slot is covered but unwritten; no call that unwinds into a drop of the clone may lie inside it.
            msg = unwind_window(bdy)
            if msg:
                ctx.violation("CONSUMER", "clone|unwind", "ArrayConsumer::clone: %s" % msg, bdy.file())
            ctx.instance("CONSUMER", "clone|unwind")
