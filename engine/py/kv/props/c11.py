"""C11 — array-building macros return fully initialised arrays equal to std's.

INIT    typestate rule (see typestate.py) on witness expansions of array::map!, from_fn!, collect_const!
        (plain, filtered, flat-mapped), string::from_iter!, each also with closures that `break`, `continue`,
        `return` or `panic!`, and array::map! also on a user type that derefs to an array and has a `len()` of its own:
        assume_init must stay guarded by counter == LEN, LEN must be the length of the MaybeUninit array itself, and every
        counter increment must be matched by a MaybeUninit::new store (at the counter, or by the counting argument).
DEP     the element stored at index i is the closure applied to input element i / to i itself.
BUILDER ArrayBuilder: push = assert(inited < N); array[inited] = new(val); inited += 1; build asserts is_full
        and reads the array from the ManuallyDrop'ed self; `inited` is written only by new/push/struct copies.
BYVAL   map_!/from_fn_!: forget(consumer) only after next() returned None; build() follows.
TWOPASS collect_const: __COUNT and __ARR call the same generated function; store guarded by BuildArray only,
        length advanced unconditionally.
"""
from .. import facts, mir, sym, table, typestate
from ..sym import show
from .c19 import witness_program

SRC = '''
#![allow(unused, unreachable_code, clippy::all)]
#[inline(never)] pub fn m0<T, U>(x: T) -> U { loop {} }
#[inline(never)] pub fn g0<U>(i: usize) -> U { loop {} }
#[inline(never)] pub fn cond() -> bool { loop {} }
pub fn w_map<T: Copy, U>(a: [T; 4]) -> [U; 4] { konst::array::map!(a, |x| m0::<T, U>(x)) }
pub fn w_map_break<T: Copy, U>(a: [T; 4]) -> [U; 4] { konst::array::map!(a, |x| { if cond() { break } m0::<T, U>(x) }) }
pub fn w_map_continue<T: Copy, U>(a: [T; 4]) -> [U; 4] { konst::array::map!(a, |x| { if cond() { continue } m0::<T, U>(x) }) }
pub fn w_map_return<T: Copy, U>(a: [T; 4]) -> [U; 4] { konst::array::map!(a, |x| { if cond() { return loop {} } m0::<T, U>(x) }) }
pub fn w_map_panic<T: Copy, U>(a: [T; 4]) -> [U; 4] { konst::array::map!(a, |x| { if cond() { panic!() } m0::<T, U>(x) }) }
pub fn w_map_labeled<T: Copy, U>(a: [T; 4]) -> [U; 4] { 'outer: loop { return konst::array::map!(a, |x| { if cond() { break 'outer } m0::<T, U>(x) }); } loop {} }
pub fn w_from_fn<U>() -> [U; 5] { konst::array::from_fn!(|i| g0::<U>(i)) }
pub fn w_from_fn_break<U>() -> [U; 5] { konst::array::from_fn!(|i| { if cond() { break } g0::<U>(i) }) }
pub fn w_from_fn_typed() -> [u16; 3] { konst::array::from_fn!([u16; 3] => |i| g0::<u16>(i)) }
pub struct Row([u8; 4], usize);
impl core::ops::Deref for Row { type Target = [u8; 4]; fn deref(&self) -> &[u8; 4] { &self.0 } }
impl Row { pub fn len(&self) -> usize { self.1 } }
pub fn w_map_deref(r: Row) -> [u16; 4] { konst::array::map!(r, |x| m0::<u8, u16>(x)) }
pub fn w_map_deref_ref(r: &Row) -> [u16; 4] { konst::array::map!(r, |x| m0::<u8, u16>(x)) }
#[inline(never)] pub fn mkf() -> fn(u8) -> u16 { loop {} }
#[inline(never)] pub fn mkg() -> fn(usize) -> u16 { loop {} }
pub fn w_map_fexpr(a: [u8; 4]) -> [u16; 4] { konst::array::map!(a, mkf()) }
pub fn w_map__fexpr(a: [u8; 4]) -> [u16; 4] { konst::array::map_!(a, mkf()) }
pub fn w_from_fn_fexpr() -> [u16; 4] { konst::array::from_fn!(mkg()) }
pub fn w_from_fn__fexpr() -> [u16; 4] { konst::array::from_fn_!(mkg()) }
pub fn w_map_<T, U>(a: [T; 4]) -> [U; 4] { konst::array::map_!(a, |x| m0::<T, U>(x)) }
pub fn w_map__break<T, U>(a: [T; 4]) -> [U; 4] { konst::array::map_!(a, |x| { if cond() { break } m0::<T, U>(x) }) }
pub fn w_from_fn_<U>() -> [U; 5] { konst::array::from_fn_!(|i| g0::<U>(i)) }
#[inline(never)] pub fn m1<T, U>(x: &T) -> U { loop {} }
pub fn w_map__return<T, U>(a: [T; 4]) -> [U; 4] { konst::array::map_!(a, |x| { if cond() { return loop {} } m0::<T, U>(x) }) }
pub fn w_map__ref<T, U>(a: [T; 4]) -> [U; 4] { konst::array::map_!(a, |ref x| m1::<T, U>(x)) }
pub fn w_map__ref_return<T, U>(a: [T; 4]) -> [U; 4] { konst::array::map_!(a, |ref x| { if cond() { return loop {} } m1::<T, U>(x) }) }
pub fn w_map__ref_labeled<T, U>(a: [T; 4]) -> [U; 4] { 'outer: loop { return konst::array::map_!(a, |ref x| { if cond() { break 'outer } m1::<T, U>(x) }); } loop {} }
pub fn w_map__mut<T, U>(a: [T; 4]) -> [U; 4] { konst::array::map_!(a, |mut x| m0::<T, U>(x)) }
pub fn w_map__wild<T, U>(a: [T; 4]) -> [U; 4] { konst::array::map_!(a, |_| g0::<U>(0)) }
pub const W_COLLECT: [u8; 3] = konst::iter::collect_const!(u8 => 0u8..3);
pub const W_COLLECT_FILTER: [u8; 2] = konst::iter::collect_const!(u8 => 0u8..4, filter(|x| *x % 2 == 0));
pub const W_COLLECT_FLAT: [u8; 4] = konst::iter::collect_const!(u8 => 0u8..2, flat_map(|x| &[x, x]), copied());
pub const W_COLLECT_TAKE: [u8; 2] = konst::iter::collect_const!(u8 => 0u8..9, skip(1), take(2));
pub const W_STR: &str = konst::string::from_iter!(&["ab", "c"]);
pub const W_STR_CHARS: &str = konst::string::from_iter!(&['a', 'é']);
'''

KM = "konst::maybe_uninit::"


def run(ctx):
    ctx.explanation = ("init typestate of every array-building expansion in a witness crate (incl. closures with early exits), "
                       "element provenance, ArrayBuilder protocol and field-writer invariant, by-value map protocol, two-pass agreement")
    prog, diag = witness_program(ctx, "w11", SRC)
    if prog is None:
        ctx.violation("INIT", "witness", "the array witness crate does not compile:\n%s" % diag[-2500:])
        return
    init_sites(ctx, prog)
    deps(ctx, prog)
    deps_byval(ctx, prog)
    arg_once(ctx, prog)
    builder(ctx, ctx.program("FULL"))
    byval(ctx, prog)
    elem_owned(ctx, prog)
    twopass(ctx, prog)
    early_exit_programs(ctx)
    temporaries_programs(ctx)
    param_programs(ctx)
    # collect_const! runs the iterator DSL's expansion (`__call_iter_methods`) in both of its passes: which elements arrive, and in
    # which order, is C10's chain validation - decided here as well on its standard chain set (the glue around it is INIT/TWOPASS)
    from . import c10
    t_ = ctx.tier
    ctx.tier = "quick"
    try:
        c10.tv(ctx)
    finally:
        ctx.tier = t_
    ctx.floor("TV", 400)
    from .. import macrolint
    macrolint.hygiene_rule(ctx, ["array_map", "array_from_fn", "__array_map_by_val", "__array_from_fn2", "iter_collect_const", "str_from_iter"], facts.REPO)
    ctx.floor("HYGIENE", 16)
    ctx.floor("INIT", 20)
    ctx.floor("DEP", 4)
    ctx.floor("ARG-ONCE", 4)
    ctx.floor("BUILDER", 5)
    ctx.floor("BYVAL", 3)
    ctx.floor("ELEM-OWNED", 8)
    ctx.floor("TWOPASS", 6)


# the array operand is an expression like any method receiver: temporaries it creates live until the whole call is over
# (`[&make(1), &make(2)].map(f)` is fine in std, and a guard temporary is dropped after the last closure call)
TEMP_PROGS = [
    ("map_!/borrowed temporaries", "pub fn mk(n: u8) -> String { n.to_string() }\npub fn f() -> [usize; 2] { konst::array::map_!([&mk(1), &mk(22)], |s| s.len()) }"),
    ("map_!/borrowed temporaries, fn mapper", "pub fn mk(n: u8) -> String { n.to_string() }\npub fn g(s: &String) -> usize { s.len() }\npub fn f() -> [usize; 2] { konst::array::map_!([&mk(1), &mk(22)], g) }"),
    ("map!/borrowed temporaries", "pub fn mk(n: u8) -> u8 { n }\npub fn f() -> [u8; 2] { konst::array::map!([&mk(1), &mk(22)], |s| *s) }"),
    ("map!/borrowed temporary array", "pub fn mk(n: u8) -> [u8; 2] { [n, n] }\npub fn f() -> [u8; 2] { konst::array::map!(&mk(1), |s| s) }"),
]


PARAM_PROGS = [(m + "/" + n, "pub fn f(s: [u8; 2]) -> [u8; 2] { konst::array::%s(s, |%s| %s) }" % (m, pat, expr))
               for m in ("map!", "map_!") for n, pat, expr in (("ident", "x", "x"), ("wild", "_", "0"), ("mut", "mut x", "{ x += 1; x }"), ("ref", "ref x", "*x"))] + [
    ("map_!/tuple", "pub fn f(s: [(u8, u8); 2]) -> [u8; 2] { konst::array::map_!(s, |(a, b)| a + b) }"),
    ("map_!/struct", "pub struct P { pub a: u8, pub b: u8 }\npub fn f(s: [P; 2]) -> [u8; 2] { konst::array::map_!(s, |P { a, .. }| a) }"),
    ("map!/tuple", "pub fn f(s: [(u8, u8); 2]) -> [u8; 2] { konst::array::map!(s, |(a, b)| a + b) }"),
    ("from_fn!/wild", "pub fn f() -> [u8; 3] { konst::array::from_fn!(|_| 7u8) }"),
    ("from_fn_!/wild", "pub fn f() -> [u8; 3] { konst::array::from_fn_!(|_| 7u8) }"),
]


def param_programs(ctx):
    """ACC-PARAM: the array macros accept the irrefutable closure-parameter patterns `<[T; N]>::map` / `array::from_fn` accept"""
    res = facts.compile_many([(n, "#![allow(unused)]\n" + src + "\n") for n, src in PARAM_PROGS], ctx.th)
    for (n, src), r in zip(PARAM_PROGS, res):
        if not r["ok"]:
            ctx.violation("ACC-PARAM", n, "a valid program is rejected: `%s`: %s" % (src.splitlines()[-1], "; ".join(e["message"][:120] for e in r["errors"][:2])), detail={"program": src})
        ctx.instance("ACC-PARAM", n, sample={"program": src.splitlines()[-1], "accepted": r["ok"]})
    ctx.floor("ACC-PARAM", len(PARAM_PROGS))


def temporaries_programs(ctx):
    """ACC-TEMP: the operand expression's temporaries outlive the element loop (the expansions bind the operand in a `match`
    scrutinee); an expansion that binds it with `let` drops them before the closure runs - borrowed temporaries stop compiling
    and a guard temporary is released too early"""
    res = facts.compile_many([(n, "#![allow(unused)]\n" + src + "\n") for n, src in TEMP_PROGS], ctx.th)
    for (n, src), r in zip(TEMP_PROGS, res):
        if not r["ok"]:
            ctx.violation("ACC-TEMP", n, "a valid program is rejected (std's `<[T; N]>::map` accepts the same operand): `%s`: %s" % (
                src.splitlines()[-1], "; ".join(e["message"][:120] for e in r["errors"][:2])), detail={"program": src})
        ctx.instance("ACC-TEMP", n, sample={"program": src, "accepted": r["ok"]})
    ctx.floor("ACC-TEMP", len(TEMP_PROGS))


def init_sites(ctx, prog):
    n = 0
    for b in prog.bodies:
        if b.crate != "w11" or b.promoted is not None:
            continue
        for bb, t in typestate.find_sites(b):
            n += 1
            name = b.key.replace("w11::", "")
            problems, info = typestate.init_rule(b, bb, t)
            for m in problems:
                ctx.violation("INIT", name, "%s: %s" % (name, m), t["src"]["at"], detail={"mir": b.pretty()})
            ctx.instance("INIT", name, sample={"witness": name, **{k: v for k, v in info.items() if k != "fixed"}})
    # the kernel's own assume_init: a transmute of the array (no partial initialisation happens inside)
    base = ctx.program("FULL")
    b = base.get("konst_kernel::maybe_uninit::array_assume_init")
    if b is not None:
        ps = sym.paths_of(b, base)
        ctx.instance("INIT", "array_assume_init", sample={"body": show(ps[0].value) if ps else "?"})


def deps(ctx, prog):
    """element i = f(input[i]) / f(i)"""
    for name, want in (("w_map", lambda I: ("call", "w11::m0", None, ("index", "ANY", I))),
                       ("w_from_fn", lambda I: ("call", "w11::g0", None, I)),
                       ("w_from_fn_typed", lambda I: ("call", "w11::g0", None, I))):
        b = prog.get("w11::" + name)
        if b is None:
            ctx.violation("DEP", name, "witness %s missing" % name)
            continue
        paths = sym.through_loops(b, prog, keep_back=True)
        back = [p for p in paths if p.kind == "back"]
        ok = bool(back)
        bound_msg = None
        for p in back:
            st = [e for e in p.events if e[0] == "store"]
            if len(st) != 1:
                ok = False
                continue
            _, dest, idx, val = st[0]
            v = table.strip_gargs(val)
            if not (v[0] == "call" and v[1].endswith("MaybeUninit::new")):
                ok = False
                continue
            got = v[3]
            w = want(idx)
            if w[3] != idx and w[3][0] == "index":
                good = got[0] == "call" and got[1] == w[1] and got[3][0] == "index" and got[3][2] == idx and repr(("p", 1)) in repr(got[3][1])
            else:
                good = got == w
            if not good or p.env.get(idx[1]) != ("bin", "Add", idx, sym.I(1)):
                ok = False
            # the round runs under `i < len` of the input (with `<=` the last round indexes one past the end and panics)
            guards = [table.norm_atom(table.strip_gargs(c)) for c in p.conds]
            if not any(c[0] == "lt" and c[1] == idx and c[2][0] == "len" for c in guards):
                ok = False
                bound_msg = "the loop body runs without the test `i < len` (conditions: %s)" % [sym.show_atom(c) for c in p.conds]
        if not ok and bound_msg:
            ctx.violation("DEP", name + "|bound", "%s: %s" % (name, bound_msg))
        if not ok:
            ctx.violation("DEP", name, "%s: the value stored at index i is not the closure applied to element i (ascending from 0 by 1)" % name,
                          detail={"back": [[(e[0], show(e[3]) if e[0] == "store" else e[1]) for e in p.events if e[0] in ("store",)] for p in back]})
        ctx.instance("DEP", name, sample={"witness": name})


def deps_byval(ctx, prog):
    """from_fn_!: the closure of round k receives k - a counter that starts at 0 and advances by one per round"""
    name = "w_from_fn_"
    b = prog.get("w11::" + name)
    if b is None:
        ctx.violation("DEP", name, "witness %s missing" % name)
        return
    paths = sym.through_loops(b, prog, keep_back=True)
    back = [p for p in paths if p.kind == "back"]
    msg = None if back else "no loop round found"
    for p in back:
        calls = [table.strip_gargs(e[2]) for e in p.events if e[0] == "call" and e[1] == "w11::g0"]
        if len(calls) != 1 or calls[0][3][0] != "L":
            msg = msg or "a round must call the closure exactly once with the running index (%s)" % [show(c) for c in calls]
            continue
        ix = calls[0][3]
        if p.env.get(ix[1]) != ("bin", "Add", ix, sym.I(1)):
            msg = msg or "the index passed to the closure is not advanced by one per round (%s)" % show(p.env.get(ix[1], ix))
        for e in p.events:
            if e[0] == "loop" and dict(e[2]).get(ix[1]) != sym.I(0):
                msg = msg or "the index passed to the closure starts at %s, expected 0" % show(dict(e[2]).get(ix[1], ("?",)))
    if msg:
        ctx.violation("DEP", name, "%s: %s" % (name, msg))
    ctx.instance("DEP", name, sample={"witness": name})


def arg_once(ctx, prog):
    """ARG-ONCE: a mapper given as an expression that *produces* the function (`map!(a, make_fn())`) is evaluated exactly once, before
    the element loop - std evaluates a method argument once, so a stateful or side-effecting factory must not run per element"""
    for name, mk in (("w_map_fexpr", "w11::mkf"), ("w_map__fexpr", "w11::mkf"), ("w_from_fn_fexpr", "w11::mkg"), ("w_from_fn__fexpr", "w11::mkg")):
        b = prog.get("w11::" + name)
        if b is None:
            ctx.violation("ARG-ONCE", name, "witness %s missing" % name)
            continue
        sites = [bb for bb, t in b.calls() if t.get("callee") and t["callee"]["path"] == mk]
        in_loop = [bb for bb in sites if any(bb in blocks for blocks in b.loops().values())]
        if len(sites) != 1 or in_loop:
            ctx.violation("ARG-ONCE", name, "%s: the expression that yields the mapper is evaluated %s (expected: once, before the loop)" % (
                name, "inside the element loop" if in_loop else "%d times" % len(sites)), b.file())
        ctx.instance("ARG-ONCE", name, sample={"witness": name})


def builder(ctx, prog):
    AB = "konst::array::array_builder::ArrayBuilder::"
    adt = prog.adts.get("konst::array::array_builder::ArrayBuilder")
    if adt is None or not adt["repr_c"] or [f["name"] for f in adt["variants"][0]["fields"]] != ["array", "inited"]:
        ctx.violation("BUILDER", "layout", "ArrayBuilder must be #[repr(C)] with fields (array, inited): build() reads the array through a pointer cast of self")
    ctx.instance("BUILDER", "layout", sample={"repr_c": adt and adt["repr_c"]})
    me = ("deref", ("p", 1))
    inited = ("field", me, 1)
    N = ("tyconst", "N")
    b = ctx.anchor(prog, AB + "push")
    if b is not None:
        paths = sym.paths_of(b, prog)
        ok = False
        msg = None
        for p in paths:
            if p.kind == "return":
                conds = [table.norm_atom(c) for c in p.conds]
                if table.lt(inited, N) not in conds:
                    msg = "push stores without `inited < N`"
                newv = p.heap.get(("p", 1))
                st = [e for e in p.events if e[0] == "store"]
                if len(st) != 1 or st[0][2] != inited or not (st[0][3][0] == "call" and st[0][3][1].endswith("MaybeUninit::new") and st[0][3][3] == ("p", 2)):
                    msg = msg or "push does not store MaybeUninit::new(val) at array[inited]"
                if newv is None or sym.mk_field(newv, 1) != ("bin", "Add", inited, sym.I(1)):
                    msg = msg or "push does not advance `inited` by exactly one"
                ok = True
            elif p.kind == "panic":
                # `self` is `&mut`: it outlives the panic (Drop runs on it while unwinding, catch_unwind hands it back), so a panicking
                # path must leave the invariant `array[..inited]` initialised intact - it may not have touched `inited`
                newv = p.heap.get(("p", 1))
                if newv is not None and sym.mk_field(newv, 1) != inited:
                    msg = msg or ("a panicking path leaves `inited` = %s behind: Drop / as_slice would then cover a slot that was never "
                                  "written" % show(sym.mk_field(newv, 1)))
        if not ok:
            msg = msg or "push has no returning path"
        if msg:
            ctx.violation("BUILDER", "push", "ArrayBuilder::push: %s" % msg, b.file())
        ctx.instance("BUILDER", "push")
    b = ctx.anchor(prog, AB + "build")
    if b is not None:
        paths = sym.paths_of(b, prog, inline={AB + "is_full"})
        msg = None
        for p in paths:
            if p.kind == "return":
                conds = [table.norm_atom(c) for c in p.conds]
                if table.eq(("field", ("p", 1), 1), N) not in conds:
                    msg = "build reads the array without `inited == N`"
                calls = [e[1] for e in p.events if e[0] == "call"]
                if not any(c.endswith("ManuallyDrop::new") for c in calls):
                    msg = msg or "build does not wrap self in ManuallyDrop before reading (the Drop impl would free the elements again)"
        if msg:
            ctx.violation("BUILDER", "build", "ArrayBuilder::build: %s" % msg, b.file())
        ctx.instance("BUILDER", "build")
    # INV: writers of `inited`
    writers = {}
    for bdy in prog.bodies:
        if bdy.promoted is not None or "array_builder" not in bdy.key:
            continue
        for _, _, st in bdy.assigns():
            for pe in st["place"]["p"]:
                if pe["k"] == "field" and pe.get("name") == "inited" and "ArrayBuilder" in pe.get("adt", ""):
                    writers.setdefault(bdy.key.split("::")[-1], 0)
                    writers[bdy.key.split("::")[-1]] += 1
            rv = st["rv"]
            if rv["k"] == "aggregate" and rv.get("agg") == "adt" and rv["adt"].endswith("ArrayBuilder"):
                writers.setdefault(bdy.key.split("::")[-1], 0)
    allowed = {"new", "push", "copy", "clone"}
    for w in sorted(set(writers) - allowed):
        ctx.violation("BUILDER", "inv|" + w, "ArrayBuilder::%s writes `inited`/constructs the builder; only new (0), push (+1) and struct copies may" % w)
    ctx.instance("BUILDER", "inv", sample={"writers": sorted(writers)})
    # clone: a fresh builder that receives elem.clone() for every element of self.as_slice(), in order, once each
    for bdy in prog.bodies:
        if bdy.promoted is None and bdy.key.endswith("core::clone::Clone>::clone") and "array_builder::ArrayBuilder" in bdy.key:
            msg = None
            try:
                ps = sym.through_loops(bdy, prog, keep_back=True)
            except sym.TooManyPaths:
                ps = []
                msg = "too many paths"
            view = ("call", AB + "as_slice", None, ("p", 1))
            n_back = n_ret = 0
            for p in ps:
                calls = [table.strip_gargs(e[2]) for e in p.events if e[0] == "call"]
                names = [c[1].split("::")[-1] for c in calls]
                if p.kind not in ("back", "return"):
                    continue
                # the traversal: a plain slice iterator (or slice patterns) over as_slice(self) - no adapter in between
                iters = [c for c in calls if c[1].endswith("::into_iter")]
                if iters and iters[0][3] != view:
                    msg = msg or "iterates %s, expected self.as_slice() itself" % show(iters[0][3])
                if any(n in ("skip", "rev", "take", "step_by", "filter", "zip", "chain") for n in names):
                    msg = msg or "the traversal goes through an iterator adapter (%s)" % [n for n in names if n in ("skip", "rev", "take", "step_by", "filter", "zip", "chain")]
                pushes = [c for c in calls if c[1] == AB + "push"]
                if p.kind == "back":
                    n_back += 1
                    cl = [c for c in calls if c[1].endswith("Clone::clone")]
                    if len(pushes) != 1 or len(cl) != 1 or pushes[0][4] != cl[0]:
                        msg = msg or "an iteration must push exactly one value, the clone of the current element (pushes=%d, clones=%d)" % (len(pushes), len(cl))
                else:
                    n_ret += 1
                    if pushes:
                        msg = msg or "pushes outside the loop over the elements"
                    new = [c for c in calls if c[1] == AB + "new"]
                    if len(new) != 1:
                        msg = msg or "the clone must start from ArrayBuilder::new()"
            if not msg and (n_back == 0 or n_ret == 0):
                msg = "no element loop found"
            if msg:
                ctx.violation("BUILDER", "clone", "ArrayBuilder::clone: %s" % msg, bdy.file())
            ctx.instance("BUILDER", "clone")
    from .. import accessors
    accessors.field(ctx, "BUILDER", prog, AB + "len", 1, what="the `inited` counter")
    accessors.rebuild(ctx, "BUILDER", prog, AB + "copy", nfields=2)
    b = ctx.anchor(prog, AB + "new")
    if b is not None:
        ps = sym.paths_of(b, prog)
        if len(ps) != 1 or sym.mk_field(ps[0].value, 1) != sym.I(0):
            ctx.violation("BUILDER", "new", "ArrayBuilder::new must start with inited = 0", b.file())
        ctx.instance("BUILDER", "new")
    for nm, prim in (("as_slice", "raw_parts"), ("as_mut_slice", "raw_parts_mut")):
        b = ctx.anchor(prog, AB + nm)
        if b is not None:
            ps = sym.paths_of(b, prog)
            v = ps[0].value if len(ps) == 1 else ("?",)
            ok = v[0] == prim and v[2] == inited and repr(("field", me, 0)) in repr(v[1])
            if not ok:
                ctx.violation("BUILDER", nm, "ArrayBuilder::%s must view array[..inited]: %s" % (nm, show(v)), b.file())
            ctx.instance("BUILDER", nm)


def byval(ctx, prog):
    for name in ("w_map_", "w_map__break", "w_from_fn_"):
        b = prog.get("w11::" + name)
        if b is None:
            ctx.violation("BYVAL", name, "witness %s missing" % name)
            continue
        calls = {}
        for bb, t in b.calls():
            if t.get("callee"):
                calls.setdefault(t["callee"]["path"].split("::")[-1], []).append(bb)
        msg = None
        nexts = calls.get("next", [])
        forgets = calls.get("forget", [])
        builds = calls.get("build", [])
        pushes = calls.get("push", [])
        if len(nexts) != 1 or len(forgets) != 1 or len(builds) != 1 or not pushes:
            msg = "expected one consumer.next(), one forget(consumer), one build() and a push(): %s" % {k: len(v) for k, v in calls.items() if k in ("next", "forget", "build", "push")}
        else:
            nb = nexts[0]
            # the block after next(): switch on the Option discriminant
            t = b.blocks[b.blocks[nb]["term"]["target"]]
            none_t = None
            sb = b.blocks[nb]["term"]["target"]
            while b.blocks[sb]["term"]["k"] == "goto":
                sb = b.blocks[sb]["term"]["target"]
            sw = b.blocks[sb]["term"]
            if sw["k"] == "switch":
                vals = {int(v): tb for v, tb in sw["targets"]}
                none_t = vals.get(0, sw["otherwise"] if 1 in vals else None)
            if name.endswith("_break"):
                # a `break` in the closure leaves the loop early: the consumer is then leaked and build() panics
                # (is_full assert, BUILDER rule) - nothing is dropped twice and no array is produced
                if not b.dominates(forgets[0], builds[0]):
                    msg = "build() is not preceded by forget(consumer)"
            elif none_t is None or not b.dominates(none_t, forgets[0]):
                msg = "forget(consumer) is not confined to the path where consumer.next() returned None (elements would leak or be dropped twice)"
            elif not b.dominates(forgets[0], builds[0]):
                msg = "build() is not preceded by forget(consumer)"
            elif any(b.dominates(none_t, p) for p in pushes):
                msg = "push() happens after the consumer is exhausted"
        if msg:
            ctx.violation("BYVAL", name, "%s: %s" % (name, msg), b.file())
        ctx.instance("BYVAL", name, sample={"witness": name})


def elem_owned(ctx, prog):
    """ELEM-OWNED (by-value map): while the closure body runs the element taken from the consumer is an ordinary owned local -
    `ManuallyDrop::into_inner` is applied to what `next()` returned before any caller code - so every way out of the body
    (fall-through, `return`, `?`, a labelled `break`, a panic) drops it exactly once by scope; an element still wrapped in its
    ManuallyDrop while caller code runs is leaked by every early exit"""
    for name in ("w_map_", "w_map__break", "w_map__return", "w_map__ref", "w_map__ref_return", "w_map__ref_labeled", "w_map__mut", "w_map__wild"):
        b = prog.get("w11::" + name)
        if b is None:
            ctx.violation("ELEM-OWNED", name, "witness %s missing" % name)
            continue
        nexts = [bb for bb, t in b.calls() if t.get("callee") and t["callee"]["path"].endswith("ArrayConsumer::<T, N>::next") or
                 (t.get("callee") and t["callee"]["path"].split("::")[-1] == "next" and "ArrayConsumer" in t["callee"]["path"])]
        unwraps = [bb for bb, t in b.calls() if t.get("callee") and "ManuallyDrop" in t["callee"]["path"] and t["callee"]["path"].split("::")[-1] == "into_inner"]
        user = [(bb, t["callee"]["path"]) for bb, t in b.calls() if t.get("callee") and t["callee"]["path"].startswith("w11::")]
        msg = None
        if len(nexts) != 1:
            msg = "expected one consumer.next() call, found %d" % len(nexts)
        else:
            inner = [u for u in unwraps if b.dominates(nexts[0], u)]
            loops_ = [blocks for blocks in b.loops().values() if nexts[0] in blocks]
            body_user = [(bb, c) for bb, c in user if any(bb in blocks for blocks in loops_) or b.dominates(nexts[0], bb)]
            if not body_user:
                msg = "no caller code found in the element loop"
            for bb, c in body_user:
                if not b.dominates(nexts[0], bb):
                    continue
                if not any(b.dominates(u, bb) for u in inner):
                    msg = msg or "caller code (%s) runs while the element is still inside its ManuallyDrop: an early exit from the closure body leaks it" % c.split("::")[-1]
        if msg:
            ctx.violation("ELEM-OWNED", name, "%s: %s" % (name, msg), b.file())
        ctx.instance("ELEM-OWNED", name, sample={"witness": name, "unwrap_sites": len(unwraps)})


def twopass(ctx, prog):
    for owner in ("W_COLLECT", "W_COLLECT_FILTER", "W_COLLECT_FLAT", "W_COLLECT_TAKE", "W_STR", "W_STR_CHARS"):
        fn = prog.get("w11::%s::__func_zxe7hgbnjs" % owner)
        cnt = prog.get("w11::%s::__COUNT81608BFNA5" % owner)
        arr = prog.get("w11::%s::__ARR81608BFNA5" % owner)
        key = owner
        if fn is None or cnt is None or arr is None:
            ctx.violation("TWOPASS", key, "%s: generated function / __COUNT / __ARR constants not found in the expansion" % owner)
            continue
        c1 = [t["callee"]["raw"] for _, t in cnt.calls() if t.get("callee") and "__func" in t["callee"]["path"]]
        c2 = [t["callee"]["raw"] for _, t in arr.calls() if t.get("callee") and "__func" in t["callee"]["path"]]
        if len(c1) != 1 or c1 != c2 or c1[0] != fn.raw:
            ctx.violation("TWOPASS", key, "%s: the length pass and the build pass do not call the same generated function" % owner)
        # the length counter is advanced outside the BuildArray-only block: both passes count the same
        sites = typestate.find_sites(fn)
        if len(sites) != 1:
            ctx.violation("TWOPASS", key + "|site", "%s: expected exactly one assume_init in the generated function" % owner)
            ctx.instance("TWOPASS", key)
            continue
        bb, t = sites[0]
        fixed = typestate.fixed_discriminants(fn, bb)
        succ = typestate.pruned_succ(fn, fixed)
        dom, reach = typestate.dominators(fn, succ)
        g = typestate.guard_of_site(fn, bb, dom)
        if g is None or not fixed:
            ctx.violation("TWOPASS", key + "|guard", "%s: assume_init is not inside the BuildArray arm guarded by length == CAP" % owner)
        else:
            counter = g[0]
            # in the *other* mode the increments must still be reachable (same count), the stores not
            other = {k: (1 - v) for k, v in fixed.items()}
            succ2 = typestate.pruned_succ(fn, other)
            dom2, reach2 = typestate.dominators(fn, succ2)
            incs = [d for d in typestate.counter_defs(fn, counter) if d[0] == "inc"]
            arr_l = typestate.single_use_source(fn, typestate.operand_local(t["args"][0]))
            stores = typestate.stores_to(fn, arr_l)
            if not incs or any(d[1] not in reach2 for d in incs):
                ctx.violation("TWOPASS", key + "|count", "%s: the length is not advanced in the ComputeLength pass exactly where it is in the BuildArray pass" % owner)
            if any(s[0] in reach2 for s in stores):
                ctx.violation("TWOPASS", key + "|store", "%s: the array is written in the ComputeLength pass (CAP = 0 there)" % owner)
        ctx.instance("TWOPASS", key, sample={"macro": owner})


EXIT_PROGS = [
    ("map!/break in const fn", "pub const fn f(a: [u8; 3]) -> [u8; 3] { konst::array::map!(a, |x| { if x == 1 { break } x }) }"),
    ("from_fn!/continue in const", "pub const A: [u8; 3] = konst::array::from_fn!(|i| { if i == 9 { continue } i as u8 });"),
    ("map_!/return in const fn", "pub const fn f(a: [u8; 3]) -> [u8; 3] { konst::array::map_!(a, |x| { if x == 1 { return [0; 3] } x }) }"),
    ("collect_const!/break", "pub const A: [u8; 2] = konst::iter::collect_const!(u8 => 0u8..3, map(|x| { if x == 7 { break } x }), take(2));"),
]


def early_exit_programs(ctx):
    """informational: rustc's verdict on early exits in const contexts (accepted ones are covered by INIT above)"""
    res = facts.compile_many([(n, "#![allow(unused, unreachable_code)]\n" + s + "\n") for n, s in EXIT_PROGS], ctx.th)
    for (n, s), r in zip(EXIT_PROGS, res):
        ctx.instance("EXIT-PROG", n, nontrivial=False, sample={"program": n, "accepted": r["ok"], "error": (r["errors"][0]["message"][:80] if r["errors"] else None)})
