"""C12 — integer / bool parsing accepts std's language and returns the same value.

Rules over the 12 `Parser::parse_<int>` bodies (one expansion of parse_integer! each):
 D3-SIGN   the only byte consumed before the first digit is b'-' (signed) / nothing (unsigned)
 D3-DIGIT  first-digit and loop-digit byte classes are exactly 30-39
 REC       num' = num*10 + (byte - b'0') in the unsigned twin, cursor drops one byte; both overflow
           flags of that multiply-add reach the error exit
 TAB-SIGN  loop-exit table: negative -> num <= |MIN| else error, value wrapping_neg(num as T);
           positive -> num <= MAX else error; unsigned -> num
 CONSUMED  the new remainder is str_from(old, len(old) - len(unparsed bytes))
 TAB-BOOL  parse_bool spells exactly "true"/"false" and skips their lengths
 TAB-WHOLE whole-string wrappers: Ok((n, p)) with p empty -> Ok(n), everything else -> Err
"""
from .. import byteset, sym, table
from ..sym import show, INT_TYS, UNSIGNED
from ..table import Row, lt, le, eq, ne, Int
from .c13 import parser_fields, parser_methods
from .c14 import split_err
from .c05 import _byte_set, tail, head

DIGITS = ((0x30, 0x39),)
TYPES = ["u8", "u16", "u32", "u64", "u128", "usize", "i8", "i16", "i32", "i64", "i128", "isize"]


def strip_casts(t):
    while t[0] == "cast" and t[1] == "int2int":
        t = t[3]
    return t


def depth_of(t, base):
    """number of one-byte front cuts from base to t (ref(subslice(..,1,0,True)) chain), or None"""
    d = 0
    while t != base:
        if t is None:
            return None
        if t[0] == "ref" and t[1][0] == "subslice" and t[1][2:] == (1, 0, True):
            inner = t[1][1]
            t = sym.mk_ref(inner)
            d += 1
            if d > 4:
                return None
        else:
            return None
    return d


def run(ctx):
    ctx.explanation = ("byte classes of sign/digits computed exactly from branch conditions; multiply-add recurrence and overflow "
                       "flags; loop-exit sign/limit table per type; consumed-length term; parse_bool spelling; whole-string wrappers")
    for cfg in (["FULL"] if ctx.tier == "quick" else ["FULL", "DEBUG"]):
        prog = ctx.program(cfg)
        F = parser_fields(prog)
        if F is None:
            ctx.violation("ANCHOR", cfg + "|Parser", "struct Parser not found")
            continue
        methods = {b.key.split("::")[-1]: b for b in parser_methods(prog)}
        for ty in TYPES:
            b = methods.get("parse_" + ty)
            if b is None:
                ctx.violation("ANCHOR", "%s|parse_%s" % (cfg, ty), "Parser::parse_%s not found" % ty)
                continue
            integer(ctx, prog, F, b, ty)
        bool_(ctx, prog, F, methods.get("parse_bool"))
        wholes(ctx, prog, F)
    ctx.floor("D3-DIGIT", 12)
    ctx.floor("D3-SIGN", 12)
    ctx.floor("REC", 12)
    ctx.floor("TAB-SIGN", 12)
    ctx.floor("TAB-WHOLE", 13)
    ctx.floor("TAB-BOOL", 1)


def _sign_test(c, LN, ty, uty, max_pos, max_neg):
    """A sign test on the accumulator reinterpreted in the signed type says where the (unsigned, same width) accumulator n lies:
         (n as T) < 0  <=>  n > MAX          (n as T) >= 0  <=>  n <= MAX
         (n as T).wrapping_neg() > 0  <=>  n > |MIN|      (n as T).wrapping_neg() <= 0  <=>  n <= |MIN|
    (two's complement: n as T is negative from 2^(bits-1) on; wrapping_neg maps MIN to itself and flips every other sign).
    The tests whose meaning is a disjunction of ranges are left as they are (and are then not understood by the table)."""
    if c[0] not in ("lt", "le"):
        return c
    C = ("cast", "int2int", ty, LN)
    W = ("call", "core::num::<impl %s>::wrapping_neg" % ty, None, C)
    Z = ("int", 0, ty)
    KP, KN = ("int", max_pos, uty), ("int", max_neg, uty)
    a, b = c[1], c[2]
    if c[0] == "lt" and (a, b) == (C, Z):
        return lt(KP, LN)
    if c[0] == "le" and (a, b) == (Z, C):
        return le(LN, KP)
    if c[0] == "lt" and (a, b) == (Z, W):
        return lt(KN, LN)
    if c[0] == "le" and (a, b) == (W, Z):
        return le(LN, KN)
    return c


def _same_on(got, want, hole, byteset_):
    """the two u8 terms over one byte have the same value for every byte the path admits (any spelling of the digit's value:
    `b - b'0'`, `b ^ b'0'`, `b & 0x0F` ... - evaluated exactly on each admitted byte)"""
    if not byteset_:
        return False
    try:
        return all(byteset.ev(got, hole, v) == byteset.ev(want, hole, v) for v in byteset_)
    except (byteset.Opaque, TypeError, KeyError, IndexError):
        return False


def integer(ctx, prog, F, b, ty):
    cfg = prog.config
    key = "%s|parse_%s" % (cfg, ty)
    signed = ty not in UNSIGNED
    bits = INT_TYS[ty]
    uty = ty if not signed else "u" + ty[1:]
    old_str = sym.mk_field(("p", 1), F["str"])
    B0 = ("as_bytes", old_str)
    try:
        paths = sym.through_loops(b, prog, keep_back=True, max_paths=2000)
    except sym.TooManyPaths:
        ctx.violation("REC", key, "too many paths", b.file())
        return
    backs = [p for p in paths if p.kind == "back"]
    if not backs:
        ctx.violation("REC", key, "no digit loop found", b.file())
        return
    # roles
    C = N = None
    for p in backs:
        for l, v in p.env.items():
            if v == tail(("L", l), "front"):
                C = l
            if v[0] == "bin" and v[1] == "Add" and v[2][0] == "bin" and v[2][1] == "Mul" and v[2][2] == ("L", l):
                N = l
    if C is None or N is None:
        ctx.violation("REC", key, "cannot identify the byte cursor and the accumulator of the digit loop", b.file())
        return
    LC, LN = ("L", C), ("L", N)
    hC = head(LC, "front")
    # the digit loop is the loop that moves the byte cursor; rounds of any other loop of the function are not its rounds
    dl = {e[1] for p in paths for e in p.events if e[0] == "loop" and C in dict(e[2])}
    if len(dl) == 1:
        backs = [p for p in backs if p.value in dl]
    # ---- groups by how many bytes were consumed before the loop
    groups = {}
    for p in paths:
        for e in p.events:
            if e[0] == "loop":
                init = dict(e[2])
                if C not in init:
                    continue            # another loop of the function (not the digit loop)
                d = depth_of(init.get(C), B0)
                groups.setdefault(d, []).append((p, init))
    # every successful return comes out of the digit loop: a result produced on a path that never entered it (a delegation to
    # another parser, a special-cased literal) is not covered by the recurrence and the exit table below
    for p in paths:
        if p.kind == "return" and isinstance(p.value, tuple) and p.value[0] == "agg" and p.value[1].endswith("Result::Ok#0") \
                and not any(e[0] == "loop" and C in dict(e[2]) for e in p.events):
            ctx.violation("REC", key + "|shortcut", "parse_%s returns Ok(%s) on a path that does not go through the digit loop" % (
                ty, show(p.value[2])[:160]), b.file())
            break
    want_groups = {1, 2} if signed else {1}
    if set(groups) != want_groups:
        ctx.violation("D3-SIGN", key, "parse_%s enters the digit loop after consuming %s leading bytes, expected %s "
                      "(one digit%s)" % (ty, sorted(groups, key=str), sorted(want_groups), ", optionally after '-'" if signed else ""), b.file())
    # ---- sign byte
    h0 = head(B0, "front")
    if 2 in groups:
        s = set()
        for p, init in groups[2]:
            x = set(range(256))
            for c in p.conds:
                x &= _byte_set(c, h0)
            s |= x
        got = byteset.to_ranges(s)
        if got != ((0x2D, 0x2D),):
            ctx.violation("D3-SIGN", key + "|byte", "parse_%s consumes a leading byte from {%s}; only b'-' (2D) may precede the digits "
                          "(a leading '+' must not be accepted)" % (ty, byteset.show_ranges(got)), b.file())
    ctx.instance("D3-SIGN", key, sample={"type": ty, "signed": signed, "groups": sorted(groups, key=str)})
    # ---- first digit
    for d, items in groups.items():
        if d is None:
            continue
        hole = h0 if d == 1 else ("cidx", ("subslice", ("deref", B0), 1, 0, True), 0, False)
        s = set()
        for p, init in items:
            x = set(range(256))
            for c in p.conds:
                x &= _byte_set(c, hole)
            s |= x
            want_init = ("bin", "Sub", hole, ("int", 48, "u8"))
            got_init = strip_casts(init.get(N, ("?",)))
            if got_init != want_init and not _same_on(got_init, want_init, hole, x):
                ctx.violation("REC", key + "|first", "first digit value is %s, expected byte - b'0'" % show(init.get(N, ("?",))), b.file())
        got = byteset.to_ranges(s)
        if got != DIGITS:
            ctx.violation("D3-DIGIT", key + "|first|%d" % d, "parse_%s accepts first-digit bytes {%s}, expected {30-39}" % (
                ty, byteset.show_ranges(got)), b.file())
    # ---- loop digit class + recurrence
    s = set()
    for p in backs:
        x = set(range(256))
        for c in p.conds:
            x &= _byte_set(c, hC)
        s |= x
        got = p.env.get(N)
        digit = got[3] if got and got[0] == "bin" else ("?",)
        ok = got and got[0] == "bin" and got[1] == "Add" and got[2] == ("bin", "Mul", LN, ("int", 10, uty)) \
            and (strip_casts(digit) == ("bin", "Sub", hC, ("int", 48, "u8")) or _same_on(strip_casts(digit), ("bin", "Sub", hC, ("int", 48, "u8")), hC, x))
        if not ok:
            ctx.violation("REC", key + "|step", "accumulator update is %s, expected num*10 + (byte - b'0') in %s" % (show(got) if got else "?", uty), b.file())
        f_mul, f_add = ("ovf", "Mul", LN, ("int", 10, uty)), ("ovf", "Add", ("bin", "Mul", LN, ("int", 10, uty)), digit)
        flags = ("bin", "BitOr", f_mul, f_add)
        # both flags clear: tested together (overflowing_* and `|`) or one after the other (checked_* and match)
        # third spelling: a bound test before a plain multiply-add:  num <= (MAX - digit) / 10   <=>   num*10 + digit <= MAX
        umax = ("int", (1 << bits) - 1, uty)
        dig_terms = [digit, strip_casts(digit)]
        bounds = [("bin", "Div", ("bin", "Sub", umax, d_), ("int", 10, uty)) for d_ in dig_terms]
        bound_clear = any(table.le(LN, bd) in p.conds for bd in bounds)
        clear = ("nholds", flags) in p.conds or (("nholds", f_mul) in p.conds and ("nholds", f_add) in p.conds) or bound_clear
        if not clear:
            ctx.violation("REC", key + "|overflow", "the loop continues without requiring both overflow flags of num*10 + digit to be clear", b.file())
        errs = [q for q in paths if q.kind == "return" and (("holds", flags) in q.conds or ("holds", f_mul) in q.conds or ("holds", f_add) in q.conds)]
        if bound_clear:
            errs = [q for q in paths if q.kind == "return" and any(table.lt(bd, LN) in q.conds for bd in bounds)]
        split_form = ("nholds", flags) not in p.conds and not bound_clear
        if split_form and not (any(("holds", f_mul) in q.conds for q in errs) and any(("holds", f_add) in q.conds for q in errs)):
            errs = []
        if not errs or any(split_err(q.value) is None or split_err(q.value)[1] != "ParseInteger" for q in errs):
            ctx.violation("REC", key + "|overflow-exit", "an overflowing multiply-add does not lead to Err(ParseInteger)", b.file())
    got = byteset.to_ranges(s)
    if got != DIGITS:
        ctx.violation("D3-DIGIT", key + "|loop", "parse_%s continues on bytes {%s}, expected {30-39}" % (ty, byteset.show_ranges(got)), b.file())
    ctx.instance("D3-DIGIT", key, sample={"type": ty, "loop_digits": byteset.show_ranges(got)})
    ctx.instance("REC", key, sample={"type": ty, "twin": uty})
    # ---- exit table
    consumed = ("call", "konst_kernel::string::str_from", None, old_str, ("bin", "Sub", ("len", old_str), ("len", LC)))

    def ok_value(expect):
        def f(path, case):
            t = path.value
            if not (t[0] == "agg" and t[1].endswith("Result::Ok#0") and t[2][0] == "agg" and t[2][1] == "tuple"):
                return "expected Ok((value, parser)), got %s" % show(t)
            v, np = table.strip_gargs(t[2][2]), t[2][3]
            if v != expect:
                return "value is %s, expected %s" % (show(v), show(expect))
            ns = table.strip_gargs(sym.mk_field(np, F["str"]))
            if ns != consumed:
                return "new remainder is %s, expected str_from(old, len(old) - len(unparsed))" % show(ns)
            return None
        return f

    def err(path, case):
        r = split_err(path.value)
        return None if r and r[1] == "ParseInteger" else "expected Err(ParseInteger), got %s" % show(path.value)
    max_pos = (1 << (bits - 1)) - 1
    max_neg = 1 << (bits - 1)
    for d, items in groups.items():
        exits = [p for p, _ in items if p.kind == "return" and not any(
            (c[0] == "holds" and (c[1][0] == "ovf" or (c[1][0] == "bin" and c[1][1] == "BitOr")))
            or (c[0] == "lt" and c[2] == LN and c[1][0] == "bin" and c[1][1] == "Div") for c in p.conds)]   # (overflow exits: REC)
        if not signed:
            rows = [Row([], ok_value(LN), name="unsigned: value is the accumulator")]
            cons = []
        elif d == 2:
            K = ("int", max_neg, uty)
            rows = [Row([le(LN, K)], ok_value(("call", "core::num::<impl %s>::wrapping_neg" % ty, None, ("cast", "int2int", ty, LN))), name="negative, |n| <= |MIN|"),
                    Row([lt(K, LN)], err, name="negative, |n| > |MIN|")]
        else:
            K = ("int", max_pos, uty)
            rows = [Row([le(LN, K)], ok_value(("cast", "int2int", ty, LN)), name="positive, n <= MAX"),
                    Row([lt(K, LN)], err, name="positive, n > MAX")]
        # only the accumulator-vs-limit atoms matter for this table: project the paths onto them
        proj = []
        seen = set()
        for p in exits:
            conds = tuple(_sign_test(table.strip_gargs(c), LN, ty, uty, max_pos, max_neg) if signed else c for c in p.conds)
            conds = tuple(c for c in conds if c[0] in ("lt", "le", "eq", "ne") and LN in (c[1], c[2]))
            sig = (conds, repr(p.value))
            if sig in seen:
                continue
            seen.add(sig)
            proj.append(sym.Path(conds, p.kind, p.value, p.events, p.env, p.heap, p.end, p.blocks, p.assumed))
        # (the accumulator has the unsigned twin type: it never exceeds that type's MAX - a limit test against it cannot fail)
        umax = (1 << bits) - 1
        try:
            mism, n, dec = table.compare(proj, rows, extra_consts=(max_pos, max_neg) if signed else (),
                                         constraints=[le(LN, ("int", umax, uty))])
        except table.Undecided as e:
            ctx.violation("TAB-SIGN", key + "|%s" % d, "undecided: %s" % e, b.file())
            continue
        for m in mism[:2]:
            ctx.violation("TAB-SIGN", key + "|%s|%s" % (d, m.row.name), "parse_%s: %s" % (ty, m), b.file())
    ctx.instance("TAB-SIGN", key, sample={"type": ty, "MAX": max_pos if signed else None, "MIN_abs": max_neg if signed else None})


def bool_(ctx, prog, F, b):
    if b is None:
        ctx.violation("ANCHOR", prog.config + "|parse_bool", "Parser::parse_bool not found")
        return
    key = prog.config + "|parse_bool"
    old_str = sym.mk_field(("p", 1), F["str"])
    B0 = ("as_bytes", old_str)
    paths = sym.paths_of(b, prog)
    words = {}
    for p in paths:
        if p.kind != "return":
            continue
        t = p.value
        if t[0] == "agg" and t[1].endswith("Result::Ok#0"):
            letters = {}
            for c in p.conds:
                if c[0] == "in" and c[1][0] == "cidx" and c[1][1] == ("deref", B0) and not c[1][3] and len(c[2]) == 1:
                    letters[c[1][2]] = c[2][0]
            word = bytes(letters[i] for i in sorted(letters)) if sorted(letters) == list(range(len(letters))) else None
            val = t[2][2]
            ns = table.strip_gargs(sym.mk_field(t[2][3], F["str"]))
            words[word] = (val, ns)
        else:
            r = split_err(t)
            if r is None or r[1] != "ParseBool":
                ctx.violation("TAB-BOOL", key + "|err", "parse_bool failure is %s, expected Err(ParseBool)" % show(t), b.file())
    want = {b"true": ("bool", True), b"false": ("bool", False)}
    if set(words) != set(want):
        ctx.violation("TAB-BOOL", key + "|words", "parse_bool accepts %s, expected exactly \"true\" and \"false\"" % sorted(map(repr, words)), b.file())
    for w, (val, ns) in words.items():
        if w in want:
            if val != want[w]:
                ctx.violation("TAB-BOOL", key + "|value", "parse_bool returns %s for %r" % (show(val), w), b.file())
            exp = ("call", "konst_kernel::string::str_from", None, old_str, Int(len(w)))
            if ns != exp:
                ctx.violation("TAB-BOOL", key + "|skip", "after %r the remainder is %s, expected str_from(old, %d)" % (w, show(ns), len(w)), b.file())
    ctx.instance("TAB-BOOL", key, sample={"accepted": sorted(w.decode() for w in words if w)})


def wholes(ctx, prog, F):
    # (the accessors through which the wrapper may ask "is anything left": each is decided by C13's ACC rules / is one line over the fields)
    news = {b.key for b in parser_methods(prog) if b.key.split("::")[-1] in ("new", "is_empty", "len", "remainder") and not b.loops()}
    for ty in TYPES + ["bool"]:
        b = ctx.anchor(prog, "konst::primitive::parse::parse_" + ty)
        if b is None:
            continue
        key = "%s|%s" % (prog.config, ty)
        paths = sym.paths_of(b, prog, inline=news)
        P0 = ("agg", "adt:konst::parsing::Parser::Parser#0", ("agg", "adt:konst::parsing::parse_errors::ParseDirection::FromStart#0"),
              ("bool", False), ("int", 0, "u32"), ("p", 1))
        calls = [e[2] for p in paths for e in p.events if e[0] == "call"]
        c = None
        for x in calls:
            if x[1].endswith("::parse_" + ty) and "Parser" in x[1]:
                c = table.strip_gargs(x)
        if c is None or c[3] != P0:
            ctx.violation("TAB-WHOLE", key, "primitive::parse_%s does not call Parser::new(s).parse_%s()" % (ty, ty), b.file())
            continue
        rest = ("len", ("field", ("field", ("vfield", c, 0, 0), 1), F["str"]))

        def ok(path, case, c=c):
            want = table.Ok(("field", ("vfield", c, 0, 0), 0))
            return None if table.strip_gargs(path.value) == want else "expected Ok(parsed value), got %s" % show(path.value)

        def err(path, case):
            t = path.value
            return None if t[0] == "agg" and t[1].endswith("Result::Err#1") else "expected Err(..), got %s" % show(t)
        rows = [Row([("is", c, 0), eq(rest, Int(0))], ok, name="parsed and nothing left"),
                Row([("is", c, 0), ne(rest, Int(0))], err, name="trailing input"),
                Row([("is", c, 1)], err, name="parse failure")]
        try:
            mism, n, dec = table.compare(paths, rows, variant_domain={c: [0, 1]})
        except table.Undecided as e:
            ctx.violation("TAB-WHOLE", key, "undecided: %s" % e, b.file())
            continue
        ctx.instance("TAB-WHOLE", key, nontrivial=dec >= 2, sample={"fn": "primitive::parse_" + ty, "cases": n})
        for m in mism[:2]:
            ctx.violation("TAB-WHOLE", key + "|" + m.row.name, "primitive::parse_%s: %s" % (ty, m), b.file())
