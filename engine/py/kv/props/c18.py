"""C18 — parser_method! behaves like the equivalent chain of Parser method calls.

E12 (translation validation): generated literal sets are placed in witness crates both as the macro's
argument and as a plain constant; rustc expands the macro; in HIR the byte list of the slice pattern
the proc macro produced is compared with rustc's own unescaped bytes of the twin literal (prefix form:
`[bytes.., rem @ ..]`, suffix form: `[rem @ .., bytes..]`).  No konst function is executed.
TAB-ESCAPE: the escape table of the literal decoder read from the proc-macro crate's MIR.
LEX-CONT: the line-continuation arm must not use Unicode `trim_start`.
TAB-FORM: shape of the strip / find / trim expansions (arm order, one-byte drop, empty-match break,
skip/skip_back by the matched length).
"""
import random
from concurrent.futures import ThreadPoolExecutor

from .. import facts, mir, sym, table
from ..sym import show
from .c19 import witness_program

NL = "\n"

QUICK_LITS = [
    ('plain', '"abc"'), ('empty', '""'), ('space', '"a b"'), ('latin', '"héllo"'), ('cjk', '"日本"'), ('emoji', '"\U0001F600"'),
    ('esc-n', r'"\n"'), ('esc-r', r'"\r"'), ('esc-t', r'"\t"'), ('esc-bs', r'"\\"'), ('esc-0', r'"\0"'), ('esc-sq', r'"\'"'), ('esc-dq', r'"\""'),
    ('esc-mix', r'"a\nb\tc\\d"'), ('hex-41', r'"\x41"'), ('hex-00', r'"\x00"'), ('hex-7f', r'"\x7F"'), ('hex-lower', r'"\x7a"'),
    ('u-41', r'"\u{41}"'), ('u-e9', r'"\u{e9}"'), ('u-1f600', r'"\u{1F600}"'), ('u-max', r'"\u{10FFFF}"'), ('u-0', r'"\u{0}"'),
    ('u-pad', r'"\u{000041}"'), ('u-underscore', r'"\u{1_F600}"'), ('u-underscore2', r'"\u{00_41}"'),
    ('cont-spaces', '"a\\\n    b"'), ('cont-tab', '"a\\\n\t b"'), ('cont-blank-lines', '"a\\\n\n\n  b"'), ('cont-crlf', '"a\\\r\n  b"'),
    ('cont-nbsp', '"a\\\n  b"'), ('cont-end', '"ab\\\n   "'), ('cont-then-escape', '"a\\\n   \\n"'),
    ('raw', 'r"abc"'), ('raw-backslash', r'r"a\nb"'), ('raw-1hash', 'r#"a"b"#'), ('raw-2hash', 'r##"a"#b"##'), ('raw-empty', 'r""'),
    ('raw-empty-hash', 'r#""#'), ('raw-cjk', 'r"日本"'),
    ('concat', 'concat!("ab", "cd")'), ('concat-mixed', 'concat!("a", "\\n", r"\\n")'), ('concat-one', 'concat!("x")'),
    ('stringify', 'stringify!(foo)'),
    ('concat-nested-mid', 'concat!("a", concat!("b", "c"), "d")'), ('concat-nested-first', 'concat!(concat!("a", "b"), "c", "d")'),
    ('concat-nested-last', 'concat!("a", "b", concat!("c", "d"))'), ('concat-nested-deep', 'concat!(concat!(concat!("a"), "b"), concat!(), "c")'),
    ('concat-nested-raw', 'concat!("x", concat!(r"\n", "\n"), r#"y"#)'), ('concat-empty', 'concat!()'), ('concat-trailing-comma', 'concat!("a", "b",)'),
    ('concat-nested-trailing', 'concat!(concat!("a",), "b",)'),
]


def gen_lits(seed, n):
    rng = random.Random(seed)
    pieces = ["a", "B", " ", "z9", "é", "日", "\U0001F600", r"\n", r"\r", r"\t", r"\\", r"\0", r"\'", r"\"", r"\x41", r"\x7e", r"\x0a",
              r"\u{41}", r"\u{7FF}", r"\u{800}", r"\u{FFFF}", r"\u{10000}", r"\u{1_0000}", "\\\n   ", "\\\n\t", "\\\n\n "]
    out = []
    for i in range(n):
        k = rng.randint(0, 5)
        kind = rng.random()
        if kind < 0.7:
            body = "".join(rng.choice(pieces) for _ in range(k))
            out.append(("gen%d" % i, '"%s"' % body))
        elif kind < 0.85:
            h = rng.randint(0, 2)
            body = "".join(rng.choice(["a", "\\", "n", '"' if h else "q", "#" if h > 1 else "x", "日"]) for _ in range(k))
            if h == 1:
                body = body.replace('"#', '"x')
            out.append(("gen%d" % i, 'r%s"%s"%s' % ("#" * h, body, "#" * h)))
        else:
            def cc(depth):
                parts = []
                for _ in range(rng.randint(0, 3)):
                    if depth < 2 and rng.random() < 0.35:
                        parts.append(cc(depth + 1))
                    else:
                        parts.append('"%s"' % "".join(rng.choice(pieces[:17]) for _ in range(rng.randint(0, 2))))
                return "concat!(%s)" % ", ".join(parts)
            out.append(("gen%d" % i, cc(0)))
    return out


def witness_src(lit):
    return ("#![allow(unused)]\n"
            "pub const TWIN: &str = %s;\n"
            "pub fn pre(p: &mut konst::Parser<'_>) -> u8 { konst::parser_method!{*p, strip_prefix; %s => 1, _ => 0} }\n"
            "pub fn suf(p: &mut konst::Parser<'_>) -> u8 { konst::parser_method!{*p, strip_suffix; %s => 1, _ => 0} }\n"
            "pub fn alt(p: &mut konst::Parser<'_>) -> u8 { konst::parser_method!{*p, strip_prefix; %s | \"zz\" => 1, \"q\" | %s => 2, _ => 0} }\n") % (lit, lit, lit, lit, lit)


def run(ctx):
    ctx.explanation = ("translation validation of the proc macro's literal decoding against rustc's own unescaping (HIR), escape table and "
                       "continuation handling read from the proc-macro crate's MIR, structural tables of the strip/find/trim expansions")
    ctx.level = "translation_validation"
    lits = list(QUICK_LITS)
    if ctx.tier == "thorough":
        lits += gen_lits(ctx.seed, 400)
    else:
        lits += gen_lits(ctx.seed, 24)
    th = ctx.th
    facts.rmeta("FULL", th)

    def one(item):
        name, lit = item
        f, diag, rc = facts.witness_facts("w18", witness_src(lit), "FULL", th, hir=True)
        return name, lit, f, diag
    with ThreadPoolExecutor(max_workers=12) as ex:
        results = list(ex.map(one, lits))
    n_ok = 0
    disagreements = 0
    samples = []
    for name, lit, f, diag in results:
        key = name if not name.startswith("gen") else "gen|" + lit
        if f is None:
            first = [l for l in diag.splitlines() if l.startswith("error")][:1]
            ctx.violation("E12", key + "|rejected", "parser_method! rejects the valid Rust literal %s: %s" % (lit, first[0] if first else diag[:200]),
                          detail={"literal": lit, "diag": diag[-1200:]})
            ctx.instance("E12", key, sample={"literal": lit, "result": "rejected by the macro"})
            continue
        twin = [l for l in f.get("hir_lits", []) if l["owner"].endswith("::TWIN") and l["kind"] == "str"]
        if len(twin) != 1:
            ctx.violation("E12", key + "|twin", "cannot find rustc's literal for %s" % lit)
            continue
        want = twin[0]["bytes"]
        for fn, side in (("pre", "before"), ("suf", "after")):
            pats = [p for p in f.get("hir_pats", []) if p["owner"].endswith("::" + fn)]
            other = "after" if side == "before" else "before"
            good = [p for p in pats if p["rest"] and not p[other]]
            if len(good) != 1:
                ctx.violation("E12", key + "|shape|" + fn, "expansion for %s has %d matching slice patterns of the form %s" % (
                    lit, len(good), "[bytes.., rem @ ..]" if fn == "pre" else "[rem @ .., bytes..]"), detail={"patterns": pats})
                continue
            got = good[0][side]
            if got != want:
                disagreements += 1
                ctx.violation("E12", key + "|bytes", "parser_method! matches bytes %s for the literal %s, rustc gives %s" % (
                    bytes(got), lit, bytes(want)), detail={"literal": lit, "macro": got, "rustc": want})
        # the literal among other alternatives: what precedes and follows it in the pattern list is not swallowed
        pats = [p for p in f.get("hir_pats", []) if p["owner"].endswith("::alt") and p["rest"] and not p["after"]]
        got = [bytes(p["before"]) for p in pats]
        exp = [bytes(want), b"zz", b"q", bytes(want)]
        if got != exp:
            ctx.violation("E12", key + "|alternatives", "`%s | \"zz\" => .., \"q\" | %s => ..` expands to the patterns %s, expected %s" % (lit, lit, got, exp),
                          detail={"literal": lit, "patterns": pats})
        n_ok += 1
        ctx.instance("E12", key, sample={"literal": lit, "bytes": len(want)})
        if len(samples) < 6:
            samples.append({"literal": lit, "rustc_bytes": want[:16]})
    ctx.extra["programs"] = len(results)
    ctx.extra["disagreements_checked"] = len(results) * 2
    ctx.extra["samples"] = samples or [{"literal": "-"}]
    escape_table(ctx)
    forms(ctx)
    ctx.floor("E12", 60)
    ctx.floor("TAB-ESCAPE", 7)
    ctx.floor("TAB-FORM", 40)


# ------------------------------------------------------------------------------
SIMPLE = {ord("n"): 0x0A, ord("r"): 0x0D, ord("t"): 0x09, ord("\\"): 0x5C, ord("0"): 0x00, ord("'"): 0x27, ord('"'): 0x22}


def escape_table(ctx):
    prog = ctx.program("FULL")
    b = ctx.anchor(prog, "konst_proc_macros::parsing::parse_string")
    if b is None:
        return
    # the switch on the byte after the backslash: discriminant defined by a call to get_byte
    sw = None
    for bb in sorted(b.reachable()):
        t = b.blocks[bb]["term"]
        if t["k"] == "switch" and t["discr_ty"] == "u8" and len(t["targets"]) >= 8:
            sw = (bb, t)
    if sw is None:
        ctx.violation("TAB-ESCAPE", "switch", "cannot find the escape dispatch in parse_string", b.file())
        return
    bb, t = sw

    def first_push(start, stop):
        """first interesting call reachable from `start` without passing `stop` blocks"""
        seen, st = set(), [start]
        while st:
            x = st.pop(0)
            if x in seen or x in stop:
                continue
            seen.add(x)
            for stm in b.blocks[x]["stmts"]:
                if stm["k"] == "assign" and stm["rv"]["k"] == "use" and stm["rv"]["op"]["k"] == "const" \
                        and stm["rv"]["op"].get("ty") == "char" and "bits" in stm["rv"]["op"]:
                    return ("push", int(stm["rv"]["op"]["bits"]))
            tt = b.blocks[x]["term"]
            if tt["k"] == "call" and tt.get("callee"):
                p = mir.strip_generics(tt["callee"]["path"])
                if p.endswith("String::push") and tt["args"][1]["k"] == "const" and "bits" in tt["args"][1]:
                    return ("push", int(tt["args"][1]["bits"]))
                if p.endswith("from_str_radix"):
                    radix = tt["args"][1]
                    return ("radix", p, int(radix["bits"]) if radix["k"] == "const" and "bits" in radix else None)
                if "trim_start" in p or "trim_ascii_start" in p:
                    return ("trim", p)
                if p.endswith("Error::new") or "make_err" in p or p.endswith("{closure#0}") and False:
                    return ("error", p)
            st.extend(b.succ(x))
        return None
    got = {}
    targets = {int(v): tb for v, tb in t["targets"]}
    alltargets = set(targets.values()) | {t["otherwise"]}
    for v, tb in targets.items():
        got[v] = first_push(tb, alltargets - {tb})
    for ch, byte in SIMPLE.items():
        g = got.get(ch)
        if g != ("push", byte):
            ctx.violation("TAB-ESCAPE", "simple|%s" % chr(ch), "escape `\\%s` produces %s, Rust defines it as byte %#04x" % (chr(ch), g, byte), b.file())
        ctx.instance("TAB-ESCAPE", "simple|%s" % chr(ch), sample={"escape": "\\" + chr(ch), "byte": byte})
    for ch, what in ((ord("x"), "two hex digits"), (ord("u"), "hex digits in braces")):
        g = got.get(ch)
        if not (g and g[0] == "radix" and g[2] == 16):
            ctx.violation("TAB-ESCAPE", "radix|%s" % chr(ch), "escape `\\%s` is decoded by %s, expected from_str_radix(.., 16)" % (chr(ch), g), b.file())
        ctx.instance("TAB-ESCAPE", "radix|%s" % chr(ch))
    extra = set(got) - set(SIMPLE) - {ord("x"), ord("u"), 0x0A, 0x0D}
    if extra:
        ctx.violation("TAB-ESCAPE", "extra", "parse_string accepts escapes %s that Rust string literals do not have" % sorted(chr(x) for x in extra), b.file())
    # line continuation: must not strip Unicode whitespace
    for ch in (0x0A, 0x0D):
        g = got.get(ch)
        if g is None:
            ctx.violation("LEX-CONT", "missing|%#x" % ch, "a backslash followed by byte %#04x (line continuation) is not handled" % ch, b.file())
        elif g[0] == "trim" and g[1].endswith("str::<impl str>::trim_start"):
            ctx.violation("LEX-CONT", "unicode-trim", "the line-continuation arm calls str::trim_start, which also removes Unicode white space "
                          "(U+00A0, U+2003, ...); rustc only skips ' ', '\\t', '\\n', '\\r' after a continuation", b.file())
        ctx.instance("LEX-CONT", "%#x" % ch, sample={"arm": str(g)})


# ------------------------------------------------------------------------------
FORM_HEAD = '''
#![allow(unused)]
#[inline(never)] pub fn e1() -> u8 { loop {} }
#[inline(never)] pub fn e2() -> u8 { loop {} }
#[inline(never)] pub fn e0() -> u8 { loop {} }
pub fn trim_s(p: &mut konst::Parser<'_>) { konst::parser_method!{*p, trim_start_matches; "ab" | "c" | ""} }
pub fn trim_e(p: &mut konst::Parser<'_>) { konst::parser_method!{*p, trim_end_matches; "ab" | "c" | ""} }
'''
# every way of writing the branches: `=> expr,`  /  `=> { block }` without a comma  /  a block in the middle  /  blocks with commas
BRANCH_STYLES = {
    "": "%(a)s => e1(), %(b)s => e2(), _ => e0()",
    "_blk": "%(a)s => { e1() } %(b)s => { e2() } _ => { e0() }",
    "_mid": "%(a)s => e1(), %(b)s => { e2() } _ => e0()",
    "_blkc": "%(a)s => { e1() }, %(b)s => e2(), _ => { e0() },",
}
BRANCH_FORMS = [("strip_pre", "strip_prefix", '"ab"', '"a" | "cd"'), ("strip_suf", "strip_suffix", '"ab"', '"a" | "cd"'),
                ("find", "find_skip", '"ab"', '"c"'), ("rfind", "rfind_skip", '"ab"', '"c"')]
FORM_SRC = FORM_HEAD + "".join(
    "pub fn %s%s(p: &mut konst::Parser<'_>) -> u8 { konst::parser_method!{*p, %s; %s} }\n" % (fn, sfx, meth, style % {"a": a, "b": b_})
    for fn, meth, a, b_ in BRANCH_FORMS for sfx, style in BRANCH_STYLES.items())


def forms(ctx):
    f, diag, rc = facts.witness_facts("w18f", FORM_SRC, "FULL", ctx.th, hir=True)
    if f is None:
        ctx.violation("TAB-FORM", "witness", "the form witness does not compile:\n%s" % diag[-2000:])
        return
    prog, _ = witness_program(ctx, "w18f", FORM_SRC)
    REM = "konst::parsing::non_parsing_methods::<impl konst::Parser<'a>>::remainder"
    pats = f.get("hir_pats", [])
    # arm order = listed order
    styled = lambda name: [name + sfx for sfx in BRANCH_STYLES]
    order_rows = [(f_, "before", [b"ab", b"a", b"cd"]) for f_ in styled("strip_pre")] + [(f_, "after", [b"ab", b"a", b"cd"]) for f_ in styled("strip_suf")] \
        + [(f_, "before", [b"ab", b"c"]) for f_ in styled("find")] + [(f_, "after", [b"ab", b"c"]) for f_ in styled("rfind")] \
        + [("trim_s", "before", [b"ab", b"c", b""]), ("trim_e", "after", [b"ab", b"c", b""])]
    for fn, side, lits in order_rows:
        ps = [bytes(p[side]) for p in pats if p["owner"].endswith("::" + fn) and p["rest"] and (p[side] or not p["before" if side == "after" else "after"])]
        ps = [x for x in ps]
        got = [x for x in ps if x in lits or x == b""]
        # find forms also contain the one-byte-drop pattern `[_, rem @ ..]` which has no literal bytes: not recorded
        if [x for x in got if x in lits][:len(lits)] != lits:
            ctx.violation("TAB-FORM", fn + "|order", "%s: literal patterns appear in order %s, expected the listed order %s" % (fn, got, lits))
        ctx.instance("TAB-FORM", fn + "|order", sample={"form": fn, "patterns": [x.decode() for x in got]})
    # the parser is advanced by exactly the matched length, from the right end
    setter_rows = [(f_, "skip", "front") for f_ in styled("strip_pre") + styled("find")] + [(f_, "skip_back", "back") for f_ in styled("strip_suf") + styled("rfind")] \
        + [("trim_s", "skip", "front"), ("trim_e", "skip_back", "back")]
    for fn, meth, end in setter_rows:
        b = prog.get("w18f::" + fn)
        if b is None:
            ctx.violation("TAB-FORM", fn, "witness function missing")
            continue
        calls = [(bb, t) for bb, t in b.calls() if t.get("callee")]
        setters = [t for _, t in calls if t["callee"]["path"].endswith("::" + meth)]
        wrong = [t for _, t in calls if t["callee"]["path"].endswith("::skip" if meth == "skip_back" else "::skip_back")]
        if not setters or wrong:
            ctx.violation("TAB-FORM", fn + "|setter", "%s must advance the parser with Parser::%s only (found %d %s calls, %d of the other kind)" % (
                fn, meth, len(setters), meth, len(wrong)))
        ctx.instance("TAB-FORM", fn + "|setter", sample={"form": fn, "setter": meth, "calls": len(setters)})
    # per-path check on the loop-free strip forms: skip amount = len(remainder) - len(rem), rem = slice minus the literal
    for fn, meth, n_first in [(f_, "skip", 2) for f_ in styled("strip_pre")] + [(f_, "skip_back", 2) for f_ in styled("strip_suf")]:
        b = prog.get("w18f::" + fn)
        if b is None:
            continue
        paths = sym.paths_of(b, prog)
        seen = set()
        for p in paths:
            evs = [e for e in p.events if e[0] == "call"]
            names = [e[1].split("::")[-1] for e in evs]
            which = [n for n in names if n in ("e0", "e1", "e2")]
            sk = [e[2] for e in evs if e[1].endswith("::" + meth)]
            if which == ["e0"]:
                if sk:
                    ctx.violation("TAB-FORM", fn + "|default", "%s: the default branch must leave the parser unchanged" % fn)
                seen.add("e0")
                continue
            if len(which) != 1 or len(sk) != 1:
                ctx.violation("TAB-FORM", fn + "|branch", "%s: a matching branch must advance the parser once and run its expression once (%s)" % (fn, names))
                continue
            seen.add(which[0])
            amount = table.strip_gargs(sk[0])[4]
            ok = amount[0] == "bin" and amount[1] == "Sub" and amount[2][0] == "len" and amount[3][0] == "len"
            if ok:
                rem = amount[3][1]
                ok = rem[0] == "ref" and rem[1][0] == "subslice" and ((rem[1][2], rem[1][3]) in ((1, 0), (2, 0)) if meth == "skip" else (rem[1][2], rem[1][3]) in ((0, 1), (0, 2)))
            if not ok:
                ctx.violation("TAB-FORM", fn + "|amount", "%s: parser is advanced by %s, expected len(remainder) - len(rest after the literal)" % (fn, show(amount)))
        if seen != {"e0", "e1", "e2"}:
            ctx.violation("TAB-FORM", fn + "|cover", "%s: branches reached %s" % (fn, sorted(seen)))
        ctx.instance("TAB-FORM", fn + "|paths", sample={"form": fn, "paths": len(paths)})
    # find forms: the no-match arm drops exactly one byte from the scanning end; trim forms: empty match breaks
    for fn, end in [(f_, "front") for f_ in styled("find")] + [(f_, "back") for f_ in styled("rfind")] + [("trim_s", "front"), ("trim_e", "back")]:
        b = prog.get("w18f::" + fn)
        if b is None or not b.loops():
            ctx.violation("TAB-FORM", fn + "|loop", "%s: expected a scanning loop" % fn)
            continue
        h = list(b.loops())[0]
        paths = sym.loop_relation(b, h, prog)
        backs = [p for p in paths if p.kind == "cut" and p.value == h]
        cur = None
        ok_drop = False
        for p in backs:
            for l, v in p.env.items():
                if v[0] == "ref" and v[1][0] == "subslice" and v[1][1] == ("deref", ("L", l)):
                    cur = l
                    cut = (v[1][2], v[1][3])
                    if fn.startswith(("find", "rfind")):
                        if cut == ((1, 0) if end == "front" else (0, 1)):
                            ok_drop = True
                        else:
                            ctx.violation("TAB-FORM", fn + "|drop", "%s: on no match the scan drops %s bytes, expected one byte from the %s" % (fn, cut, end))
        if fn.startswith(("find", "rfind")) and not ok_drop:
            ctx.violation("TAB-FORM", fn + "|drop", "%s: no loop path drops exactly one byte from the %s" % (fn, end))
        if fn.startswith("trim"):
            # like Parser::trim_*_matches, the form always writes the parser (a zero-byte skip still sets the parse direction):
            # every way out of the expansion has gone through the setter
            meth = "skip" if end == "front" else "skip_back"
            try:
                outs = [p for p in sym.through_loops(b, prog) if p.kind == "return"]
            except sym.TooManyPaths:
                outs = None
            if outs is None or not outs:
                ctx.violation("TAB-FORM", fn + "|always-set", "%s: cannot enumerate the ways out of the trimming loop" % fn)
            elif any(not any(e[0] == "call" and e[1].endswith("::" + meth) for e in p.events) for p in outs):
                ctx.violation("TAB-FORM", fn + "|always-set", "%s: some way out of the expansion never calls Parser::%s - a trim that removes nothing would "
                              "leave the parse direction as it was, unlike Parser::trim_%s_matches" % (fn, meth, "start" if end == "front" else "end"))
            # a back edge requires len(rem) != len(bytes); the empty literal must exit
            bad = [p for p in backs if not any(c[0] in ("ne", "lt") and "len" in repr(c) for c in p.conds)]
            if bad:
                ctx.violation("TAB-FORM", fn + "|empty", "%s: the trimming loop can continue without making progress (empty match must break)" % fn)
        ctx.instance("TAB-FORM", fn + "|loop", sample={"form": fn, "back_paths": len(backs)})
