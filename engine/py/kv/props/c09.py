"""C09 — range iteration yields exactly the values std ranges yield.

TAB-STEP  increment/decrement, one arm per Step type (12 integer arms + char):
          finished_inclusive = start>end, finished_exclusive = start>=end, next = start+1 / end-1 with
          the overflow flag of that very addition; char arm: D7FF<->E000 jump, 10FFFF / 0 overflow.
TAB-ITER  one-step tables of RangeIter / RangeInclusiveIter / RangeFromIter next and next_back with the
          StepRet opaque: what is yielded, how (start,end) change, the (MAX,MIN) exhausted encoding.
ISO       the *Rev types' next/next_back are the forward types' next_back/next; rev()/copy() keep fields.
TAB-CONST MIN_VAL / MAX_VAL of every Step type.   DLG-INTO  const_into_iter field mapping.
"""
from .. import sym, table
from ..sym import show, INT_TYS, UNSIGNED
from ..table import Row, holds, nholds

K = "konst_kernel::step_kk::"
R = "konst_kernel::into_iter::range_into_iter::"
P1, P2 = ("p", 1), ("p", 2)


def witness_types(prog):
    adt = prog.adts.get(K + "StepWitness")
    if adt is None:
        return None
    return [v["name"].lower() for v in adt["variants"]]


def variant_of(path):
    for c in path.conds:
        if c[0] == "is" and c[1][0] == "const" and "WITNESS" in c[1][1]:
            return c[2]
    return None


def is_one(t):
    return t[0] == "int" and t[1] == 1


def run(ctx):
    ctx.explanation = ("per-type step tables of increment/decrement (incl. the char surrogate gap), one-step tables of the five range "
                       "iterators with the step result opaque, forward/reverse isomorphism, MIN/MAX constants, into_iter field mapping")
    for cfg in (["FULL"] if ctx.tier == "quick" else ["FULL", "DEBUG"]):
        prog = ctx.program(cfg)
        steps(ctx, prog)
        iters(ctx, prog)
        consts(ctx, prog)
        into_iter(ctx, prog)
    for_range(ctx)
    ctx.floor("TAB-STEP", 26)
    ctx.floor("TAB-ITER", 5)
    ctx.floor("ISO", 6)
    ctx.floor("TAB-CONST", 26)
    ctx.floor("DLG-INTO", 6)


def steps(ctx, prog):
    types = witness_types(prog)
    if types is None or sorted(types) != sorted(list(INT_TYS) + ["char"]):
        ctx.violation("TAB-STEP", prog.config + "|witness", "StepWitness variants are %s, expected the 12 integer types and char" % types)
        return
    for fn in ("increment", "decrement"):
        b = ctx.anchor(prog, K + fn)
        if b is None:
            continue
        paths = sym.paths_of(b, prog)
        for bb, op in wrapped_compared(b)[:1]:
            ctx.violation("TAB-STEP", "%s|%s|wrapped" % (prog.config, fn), "%s compares (%s) the result of an overflowing/wrapping step: at the "
                          "type's extreme value that result has wrapped around, so the test is wrong exactly there" % (fn, op), b.file())
        by_var = {}
        for p in paths:
            by_var.setdefault(variant_of(p), []).append(p)
        cur = P1 if fn == "increment" else P2      # the end that moves
        for vi, ty in enumerate(types):
            key = "%s|%s|%s" % (prog.config, fn, ty)
            ps = by_var.get(vi, [])
            if ty != "char":
                ok = len(ps) == 1 and ps[0].kind == "return" and ps[0].value[0] == "agg" and "StepRet" in ps[0].value[1]
                if not ok and ps and all(p.kind == "return" and p.value[0] == "agg" and "StepRet" in p.value[1] for p in ps):
                    # the flags are computed with branches (e.g. `caught_up && start != end`): decide them as a table over start vs end
                    int_arm_table(ctx, prog, b, fn, ty, ps, cur, key)
                    continue
                if not ok:
                    ctx.violation("TAB-STEP", key, "%s<%s>: expected one straight-line StepRet" % (fn, ty), b.file())
                    continue
                fi, fe, ov, nx = ps[0].value[2:6]
                msg = check_flags(fi, fe)
                op = "Add" if fn == "increment" else "Sub"
                if not (nx[0] == "bin" and nx[1] == op and nx[2] == cur and is_one(nx[3])):
                    msg = msg or "next is %s, expected %s %s 1" % (show(nx), show(cur), "+" if op == "Add" else "-")
                ovf_ok = ov == ("ovf", op, cur, nx[3]) or (op == "Sub" and ty in UNSIGNED and ov == ("bin", "Lt", cur, nx[3]))
                if not ovf_ok:
                    msg = msg or "overflowed is %s, expected the overflow flag of that same %s" % (show(ov), "addition" if op == "Add" else "subtraction")
                if msg:
                    ctx.violation("TAB-STEP", key, "%s<%s>: %s" % (fn, ty, msg), b.file())
                ctx.instance("TAB-STEP", key, sample={"fn": fn, "type": ty, "next": show(nx)})
            else:
                char_arm(ctx, prog, b, fn, ps, cur, key)


def wrapped_compared(body):
    """[(bb, op)]: comparisons whose operand is the *value* of an overflowing_/wrapping_ add or sub.  At the extreme value that
    result has wrapped around, so a comparison on it does not mean what it means for every other value; the path enumerator
    treats `x + 1` as the mathematical successor (its no-overflow regime) and would not notice."""
    from ..typestate import operand_local
    tup, val = set(), set()
    for bb, t in body.calls():
        c = t.get("callee")
        if c and c["path"].rsplit("::", 1)[-1] in ("overflowing_add", "overflowing_sub", "overflowing_mul") and not t["dest"]["p"]:
            tup.add(t["dest"]["l"])
        if c and c["path"].rsplit("::", 1)[-1] in ("wrapping_add", "wrapping_sub", "wrapping_mul") and not t["dest"]["p"]:
            val.add(t["dest"]["l"])
    changed = True
    while changed:
        changed = False
        for bb, i, st in body.assigns():
            rv, pl = st["rv"], st["place"]
            if pl["p"]:
                continue
            if rv["k"] == "use" and rv["op"]["k"] in ("copy", "move"):
                src = rv["op"]["place"]
                if src["l"] in tup and not src["p"] and pl["l"] not in tup:
                    tup.add(pl["l"]); changed = True
                if (src["l"] in val and not src["p"]) or (src["l"] in tup and len(src["p"]) == 1 and src["p"][0]["k"] == "field" and src["p"][0]["i"] == 0):
                    if pl["l"] not in val:
                        val.add(pl["l"]); changed = True
    out = []
    for bb, i, st in body.assigns():
        rv = st["rv"]
        if rv["k"] == "binop" and rv["op"] in ("Lt", "Le", "Gt", "Ge", "Eq", "Ne"):
            for o in (rv["a"], rv["b"]):
                l = operand_local(o)
                if l is not None and l in val:
                    out.append((bb, rv["op"]))
    return out


def int_arm_table(ctx, prog, b, fn, ty, ps, cur, key):
    from ..table import lt, eq
    op = "Add" if fn == "increment" else "Sub"

    def outcome(fi_want, fe_want):
        def f(path, case):
            fi, fe, ov, nx = path.value[2:6]
            gi, ge = case.truth(fi), case.truth(fe)
            if gi is None or ge is None:
                return "finished flags %s / %s are not decided by the order of start and end" % (show(fi), show(fe))
            if (gi, ge) != (fi_want, fe_want):
                return "finished_inclusive/finished_exclusive are %s/%s, expected %s/%s (start > end / start >= end)" % (gi, ge, fi_want, fe_want)
            if not (nx[0] == "bin" and nx[1] == op and nx[2] == cur and is_one(nx[3])):
                return "next is %s, expected %s %s 1" % (show(nx), show(cur), "+" if op == "Add" else "-")
            if not (ov == ("ovf", op, cur, nx[3]) or (op == "Sub" and ty in UNSIGNED and ov == ("bin", "Lt", cur, nx[3]))):
                return "overflowed is %s, expected the overflow flag of that same operation" % show(ov)
            return None
        return f
    for p in ps:
        p.conds = tuple(c for c in (table.strip_gargs(c) for c in p.conds) if variant_of_cond(c) is None)
    rows = [Row([lt(P1, P2)], outcome(False, False), name="start < end"),
            Row([eq(P1, P2)], outcome(False, True), name="start == end"),
            Row([lt(P2, P1)], outcome(True, True), name="start > end")]
    try:
        mism, n, dec = table.compare(ps, rows, nonneg=False)
    except table.Undecided as e:
        ctx.violation("TAB-STEP", key, "%s<%s>: undecided: %s" % (fn, ty, e), b.file())
        mism = []
    for m in mism[:2]:
        ctx.violation("TAB-STEP", key, "%s<%s>: %s" % (fn, ty, m), b.file())
    ctx.instance("TAB-STEP", key, sample={"fn": fn, "type": ty, "form": "branching flags"})


FOR_RANGE_SRC = '''
#![allow(unused)]
#[inline(never)] pub fn ea<T>(x: T) { loop {} }
''' + "".join("pub fn fr_%s(a: %s, b: %s) { konst::for_range!{i in a..b => ea(i); } }\n" % (t, t, t) for t in ("usize", "u8", "i8", "i64", "u128"))


def for_range(ctx):
    """`for_range!{i in a..b => body}` visits a, a+1, .. while the cursor is < b (nothing for a >= b), the body seeing the value
    the cursor had at the test: the loop relation of the expansion in a witness crate"""
    from .c19 import witness_program
    from ..table import lt, le
    prog, diag = witness_program(ctx, "w09", FOR_RANGE_SRC)
    if prog is None:
        ctx.violation("FOR-RANGE", "witness", "the for_range! witness does not compile:\n%s" % diag[-1500:])
        return
    for ty in ("usize", "u8", "i8", "i64", "u128"):
        key = "FULL|for_range|%s" % ty
        b = prog.get("w09::fr_" + ty)
        if b is None:
            ctx.violation("FOR-RANGE", key, "witness missing")
            continue
        msg = None
        try:
            paths = sym.through_loops(b, prog, keep_back=True)
        except sym.TooManyPaths:
            paths = []
            msg = "too many paths"
        backs = [p for p in paths if p.kind == "back"]
        exits = [p for p in paths if p.kind == "return" and any(e[0] == "loop" for e in p.events)]
        if not backs or not exits:
            msg = msg or "no counting loop found"
        cur = None
        for p in backs:
            for l, v in p.env.items():
                if v[0] == "bin" and v[1] == "Add" and v[2] == ("L", l) and is_one(v[3]):
                    cur = l
        if cur is None:
            msg = msg or "the cursor is not advanced by exactly one per iteration"
        else:
            C = ("L", cur)
            for p in backs:
                if lt(C, P2) not in p.conds:
                    msg = msg or "the body runs without the test `cursor < end` (conditions: %s)" % [sym.show_atom(c) for c in p.conds]
                evs = [table.strip_gargs(e[2]) for e in p.events if e[0] == "call" and e[1].endswith("::ea")]
                if len(evs) != 1 or evs[0][3] != C:
                    msg = msg or "the body must run once per iteration with the value the cursor had at the test (%s)" % [show(e) for e in evs]
            for p in exits:
                if le(P2, C) not in p.conds:
                    msg = msg or "the loop is left on %s, expected `cursor >= end`" % [sym.show_atom(c) for c in p.conds]
                for e in p.events:
                    if e[0] == "loop" and dict(e[2]).get(cur) != P1:
                        msg = msg or "the cursor starts at %s, expected the range's start" % show(dict(e[2]).get(cur, ("?",)))
        if msg:
            ctx.violation("FOR-RANGE", key, "for_range! over %s: %s" % (ty, msg))
        ctx.instance("FOR-RANGE", key, sample={"type": ty})
    ctx.floor("FOR-RANGE", 5)


def check_flags(fi, fe, start_is_max=False):
    a = sym.atom_of(fi, True)
    if a != ("lt", P2, P1):
        return "finished_inclusive is %s, expected start > end" % show(fi)
    if start_is_max and fe == ("bool", True):
        return None           # start is the largest value of the type, so `start >= end` holds for every end
    c = sym.atom_of(fe, True)
    if c != ("le", P2, P1):
        return "finished_exclusive is %s, expected start >= end" % show(fe)
    return None


def char_arm(ctx, prog, b, fn, ps, cur, key):
    """decision table of the char arm over the value classes of `cur as u32` (special scalars vs the rest) x every other
    condition the arm branches on: in every case the unique live path must be the std step"""
    x = ("cast", "int2int", "u32", cur)
    F = "konst_kernel::chr::from_u32"

    def about_from_u32(c):
        return c[0] in ("is", "isnot") and isinstance(c[1], tuple) and c[1][0] == "call" and c[1][1] == F

    rets = []
    for p in ps:
        if p.kind != "return":
            continue       # opt_unwrap!(None) panics: unreachable for the scalar values produced here (C07 decides from_u32)
        p.conds = tuple(table.strip_gargs(c) for c in p.conds if not about_from_u32(c) and variant_of_cond(c) is None)
        rets.append(p)
    if fn == "increment":
        special = {0xD7FF: (("int", 0xE000, "u32"), False), 0x10FFFF: (None, True)}
        op = "Add"
    else:
        special = {0xE000: (("int", 0xD7FF, "u32"), False), 0: (None, True)}
        op = "Sub"

    def outcome(arg_want, ov_want):
        def f(path, case):
            fi, fe, ov, nx = path.value[2:6]
            try:
                at_max = fn == "increment" and case.val(x) == case.val(("int", 0x10FFFF, "u32"))
            except KeyError:
                at_max = False
            m = check_flags(fi, fe, at_max)
            if m:
                return m
            arg = nx[1][3] if nx[0] == "vfield" and nx[1][0] == "call" and nx[1][1] == F else None
            if arg is None:
                return "next char is %s, expected chr::from_u32(..) unwrapped" % show(nx)
            if ov != ("bool", ov_want):
                return "overflowed is %s, expected %s" % (show(ov), ov_want)
            if arg_want == "step":
                if not (arg[0] == "bin" and arg[1] == op and arg[2] == x and is_one(arg[3])):
                    return "next scalar is %s, expected %s %s 1" % (show(arg), show(x), "+" if op == "Add" else "-")
            elif arg_want is not None and (arg[0], arg[1]) != (arg_want[0], arg_want[1]):
                return "next scalar is %s, expected %s" % (show(arg), show(arg_want))
            return None
        return f

    rows = [Row([("in", x, (v,))], outcome(a, o), name="cur == %#x" % v) for v, (a, o) in sorted(special.items())]
    rows.append(Row([("notin", x, tuple(sorted(special)))], outcome("step", False), name="any other scalar"))
    try:
        mism, n, dec = table.compare(rets, rows, extra_consts=sorted(special))
    except table.Undecided as e:
        ctx.violation("TAB-STEP", key, "%s<char>: undecided: %s" % (fn, e), b.file())
        mism, n, dec = [], 0, 0
    for m in mism[:2]:
        ctx.violation("TAB-STEP", key, "%s<char>: %s" % (fn, m), b.file())
    ctx.instance("TAB-STEP", key, sample={"fn": fn, "type": "char", "cases": n, "decided": dec})


def variant_of_cond(c):
    if c[0] == "is" and c[1][0] == "const" and "WITNESS" in c[1][1]:
        return c[2]
    return None


# ------------------------------------------------------------------------------
def norm_names(t):
    if isinstance(t, tuple):
        return tuple(norm_names(x) for x in t)
    if isinstance(t, str):
        return t.replace("IterRev", "Iter")
    return t


def table_of(b, prog):
    return sorted((repr(norm_names(tuple(sorted(p.conds, key=repr)))), p.kind, repr(norm_names(p.value))) for p in sym.paths_of(b, prog))


def iters(ctx, prog):
    S, E = ("field", P1, 0), ("field", P1, 1)
    inc = ("call", K + "increment", None, S, E)
    dec = ("call", K + "decrement", None, S, E)
    MAXV, MINV = ("const", K + "Step::MAX_VAL", None), ("const", K + "Step::MIN_VAL", None)

    def fld(r, i):
        return ("field", r, i)

    def strip(t):
        t = table.strip_gargs(t)
        return _strip_const(t)

    def some(item, start, end):
        def f(path, case):
            v = strip(path.value)
            if not (v[0] == "agg" and v[1].endswith("Option::Some#1") and v[2][0] == "agg" and v[2][1] == "tuple"):
                return "expected Some((item, iter)), got %s" % show(v)
            it, st = v[2][2], v[2][3]
            if it != item:
                return "yields %s, expected %s" % (show(it), show(item))
            ns, ne_ = sym.mk_field(st, 0), sym.mk_field(st, 1)
            if ns != start:
                return "new start is %s, expected %s" % (show(ns), show(start))
            if end is not None and ne_ != end:
                return "new end is %s, expected %s" % (show(ne_), show(end))
            return None
        return f

    def none(path, case):
        return None if path.value == table.NONE else "expected None, got %s" % show(path.value)
    specs = {
        ("RangeIter", "next"): [Row([holds(fld(inc, 1))], none, name="start>=end"),
                                Row([nholds(fld(inc, 1))], some(S, fld(inc, 3), E), name="start<end")],
        ("RangeIter", "next_back"): [Row([holds(fld(dec, 1))], none, name="start>=end"),
                                     Row([nholds(fld(dec, 1))], some(fld(dec, 3), S, fld(dec, 3)), name="start<end")],
        ("RangeInclusiveIter", "next"): [Row([holds(fld(inc, 0))], none, name="start>end"),
                                         Row([nholds(fld(inc, 0)), nholds(fld(inc, 2))], some(S, fld(inc, 3), E), name="start<=end, start<MAX"),
                                         Row([nholds(fld(inc, 0)), holds(fld(inc, 2))], some(S, MAXV, MINV), name="start<=end, start==MAX: exhausted")],
        ("RangeInclusiveIter", "next_back"): [Row([holds(fld(dec, 0))], none, name="start>end"),
                                              Row([nholds(fld(dec, 0)), nholds(fld(dec, 2))], some(E, S, fld(dec, 3)), name="start<=end, end>MIN"),
                                              Row([nholds(fld(dec, 0)), holds(fld(dec, 2))], some(E, MAXV, MINV), name="start<=end, end==MIN: exhausted")],
    }
    for (ty, m), rows in specs.items():
        b = ctx.anchor(prog, R + ty + "::" + m)
        if b is None:
            continue
        paths = sym.paths_of(b, prog)
        for p in paths:
            p.conds = tuple(_strip_const(table.strip_gargs(c)) for c in p.conds)
        try:
            mism, n, dec_ = table.compare(paths, rows)
        except table.Undecided as e:
            ctx.violation("TAB-ITER", "%s|%s::%s" % (prog.config, ty, m), "undecided: %s" % e, b.file())
            continue
        ctx.instance("TAB-ITER", "%s|%s::%s" % (prog.config, ty, m), nontrivial=dec_ >= 2, sample={"iter": ty, "method": m, "cases": n})
        for mm in mism[:2]:
            ctx.violation("TAB-ITER", "%s|%s::%s|%s" % (prog.config, ty, m, mm.row.name), "%s::%s: %s" % (ty, m, mm), b.file())
    # RangeFrom
    b = ctx.anchor(prog, R + "RangeFromIter::next")
    if b is not None:
        ps = sym.paths_of(b, prog)
        incf = ("call", K + "increment", None, S, MAXV)
        want = table.Some(table.Tuple(S, ("upd", P1, (None, 0), fld(incf, 3))))
        if len(ps) != 1 or strip(ps[0].value) != want:
            ctx.violation("TAB-ITER", "%s|RangeFromIter::next" % prog.config, "RangeFromIter::next is %s, expected Some((start, {start: start+1}))" % (
                show(ps[0].value) if ps else "?"), b.file())
        ctx.instance("TAB-ITER", "%s|RangeFromIter::next" % prog.config)
    from .. import accessors
    accessors.rebuild(ctx, "ISO", prog, R + "RangeFromIter::copy", nfields=1)
    # forward / reverse isomorphism
    for ty in ("RangeIter", "RangeInclusiveIter"):
        for m, twin in (("next", "next_back"), ("next_back", "next")):
            a, c = prog.get(R + ty + "Rev::" + m), prog.get(R + ty + "::" + twin)
            key = "%s|%sRev::%s" % (prog.config, ty, m)
            if a is None or c is None:
                ctx.violation("ISO", key, "missing %sRev::%s or %s::%s" % (ty, m, ty, twin))
                continue
            if table_of(a, prog) != table_of(c, prog):
                ctx.violation("ISO", key, "%sRev::%s is not %s::%s (the reversed iterator must step from the other end)" % (ty, m, ty, twin), a.file())
            ctx.instance("ISO", key)
        for conv in ("rev", "copy"):
            for t2 in (ty, ty + "Rev"):
                b = prog.get(R + t2 + "::" + conv)
                if b is None:
                    continue
                ps = sym.paths_of(b, prog)
                v = ps[0].value if len(ps) == 1 else None
                src = P1 if conv == "rev" else ("deref", P1)
                ok = v is not None and v[0] == "agg" and list(v[2:]) == [sym.mk_field(src, 0), sym.mk_field(src, 1)]
                if conv == "rev" and ok:
                    ok = ("Rev" in v[1]) != ("Rev" in t2)
                if not ok:
                    ctx.violation("ISO", "%s|%s::%s" % (prog.config, t2, conv), "%s::%s does not keep (start, end): %s" % (t2, conv, show(v) if v else "?"), b.file())
                ctx.instance("ISO", "%s|%s::%s" % (prog.config, t2, conv))


def _strip_const(t):
    if not isinstance(t, tuple) or not t:
        return t
    if t[0] == "const" and len(t) == 3:
        return ("const", t[1], None)
    return tuple(_strip_const(x) if isinstance(x, tuple) else x for x in t)


def consts(ctx, prog):
    for ty in list(INT_TYS) + ["char"]:
        for nm in ("MIN_VAL", "MAX_VAL"):
            b = prog.get("konst_kernel::<%s as step_kk::Step>::%s" % (ty, nm))
            key = "%s|%s|%s" % (prog.config, ty, nm)
            if b is None:
                ctx.violation("TAB-CONST", key, "<%s as Step>::%s not found" % (ty, nm))
                continue
            ps = sym.paths_of(b, prog)
            v = ps[0].value if len(ps) == 1 else None
            if ty == "char":
                want = 0 if nm == "MIN_VAL" else 0x10FFFF
            elif ty in UNSIGNED:
                want = 0 if nm == "MIN_VAL" else (1 << INT_TYS[ty]) - 1
            else:
                want = -(1 << (INT_TYS[ty] - 1)) if nm == "MIN_VAL" else (1 << (INT_TYS[ty] - 1)) - 1
            if v is None or v[0] not in ("int", "char") or v[1] != want:
                ctx.violation("TAB-CONST", key, "<%s as Step>::%s is %s, expected %d" % (ty, nm, show(v) if v else "?", want), b.file())
            ctx.instance("TAB-CONST", key)


def into_iter(ctx, prog):
    n = 0
    for b in prog.bodies:
        if b.promoted is not None or not b.key.endswith("::const_into_iter") or "range_into_iter" not in b.key:
            continue
        st = b.rec.get("impl_self") or ""
        ps = sym.paths_of(b, prog, inline={K + "range_inclusive_ref_into_inner"})
        key = "%s|%s" % (prog.config, st)
        v = table.strip_gargs(ps[0].value) if len(ps) == 1 and ps[0].kind == "return" else None
        rng = ("call", "core::mem::ManuallyDrop::into_inner", None, ("field", P1, 0))
        ok = False
        if v is not None and v[0] == "agg":
            flds = list(v[2:])
            by_ref = "<&" in st
            src = ("deref", rng) if by_ref else rng
            if "RangeInclusive" in st:
                if by_ref:
                    want = [("deref", ("call", "core::ops::RangeInclusive::start", None, rng)), ("deref", ("call", "core::ops::RangeInclusive::end", None, rng))]
                    ok = flds == want and "RangeInclusiveIter" in v[1]
                else:
                    c = ("call", K + "range_inclusive_into_inner", None, rng)
                    ok = flds == [("field", c, 0), ("field", c, 1)] and "RangeInclusiveIter" in v[1]
            elif "RangeFrom" in st:
                ok = flds == [("field", src, 0)] and "RangeFromIter" in v[1]
            else:
                ok = flds == [("field", src, 0), ("field", src, 1)] and "RangeIter" in v[1]
        if not ok:
            ctx.violation("DLG-INTO", key, "const_into_iter for %s builds %s, expected the iterator over (start, end) of the range" % (st, show(v) if v else "?"), b.file())
        ctx.instance("DLG-INTO", key)
        n += 1
    b = prog.get(K + "range_inclusive_into_inner")
    if b is not None:
        for p in sym.paths_of(b, prog):
            if p.kind == "return":
                v = table.strip_gargs(p.value)
                s = repr(v)
                if not (v[0] == "agg" and v[1] == "tuple" and "RangeInclusive::start" in repr(v[2]) and "RangeInclusive::end" in repr(v[3])):
                    ctx.violation("DLG-INTO", prog.config + "|range_inclusive_into_inner", "returns %s, expected (*start(), *end())" % show(v), b.file())
                    break
