"""C01 — safe API never triggers UB; results stay inside the input and are valid UTF-8.

INVENTORY  every operation that needs `unsafe` (call of an unsafe fn, raw-pointer deref, union field read,
           transmute), read from MIR/type information in konst_kernel and konst (configs FULL, DEBUG[, MIN]) and in
           the witness expansions of the macros whose transcribers contain `unsafe`, must match one entry of the
           obligation table below (function, operation kinds, schema).  An unlisted operation fails the check.
RAW        from_raw_parts / offset in the slice getters: on every path (offset k, count n) of the produced view
           satisfies k = 0 & n <= len, or n = len - k & k <= len, by the path's own branch conditions.
STR        from-bytes-to-str conversions: the bytes are a sub-range of the input str's bytes (provenance) and each
           function carries its justification kind (boundary test on the very index that is cut / whole-pattern
           cutter on normalised UTF-8 patterns / ASCII-only trimming / encoder output), re-checked here.
The remaining schemas (INIT, READ, UNION/CAST, CHR, CSTR, chunk casts, container ranges) are discharged by
running the corresponding rule sets of C02, C05, C07, C11, C15, C20 inside this check.
SUBRANGE   every safe pub fn returning a borrowed slice/str returns a sub-range of a parameter or the static
           empty slice (D1 provenance), with the undecided residue frozen by name.
"""
import re

from .. import macrolint, facts, mir, prov, sym, table, unsafeops, views
from ..sym import show

K = "konst::"
KK = "konst_kernel::"
M = K + "slice::slice_const_methods::"
S = K + "string::"

# (function key, {allowed operation kinds: detail substrings}, schema, discharged by)
TABLE = [
    # ---- RAW: slice getters
    (KK + "slice::slice_from", {"call": ["offset", "from_raw_parts"]}, "RAW-S2", "raw"),
    (KK + "slice::slice_up_to", {"call": ["from_raw_parts"]}, "RAW-S1", "raw"),
    (M + "get_from", {"call": ["offset", "from_raw_parts"]}, "RAW-S2", "raw"),
    (M + "slice_from_mut", {"call": ["offset", "from_raw_parts_mut"]}, "RAW-S2", "raw"),
    (M + "get_from_mut", {"call": ["offset", "from_raw_parts_mut"]}, "RAW-S2", "raw"),
    (M + "get_up_to", {"call": ["from_raw_parts"]}, "RAW-S1", "raw"),
    (M + "slice_up_to_mut", {"call": ["from_raw_parts_mut"]}, "RAW-S1", "raw"),
    (M + "get_up_to_mut", {"call": ["from_raw_parts_mut"]}, "RAW-S1", "raw"),
    (M + "split_at_mut", {"call": ["offset", "from_raw_parts_mut"]}, "RAW-S6", "raw"),
    (K + "slice::slice_as_chunks::as_chunks", {"call": ["from_raw_parts"]}, "RAW-S3", "chunks"),
    (K + "slice::slice_as_chunks::as_rchunks", {"call": ["from_raw_parts"]}, "RAW-S3", "chunks"),
    # ---- containers (struct invariants)
    (K + "array::array_builder::ArrayBuilder::as_slice", {"call": ["from_raw_parts"]}, "RAW-S4", "builder"),
    (K + "array::array_builder::ArrayBuilder::as_mut_slice", {"call": ["from_raw_parts_mut"]}, "RAW-S4", "builder"),
    (K + "array::array_builder::ArrayBuilder::build", {"call": ["read"]}, "READ", "builder"),
    (K + "<array::array_builder::ArrayBuilder<T, N> as core::ops::Drop>::drop", {"call": ["drop_in_place"]}, "READ", "consumer"),
    (K + "array::array_consumer::ArrayConsumer::as_slice", {"call": ["add", "from_raw_parts"]}, "RAW-S4", "consumer"),
    (K + "array::array_consumer::ArrayConsumer::as_mut_slice", {"call": ["add", "from_raw_parts_mut"]}, "RAW-S4", "consumer"),
    (K + "array::array_consumer::ArrayConsumer::next", {"call": ["assume_init_read"]}, "READ", "consumer"),
    (K + "array::array_consumer::ArrayConsumer::next_back", {"call": ["assume_init_read"]}, "READ", "consumer"),
    (K + "<array::array_consumer::ArrayConsumer<T, N> as core::ops::Drop>::drop", {"call": ["add", "drop_in_place"]}, "READ", "consumer"),
    (K + "array::array_consumer::array_into_md", {"union_field": ["Transmuter"]}, "UNION [T;N] -> [MaybeUninit<T>;N] (always valid)", "layout"),
    # ---- CStr
    (K + "ffi::cstr::from_bytes_until_nul_inner", {"call": ["from_bytes_with_nul_unchecked"]}, "CSTR", "cstr"),
    (K + "ffi::cstr::to_bytes_with_nul", {"call": ["add", "from_raw_parts"], "raw_deref": ["*const u8"]}, "RAW-S5 (walk to the terminator of a &CStr)", "cstr"),
    # ---- layout-only casts
    (K + "maybe_uninit::write", {"raw_deref": ["*mut T"]}, "CAST *mut MaybeUninit<T> -> *mut T after the store", "write"),
    (K + "manually_drop::as_inner", {"raw_deref": ["*const T"]}, "CAST repr(transparent) ManuallyDrop<T> -> T", "layout"),
    (K + "manually_drop::as_inner_mut", {"raw_deref": ["*mut T"]}, "CAST repr(transparent) ManuallyDrop<T> -> T", "layout"),
    (KK + "maybe_uninit::uninit_array", {"union_field": ["MakeMUArray"]}, "UNION () -> [MaybeUninit<T>;N] (uninit is valid for MaybeUninit)", "layout"),
    (KK + "chr::assert_char_repr_as_u32", {"transmute": ["char -> u32"]}, "CAST char -> u32 (every char is a valid u32)", "layout"),
    (K + "ptr::is_null", {"transmute": ["NonNull"]}, "NICHE *const T -> Option<NonNull<T>> (deprecated upstream; layout-sound at run time, a hard error - not UB - in CTFE for non-null-checkable pointers)", "layout"),
    (K + "ptr::nonnull::new", {"transmute": ["NonNull"]}, "NICHE *mut T -> Option<NonNull<T>> (same as is_null)", "layout"),
    (K + "ptr::nonnull::from_ref", {"call": ["new_unchecked"]}, "NONNULL argument is a reference", "nonnull"),
    (K + "ptr::nonnull::from_mut", {"call": ["new_unchecked"]}, "NONNULL argument is a reference", "nonnull"),
    # ---- unsafe fns: the obligation is the caller's (their in-crate callers are listed separately)
    (K + "maybe_uninit::assume_init_mut", {"raw_deref": ["*mut T"]}, "unsafe fn", "unsafe_fn"),
    (K + "manually_drop::take", {"call": ["read"]}, "unsafe fn", "unsafe_fn"),
    (K + "ptr::as_ref", {"transmute": ["Option<&"]}, "unsafe fn", "unsafe_fn"),
    (K + "ptr::as_mut", {"transmute": ["Option<&mut"]}, "unsafe fn", "unsafe_fn"),
    (K + "ptr::nonnull::as_ref", {"raw_deref": ["*const T"]}, "unsafe fn", "unsafe_fn"),
    (K + "ptr::nonnull::as_mut", {"raw_deref": ["*mut T"]}, "unsafe fn", "unsafe_fn"),
    (KK + "chr::from_u32_unchecked", {"transmute": ["u32 -> char"]}, "unsafe fn", "unsafe_fn"),
    (KK + "maybe_uninit::array_assume_init", {"union_field": ["Transmuter"]}, "unsafe fn (INIT obligations are at the macro call sites)", "unsafe_fn"),
    (KK + "string::__from_u8_subslice_of_str", {"call": ["from_utf8_unchecked", "__find_prev_char_boundary"]}, "unsafe fn", "unsafe_fn"),
    # ---- chars
    (KK + "chr::from_u32", {"call": ["from_u32_unchecked"]}, "CHR value set = Unicode scalar values", "scalar"),
    (K + "string::chars_methods::string_to_char", {"call": ["from_u32_unchecked"]}, "CHR decoded from one whole char of a str", "usv"),
    (KK + "chr::char_formatting::Utf8Encoded::as_str", {"call": ["from_utf8_unchecked"]}, "STR J-encoded", "encoded"),
    # ---- array casts
    (KK + "slice::slice_for_konst::try_into_array_func", {"union_field": ["Dereference"]}, "CAST *const [T;N] under len == N", "array"),
    (KK + "slice::slice_for_konst::try_into_array_mut_func", {"raw_deref": ["*mut [T; N]"]}, "CAST *mut [T;N] under len == N", "array"),
]
# ---- str producers: function -> justification kind
STR_FUNCS = {
    KK + "string::str_up_to": "boundary", KK + "string::str_from": "boundary", KK + "string::str_range": "boundary",
    S + "get_up_to": "boundary", S + "get_from": "boundary", S + "get_range": "boundary",
    S + "strip_prefix": "pattern", S + "strip_suffix": "pattern", S + "find_skip": "pattern", S + "find_keep": "pattern",
    S + "rfind_skip": "pattern", S + "rfind_keep": "pattern", S + "trim_matches": "pattern", S + "trim_start_matches": "pattern",
    S + "trim_end_matches": "pattern", S + "trim": "ascii", S + "trim_start": "ascii", S + "trim_end": "ascii",
}
for _k, _j in STR_FUNCS.items():
    TABLE.append((_k, {"call": ["__from_u8_subslice_of_str"]}, "STR J-" + _j, "str"))

MACRO_UNSAFE = {"__destructure_struct", "__destructure_tuple", "__destructure_array", "__destructure_array__read_elems",
                "__collect_const_iter_with", "__slice_from_impl", "__slice_up_to_impl", "__array_map"}

# functions whose provenance the D1 analysis cannot follow yet (frozen; anything new must be decided)
SUBRANGE_UNDECIDED = {
    KK + "slice::slice_for_konst::try_into_array_func": "result goes through a union read; the pointer identity is decided by C02 TAB-ARRAY",
}


def run(ctx):
    ctx.explanation = ("inventory of every unsafe operation from MIR against an obligation table (fail closed), path-condition proof of "
                       "the raw-parts bounds, provenance and justification of every bytes->str conversion, sub-range provenance of all "
                       "slice/str returning pub fns; the remaining obligation schemas are discharged by re-running the owning rule sets")
    cfgs = ["FULL", "DEBUG"] if ctx.tier == "quick" else ["FULL", "DEBUG", "MIN"]
    for cfg in cfgs:
        prog = ctx.program(cfg)
        inventory(ctx, prog)
    prog = ctx.program("FULL")
    raw_getters(ctx, prog)
    str_sites(ctx, prog)
    misc_sites(ctx, prog)
    subrange(ctx, prog)
    macro_borne(ctx)
    discharge_elsewhere(ctx, prog)
    destructure_guards(ctx)
    ctx.floor("INVENTORY", 120)
    ctx.floor("RAW", 9)
    ctx.floor("STR", 18)
    ctx.floor("SUBRANGE", 100)
    ctx.floor("MACRO", 8)


def inventory(ctx, prog):
    by_key = {t[0]: t for t in TABLE}
    n_ops = 0
    # A helper extracted later (a workspace function the reference vocabulary does not know) is transparent: its unsafe operations
    # count as operations of the known functions that call it, and are judged against *their* obligation entries.
    helpers = {}
    for b in prog.bodies:
        if b.promoted is None and b.crate in sym.WORKSPACE and sym.KNOWN_FNS and b.key not in sym.KNOWN_FNS and b.key not in by_key:
            helpers[b.key] = b
    called_helpers = set()

    def flat_ops(b, depth=0):
        out = []
        for o in unsafeops.ops_of(b):
            h = helpers.get(o["detail"]) if o["kind"] == "call" else None
            if h is not None and depth < 4:
                called_helpers.add(h.key)
                out.extend(flat_ops(h, depth + 1))
            else:
                out.append(o)
        if depth == 0:
            # safe calls into helpers that contain unsafe operations
            for _, t in b.calls():
                c = t.get("callee")
                if c and not c.get("unsafe"):
                    k = sym.core_path(mir.strip_generics(c["path"]))
                    if k in helpers and k not in called_helpers:
                        called_helpers.add(k)
                        out.extend(flat_ops(helpers[k], 1))
        return out
    order = [b for b in prog.bodies if b.key not in helpers] + [b for b in prog.bodies if b.key in helpers]
    for b in order:
        if b.promoted is not None or b.crate == "konst_proc_macros":
            continue
        if b.key in helpers and b.key in called_helpers:
            continue                      # judged at its callers
        ops = flat_ops(b)
        if not ops:
            continue
        ent = by_key.get(b.key)
        if ent is None and all(o["kind"] == "call" and o["detail"].endswith(RAW_FAMILY) for o in ops):
            # a function that newly builds slices from raw parts: accepted when the generic RAW obligation can be discharged
            # for every view it builds (pointer = input slice + offset, no wrap, offset + count <= len on every path)
            why = _raw_discharge(b, prog)
            if why is None:
                for o in ops:
                    n_ops += 1
                    ctx.instance("INVENTORY", "%s|%s|%s|%d" % (prog.config, b.key, o["kind"], n_ops),
                                 sample={"fn": b.key, "op": o["detail"], "schema": "RAW (discharged generically)"})
                continue
            ctx.note("%s: new raw-parts site, generic RAW obligation not discharged: %s" % (b.key, why))
        for o in ops:
            n_ops += 1
            what = "%s %s" % (o["kind"], o["detail"])
            if ent is None:
                ctx.violation("INVENTORY", "%s|%s|%s" % (prog.config, b.key, o["kind"] + ":" + o["detail"].split("::")[-1]),
                              "unsafe operation in a function with no entry in the obligation table: %s in %s" % (what, b.key), o["at"])
                continue
            allowed = list(ent[1].get(o["kind"], []))
            if any(a.endswith("offset") for a in allowed):
                allowed += ["::add"]        # `p.add(n)` is `p.offset(n as isize)`: same obligation (in-bounds of the same allocation)
            if not any(a in o["detail"] for a in allowed):
                ctx.violation("INVENTORY", "%s|%s|%s" % (prog.config, b.key, o["kind"] + ":" + o["detail"].split("::")[-1]),
                              "%s performs `%s`, which its obligation entry (%s) does not cover" % (b.key, what, ent[2]), o["at"])
            ctx.instance("INVENTORY", "%s|%s|%s|%d" % (prog.config, b.key, o["kind"], n_ops),
                         sample={"fn": b.key, "op": what, "schema": ent[2] if ent else None})
    ctx.extra.setdefault("unsafe_ops", {})[prog.config] = n_ops


# ------------------------------------------------------------------------------
def raw_terms(t, acc):
    if not isinstance(t, tuple) or not t:
        return
    if t[0] in ("raw_parts", "raw_parts_mut"):
        acc.append(t)
    for x in t[1:]:
        if isinstance(x, tuple):
            raw_terms(x, acc)


RAW_FAMILY = ("::from_raw_parts", "::from_raw_parts_mut", "::offset", "::add", "::as_ptr", "::as_mut_ptr")


def _raw_discharge(b, prog):
    try:
        paths = sym.paths_of(b, prog)
    except sym.TooManyPaths:
        return "too many paths"
    n = 0
    for p in paths:
        if p.kind != "return":
            continue
        conds = [table.norm_atom(c) for c in p.conds]
        acc = []
        raw_terms(p.value, acc)
        for e in p.events:
            if e[0] == "call":
                raw_terms(e[2], acc)
        for t in acc:
            n += 1
            v = views.view(t)
            if v is None or v[0] != "view":
                return "pointer is not `slice.as_ptr()` plus an offset: %s" % show(t[1])
            if not (isinstance(v[1], tuple) and v[1] and v[1][0] == "p"):
                return "the view is not over a parameter slice: %s" % show(v[1])
            msg = _inbounds(p, conds, v[2], v[3], sym.mk_len(v[1]))
            if msg:
                return msg
    return None if n else "no raw-parts view found on a returning path"


def _inbounds(p, conds, off, cnt, L):
    """the from_raw_parts obligation, decided for every order type the path condition allows: no subtraction evaluated on the
    path wraps, and offset + count <= len"""
    ints = [c for c in conds if c[0] in ("lt", "le", "eq", "ne", "in", "notin")]
    goals = [(table.le(b_, a_), "`%s - %s` can wrap" % (show(a_), show(b_))) for k, a_, b_ in
             [x for x in p.assumed if isinstance(x, tuple) and x[0] == "nounder"]]
    end = sym.mk_bin("Add", off, cnt)
    goals.append((table.le(end, L), "offset %s + count %s can exceed the slice length" % (show(off), show(cnt))))
    atoms = ints + [g for g, _ in goals]
    try:
        for case in table.enumerate_cases([table.norm_atom(a) for a in atoms]):
            try:
                if not all(case.holds(table.norm_atom(c)) for c in ints):
                    continue
                for g, why in goals:
                    if not case.holds(table.norm_atom(g)):
                        return "%s on this path  [case: %s]" % (why, case.describe())
            except KeyError:
                return "cannot order the terms of the obligation (offset %s, count %s)" % (show(off), show(cnt))
    except table.Undecided as e:
        return "undecided: %s" % e
    return None


def raw_getters(ctx, prog):
    for key, ops, schema, how in TABLE:
        if how != "raw":
            continue
        b = ctx.anchor(prog, key)
        if b is None:
            continue
        paths = sym.paths_of(b, prog)
        n = 0
        for p in paths:
            if p.kind != "return":
                continue
            conds = [table.norm_atom(c) for c in p.conds]
            acc = []
            raw_terms(p.value, acc)
            for t in acc:
                n += 1
                v = views.view(t)
                msg = None
                if v is None or v[0] != "view":
                    msg = "pointer is not `slice.as_ptr()` plus an offset: %s" % show(t[1])
                else:
                    root, off, cnt = v[1], v[2], v[3]
                    L = sym.mk_len(root)
                    msg = _inbounds(p, conds, off, cnt, L)
                if msg:
                    ctx.violation("RAW", "%s|%s" % (key, "mut" if t[0].endswith("mut") else "shared"),
                                  "%s: from_raw_parts obligation not discharged: %s  [path: %s]" % (key, msg, " & ".join(sym.show_atom(c) for c in p.conds)), b.file())
        if key.endswith("split_at_mut"):
            # the two halves must not overlap: second offset == first count
            for p in paths:
                acc = []
                raw_terms(p.value, acc)
                if len(acc) == 2:
                    v0, v1 = views.view(acc[0]), views.view(acc[1])
                    if v0 and v1 and v0[0] == "view" and v1[0] == "view" and not (v0[2] == sym.I(0) and v1[2] == v0[3]):
                        ctx.violation("RAW", key + "|disjoint", "split_at_mut: the two &mut halves overlap (second starts at %s, first has %s elements)" % (show(v1[2]), show(v0[3])), b.file())
        ctx.instance("RAW", key, nontrivial=n > 0, sample={"fn": key, "schema": schema, "views": n})


# ------------------------------------------------------------------------------
def str_sites(ctx, prog):
    pv = prov.Prov(prog)
    for key, kind in STR_FUNCS.items():
        b = ctx.anchor(prog, key)
        if b is None:
            continue
        sm = pv.summary(b)
        acc = set()
        _flat(sm, acc, False)
        roots = {r for r, k in acc}
        if not acc or roots - {"param", "static-empty"}:
            ctx.violation("STR", key + "|provenance", "%s: the returned str is not provably a sub-range of its argument (%s)" % (key, sorted(map(str, acc))), b.file())
        # the bytes handed to the unchecked conversion
        paths = sym.paths_of(b, prog, inline_all_loopfree=True, opaque={KK + "string::__from_u8_subslice_of_str", KK + "string::non_char_boundary_panic",
                                                                        M + "__bytes_strip_prefix", M + "__bytes_strip_suffix", M + "__bytes_find_skip",
                                                                        M + "__bytes_find_keep", M + "__bytes_rfind_skip", M + "__bytes_rfind_keep",
                                                                        M + "__bytes_trim_start_matches", M + "__bytes_trim_end_matches",
                                                                        M + "bytes_trim_start", M + "bytes_trim_end", "konst_kernel::chr::encode_utf8",
                                                                        "konst_kernel::chr::Utf8Encoded::as_bytes"})
        n = 0
        for p in paths:
            for e in p.events:
                if e[0] == "call" and e[1] == KK + "string::__from_u8_subslice_of_str":
                    n += 1
                    arg = table.strip_gargs(e[2])[3]
                    msg = justify(kind, arg, p)
                    if msg:
                        ctx.violation("STR", key + "|" + kind, "%s: bytes -> str without its justification (%s): %s" % (key, kind, msg), b.file())
        if n == 0:
            ctx.violation("STR", key + "|site", "%s: no conversion site found" % key, b.file())
        ctx.instance("STR", key, sample={"fn": key, "justification": kind, "sites_on_paths": n})


def justify(kind, arg, path):
    conds = [table.strip_gargs(c) for c in path.conds]
    BYTES = ("as_bytes", ("p", 1))
    if kind == "boundary":
        if arg == BYTES:
            return None
        v = views.view(arg)
        if v is None:
            return "argument is not a view of the input bytes: %s" % show(arg)
        if v[0] in ("empty",):
            return None
        if v[0] == "whole":
            return None if v[1] == BYTES else "not the input's bytes"
        if v[1] != BYTES:
            return "view of %s, not of the input's bytes" % show(v[1])
        L = ("len", ("p", 1))
        cuts = []
        if v[2] != sym.I(0):
            cuts.append(v[2])
        end = None
        if v[3] != sym.mk_bin("Sub", L, v[2]):
            # end = off + cnt ; for (0, n) the end is n, for (a, b-a) the end is b
            if v[2] == sym.I(0):
                end = v[3]
            elif v[3][0] == "bin" and v[3][1] == "Sub" and v[3][3] == v[2]:
                end = v[3][2]
            else:
                return "cannot identify the end index of the cut (%s, %s)" % (show(v[2]), show(v[3]))
        if end is not None:
            cuts.append(end)
        good = [x for x in cuts if boundary_fact(conds, x, BYTES, L)]
        cs_eq = [table.norm_atom(c) for c in conds]
        for x in cuts:
            if x in good:
                continue
            # an index the path shows equal to a tested one (an empty cut: start == end) is a boundary too
            if any(table.eq(x, y) in cs_eq for y in good):
                continue
            return "index %s is cut without a dominating char-boundary test on that same index" % show(x)
        return None
    if kind == "pattern":
        t = arg
        while t[0] == "vfield":
            t = t[1]
        chain = 0
        while t[0] == "call" and t[1].startswith(M) and chain < 3:
            inp = t[3]
            pat = t[4] if len(t) > 4 else None
            if pat is not None:
                s = repr(pat)
                if repr(("p", 2)) not in s or repr(("p", 1)) in s:
                    return "the cutter's pattern is not the (normalised) pattern argument"
                if not ("as_bytes" in s or "Utf8Encoded" in s):
                    return "the pattern handed to the byte cutter is not a str/char normalised to bytes: %s" % show(pat)
            if inp == BYTES:
                return None
            t = inp
            chain += 1
        return "bytes do not come from a whole-pattern cutter applied to the input's bytes: %s" % show(arg)
    if kind == "ascii":
        t = arg
        n = 0
        while t[0] == "call" and t[1] in (M + "bytes_trim_start", M + "bytes_trim_end") and n < 3:
            t = t[3]
            n += 1
        return None if (t == BYTES and n >= 1) else "bytes do not come from the ASCII-whitespace trimmers applied to the input's bytes: %s" % show(arg)
    return "unknown justification kind"


def boundary_fact(conds, x, BYTES, L):
    """a path condition that makes index x a char boundary of the input: x >= len (clamped / end), x == len, or the
    boundary byte class on bytes[x]"""
    from .c03 import bclass
    from .. import byteset
    cs = [table.norm_atom(byteset.canon_atom(c)) for c in conds]
    if table.le(L, x) in cs or table.eq(L, x) in cs or table.eq(x, L) in cs or table.lt(L, x) in cs:
        return True
    want = ("holds", bclass(x, BYTES))
    if want in cs:
        return True
    # the byte tests of the path on bytes[x], taken together, leave only non-continuation bytes (any spelling of the test: two
    # comparisons on separate branches, a nibble table, ...): byte classes are computed exactly over all 256 values
    hole = want[1][1]
    allowed = set()
    for lo, hi in want[1][2]:
        allowed |= set(range(lo, hi + 1))
    left = None
    for a in cs:
        if a[0] in ("holds", "nholds") and a[1][0] == "byteclass" and a[1][1] == hole:
            s_ = set()
            for lo, hi in (a[1][2] if a[0] == "holds" else byteset.complement(a[1][2])):
                s_ |= set(range(lo, hi + 1))
            left = s_ if left is None else (left & s_)
    if left is not None and not left:
        return True                   # the byte tests of this path contradict each other: it cannot be taken
    return left is not None and left <= allowed


# ------------------------------------------------------------------------------
def misc_sites(ctx, prog):
    # maybe_uninit::write: the deref follows the store `*md = MaybeUninit::new(value)`
    b = ctx.anchor(prog, K + "maybe_uninit::write")
    if b is not None:
        ps = sym.paths_of(b, prog)
        ok = len(ps) == 1 and ("p", 1) in ps[0].heap and repr(("p", 2)) in repr(ps[0].heap[("p", 1)]) and "MaybeUninit::new" in repr(ps[0].heap[("p", 1)])
        if not ok:
            ctx.violation("MISC", "write", "maybe_uninit::write must store MaybeUninit::new(value) through the reference before handing out &mut T", b.file())
        ctx.instance("MISC", "write")
    for nm in ("from_ref", "from_mut"):
        b = ctx.anchor(prog, K + "ptr::nonnull::" + nm)
        if b is not None:
            ps = sym.paths_of(b, prog)
            ok = False
            for p in ps:
                for e in p.events:
                    if e[0] == "call" and e[1].endswith("new_unchecked"):
                        a = e[2][3]
                        while a[0] == "cast":
                            a = a[3]
                        ok = a == ("p", 1) and b.local_ty(1).startswith("&")
            if not ok:
                ctx.violation("MISC", nm, "nonnull::%s must pass a pointer derived from its reference argument to new_unchecked" % nm, b.file())
            ctx.instance("MISC", nm)


def _flat(v, acc, top_result):
    if v is None:
        return
    if v == prov.TOP:
        acc.add(("TOP", None))
        return
    if v[0] == "S":
        for r, k in v[1]:
            acc.add((r if not isinstance(r, tuple) else "param", k))
    elif v[0] == "A":
        for k, x in v[1]:
            if top_result and k[0] == 1:
                continue
            _flat(x, acc, False)


def subrange(ctx, prog):
    pv = prov.Prov(prog)
    for b in prog.bodies:
        if b.promoted is not None or b.kind not in ("Fn", "AssocFn") or b.crate == "konst_proc_macros":
            continue
        if b.rec.get("vis") != "pub" or b.rec.get("unsafe_fn"):
            continue
        so = b.rec.get("sig_output", "")
        if not re.search(r"&('[a-z_]+ )?(mut )?(\[|str)", so):
            continue
        key = b.key + (("<%s>" % b.rec["impl_self"]) if b.rec.get("impl_self") and "IsAConstCmp" in b.key else "")
        acc = set()
        _flat(pv.summary(b), acc, so.startswith("core::result::Result"))
        roots = {r for r, k in acc}
        if not acc:
            # nothing slice-like is computed (wrappers that move their argument, array references)
            if b.key in SUBRANGE_UNDECIDED or so.startswith("cmp::cmp_wrapper::CmpWrapper") or "[T; N]" in so:
                ctx.instance("SUBRANGE", key, nontrivial=False, sample={"fn": b.key, "result": "moves its argument / array reference"})
                continue
            ctx.violation("SUBRANGE", key, "%s returns %s but no provenance could be computed for it" % (b.key, so), b.file())
            continue
        bad = roots - {"param", "static-empty"}
        if bad:
            ctx.violation("SUBRANGE", key, "%s may return a slice/str that is not a sub-range of an argument: roots %s (a non-empty result must "
                          "borrow from the input)" % (b.key, sorted(map(str, acc))), b.file())
        ctx.instance("SUBRANGE", key, sample={"fn": b.key, "roots": sorted("%s:%s" % (k, r) for r, k in acc)})


def macro_borne(ctx):
    found = {}
    defs = {}
    for d in macrolint.scan_repo(facts.REPO, crates=("konst", "konst_kernel")):
        defs.setdefault(d.name, []).append(d)
        u = macrolint.unsafe_tokens(d)
        if u:
            found[d.name] = (d.file, u)
    # a macro is covered by the witness expansions when it is listed, or when a covered macro invokes it (a helper split off a
    # listed macro is expanded together with it, so its unsafe code is in the witnesses' MIR all the same)
    covered = set(MACRO_UNSAFE)
    grew = True
    while grew:
        grew = False
        for name in list(covered):
            for d in defs.get(name, []):
                for inv in macrolint.invoked_macros(d):
                    if inv in defs and inv not in covered:
                        covered.add(inv)
                        grew = True
    for name, (file, lines) in found.items():
        if name not in covered:
            ctx.violation("MACRO", name, "macro %s contains `unsafe` in a transcriber but is not covered by any witness expansion" % name, "%s:%d" % (file, lines[0]))
        ctx.instance("MACRO", name, sample={"macro": name, "unsafe_tokens": len(lines)})
    for name in MACRO_UNSAFE - set(defs):
        ctx.violation("MACRO", name + "|gone", "macro %s is listed as unsafe-bearing but was not found" % name)


def discharge_elsewhere(ctx, prog):
    """the obligation schemas owned by other rule sets are decided here too, so that C01 stands alone"""
    from . import c02, c05, c07, c11, c15, c20
    from .c19 import witness_program
    c02.run_chunks(ctx, prog)
    c02.run_array(ctx, prog)
    c05.spaces(ctx, prog)
    c07.scalar(ctx, prog)
    enc = c07.encode(ctx, prog)
    c07.decode(ctx, prog, enc)
    c07.steps(ctx, prog)
    c20.cstr(ctx, prog)
    c11.builder(ctx, prog)
    c15.consumer(ctx, prog)
    p11, d11 = witness_program(ctx, "w11", c11.SRC)
    if p11 is None:
        ctx.violation("INIT", "witness", "array witness does not compile:\n%s" % d11[-1500:])
    else:
        c11.init_sites(ctx, p11)
        witness_inventory(ctx, p11, "w11")
    p15, d15 = witness_program(ctx, "w15", c15.SRC)
    if p15 is None:
        ctx.violation("LINEAR", "witness", "destructure witness does not compile:\n%s" % d15[-1500:])
    else:
        c15.linear(ctx, p15)
        witness_inventory(ctx, p15, "w15")


def destructure_guards(ctx):
    """GUARD: the `ptr::read`s in destructure! are sound because the value is an owned, non-Drop aggregate moved into ManuallyDrop.
    That premise is established at compile time by the macro's guards (not a reference, does not impl Drop, all fields named):
    the reject/accept program pairs that decide those guards for C17 are decided here too."""
    from . import c17
    fam = [p for p in c17.destructure_family(ctx.tier) if p.guard in ("reference", "drop-type", "field-count", "rest-pattern")] \
        or c17.destructure_family(ctx.tier)
    progs = []
    for i, p in enumerate(fam):
        progs.append(("gr%d" % i, p.reject))
        progs.append(("ga%d" % i, p.accept))
    res = facts.compile_many(progs, ctx.th)
    for i, p in enumerate(fam):
        rr, ra = res[2 * i], res[2 * i + 1]
        key = "%s|%s" % (p.guard, p.shape)
        if rr["ok"]:
            ctx.violation("GUARD", key, "destructure! accepts a misuse its unsafe reads rely on being rejected: %s (%s) compiles" % (p.guard, p.shape),
                          detail={"program": p.reject})
        elif not ra["ok"]:
            ctx.violation("GUARD", key + "|twin", "the accept twin of %s (%s) does not compile: %s" % (p.guard, p.shape, "; ".join(e["message"][:80] for e in ra["errors"][:2])))
        ctx.instance("GUARD", key, nontrivial=not rr["ok"], sample={"guard": p.guard, "shape": p.shape})
    ctx.floor("GUARD", 20)


WITNESS_OPS = {"w11": {"array_assume_init"}, "w15": {"read", "read_unaligned", "add"}}


def witness_inventory(ctx, prog, crate):
    """unsafe operations that macro expansions put into *user* code must be of the kinds the witnesses' rules decide"""
    for b in prog.bodies:
        if b.crate != crate or b.promoted is not None:
            continue
        for o in unsafeops.ops_of(b):
            last = o["detail"].split("::")[-1]
            if crate == "w15" and o["kind"] == "raw_deref":
                # `&raw mut (*ptr).field`: address computation through the ManuallyDrop pointer, decided by LINEAR
                ctx.instance("INVENTORY", "%s|%s|raw_deref|%s" % (crate, b.key, o["bb"]), nontrivial=False)
                continue
            if o["kind"] == "call" and last in WITNESS_OPS[crate]:
                ctx.instance("INVENTORY", "%s|%s|%s|%s" % (crate, b.key, last, o["bb"]), sample={"fn": b.key, "op": o["kind"] + " " + last})
                continue
            ctx.violation("INVENTORY", "%s|%s|%s" % (crate, b.key.split("::")[1] if "::" in b.key else b.key, o["kind"] + ":" + last),
                          "macro expansion in %s performs an unsafe operation no rule decides: %s %s" % (b.key, o["kind"], o["detail"]), o["at"])
