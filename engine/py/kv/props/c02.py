"""C02 — slice getters / splitters agree with std slice indexing.

Rule TAB-VIEW: each function's gated paths (repo callees inlined down to the
raw-parts primitives) are compared, for every order type of (len, start, end),
with the std definition written as (offset, count) views:
    s.get(a..b) = Some(view(s, a, b-a))  iff a <= b <= len
and the documented clamped fall-backs.  Rule ISO-MUT: a `_mut` twin must have
the same table as the shared function modulo `as_ptr/as_mut_ptr`.
"""
from .. import sym, table, views
from ..table import P, Len, Row, lt, le, eq, ne, Sub, Int, NONE

S = P(1)
LEN = Len(S)


def _eqc(case, a, b):
    """equal as terms, or equal once the integer points the case identifies are identified (`n = len` in the case `at == len`)"""
    if a == b:
        return True
    if case is None:
        return False
    try:
        return case.norm(a) == case.norm(b)
    except Exception:
        return False


def _view_is(root, off, cnt):
    def chk(t, case=None):
        v = views.view(t)
        if v is None:
            return "result %s is not a recognisable view" % sym.show(t)
        if v[0] == "whole":
            v = ("view", v[1], Int(0), Len(v[1]), None)
        if v[0] == "empty":
            return "result is the static empty slice, expected view(%s,%s,%s)" % (sym.show(root), sym.show(off), sym.show(cnt))
        if v[1] != root or not _eqc(case, v[2], off) or not _eqc(case, v[3], cnt):
            return "expected view(%s, off=%s, n=%s), got view(%s, off=%s, n=%s)" % (
                sym.show(root), sym.show(off), sym.show(cnt), sym.show(v[1]), sym.show(v[2]), sym.show(v[3]))
        return None
    return chk


def _whole(root):
    def chk(t, case=None):
        v = views.view(t)
        if v == ("whole", root):
            return None
        if v and v[0] == "view" and v[1] == root and _eqc(case, v[2], Int(0)) and _eqc(case, v[3], Len(root)):
            return None
        return "expected the whole input slice, got %s" % sym.show(t)
    return chk


def _empty(t, case=None):
    v = views.view(t)
    if v == ("empty",):
        return None
    if v and v[0] == "view" and _eqc(case, v[3], Int(0)):
        return None
    return "expected an empty slice, got %s" % sym.show(t)


def ret(chk):
    return lambda path, case: chk(path.value, case)


def some(chk):
    def f(path, case):
        t = path.value
        if t[0] != "agg" or not t[1].endswith("Option::Some#1"):
            return "expected Some(..), got %s" % sym.show(t)
        return chk(t[2], case)
    return f


def none(path):
    t = path.value
    if t != NONE:
        return "expected None, got %s" % sym.show(t)
    return None


def pair(c0, c1):
    def f(path, case):
        t = path.value
        if t[0] != "agg" or t[1] != "tuple" or len(t) != 4:
            return "expected a pair, got %s" % sym.show(t)
        return c0(t[2], case) or c1(t[3], case)
    return f


def tables():
    a, b = P(2), P(3)
    T = {}
    # name -> (rows, constraints)
    T["slice_from"] = [Row([le(a, LEN)], ret(_view_is(S, a, Sub(LEN, a))), name="start<=len"),
                       Row([lt(LEN, a)], ret(_empty), name="start>len")]
    T["slice_up_to"] = [Row([le(a, LEN)], ret(_view_is(S, Int(0), a)), name="len<=slice.len"),
                        Row([lt(LEN, a)], ret(_whole(S)), name="len>slice.len")]
    T["get_from"] = [Row([le(a, LEN)], some(_view_is(S, a, Sub(LEN, a))), name="start<=len"),
                     Row([lt(LEN, a)], none, name="start>len")]
    T["get_up_to"] = [Row([le(a, LEN)], some(_view_is(S, Int(0), a)), name="len<=slice.len"),
                      Row([lt(LEN, a)], none, name="len>slice.len")]
    T["get_range"] = [Row([le(a, b), le(b, LEN)], some(_view_is(S, a, Sub(b, a))), name="start<=end<=len"),
                      Row([lt(b, a)], none, name="start>end"),
                      Row([le(a, b), lt(LEN, b)], none, name="end>len")]
    T["slice_range"] = [Row([le(a, b), le(b, LEN)], ret(_view_is(S, a, Sub(b, a))), name="start<=end<=len"),
                        Row([lt(b, a), le(b, LEN)], ret(_empty), name="start>end, end<=len"),
                        Row([lt(LEN, b), le(a, LEN)], ret(_view_is(S, a, Sub(LEN, a))), name="end>len, start<=len"),
                        Row([lt(LEN, b), lt(LEN, a)], ret(_empty), name="end>len, start>len")]
    T["split_at"] = [Row([le(a, LEN)], pair(_view_is(S, Int(0), a), _view_is(S, a, Sub(LEN, a))), name="at<=len"),
                     Row([lt(LEN, a)], pair(_whole(S), _empty), name="at>len")]
    return T


FUNCS = {
    # table name -> [(stripped path, is_mut)]
    "slice_from": [("konst_kernel::slice::slice_from", False), ("konst::slice::slice_const_methods::slice_from_mut", True)],
    "slice_up_to": [("konst_kernel::slice::slice_up_to", False), ("konst::slice::slice_const_methods::slice_up_to_mut", True)],
    "get_from": [("konst::slice::slice_const_methods::get_from", False), ("konst::slice::slice_const_methods::get_from_mut", True)],
    "get_up_to": [("konst::slice::slice_const_methods::get_up_to", False), ("konst::slice::slice_const_methods::get_up_to_mut", True)],
    "get_range": [("konst::slice::slice_const_methods::get_range", False), ("konst::slice::slice_const_methods::get_range_mut", True)],
    "slice_range": [("konst_kernel::slice::slice_range", False), ("konst::slice::slice_const_methods::slice_range_mut", True)],
    "split_at": [("konst::slice::slice_const_methods::split_at", False), ("konst::slice::slice_const_methods::split_at_mut", True)],
}


def mutability_ok(path, is_mut):
    """a `_mut` function must build its views with the *_mut primitives, a shared one with the shared ones"""
    bad = []

    def walk(t):
        if not isinstance(t, tuple) or not t:
            return
        if t[0] == "raw_parts" and is_mut:
            bad.append("shared from_raw_parts in a _mut function")
        if t[0] == "raw_parts_mut" and not is_mut:
            bad.append("from_raw_parts_mut in a shared function")
        for x in t[1:]:
            if isinstance(x, tuple):
                walk(x)
    walk(path.value)
    return bad


def run_tables(ctx, prog):
    T = tables()
    for name, fns in FUNCS.items():
        for key, is_mut in fns:
            b = ctx.anchor(prog, key)
            if b is None:
                continue
            try:
                paths = sym.paths_of(b, prog, inline_all_loopfree=True)
                mism, ncases, decided = table.compare(paths, T[name])
            except (table.Undecided, sym.TooManyPaths) as e:
                ctx.violation("TAB-VIEW", "%s|%s" % (prog.config, key), "table undecided: %s" % e, b.file())
                continue
            ctx.instance("TAB-VIEW", "%s|%s" % (prog.config, key), nontrivial=decided >= 2,
                         sample={"fn": key, "cases": ncases, "decided": decided, "paths": len(paths)})
            for m in mism[:3]:
                ctx.violation("TAB-VIEW", "%s|%s|%s" % (prog.config, key, m.row.name if m.row else "-"),
                              "%s disagrees with std slice indexing: %s" % (key, m), b.file(),
                              detail={"mir": b.pretty()})
            for p in paths:
                for bad in mutability_ok(p, is_mut):
                    ctx.violation("ISO-MUT", "%s|%s" % (prog.config, key), bad, b.file())
            ctx.instance("ISO-MUT", "%s|%s" % (prog.config, key), nontrivial=True)


def _decide(ctx, rule, prog, key, rows, **kw):
    b = ctx.anchor(prog, key)
    if b is None:
        return None
    try:
        paths = sym.paths_of(b, prog, inline_all_loopfree=True)
        mism, ncases, decided = table.compare(paths, rows, len_unbounded=True, **kw)
    except (table.Undecided, sym.TooManyPaths) as e:
        ctx.violation(rule, "%s|%s" % (prog.config, key), "table undecided: %s" % e, b.file())
        return None
    ctx.instance(rule, "%s|%s" % (prog.config, key), nontrivial=decided >= 2,
                 sample={"fn": key, "cases": ncases, "decided": decided, "paths": len(paths)})
    for m in mism[:3]:
        ctx.violation(rule, "%s|%s|%s" % (prog.config, key, m.row.name if m.row else "-"),
                      "%s disagrees with std: %s" % (key, m), b.file(), detail={"mir": b.pretty()})
    return paths


def run_elem(ctx, prog):
    """get / get_mut: Some(&s[i]) iff i < len"""
    i = P(2)

    def elem(path):
        t = path.value
        exp = table.Some(("ref", ("index", ("deref", S), i)))
        return None if t == exp else "expected Some(&slice[index]), got %s" % sym.show(t)
    rows = [Row([lt(i, LEN)], elem, name="index<len"), Row([le(LEN, i)], none, name="index>=len")]
    for key in ("konst::slice::slice_const_methods::get", "konst::slice::slice_const_methods::get_mut"):
        _decide(ctx, "TAB-ELEM", prog, key, rows)


def run_array(ctx, prog):
    """try_into_array{,_mut}: Ok(same pointer, cast to [T;N]) iff len == N"""
    N = ("tyconst", "N")

    def ok(path):
        t = path.value
        if t[0] != "agg" or not t[1].endswith("Result::Ok#0"):
            return "expected Ok(..), got %s" % sym.show(t)
        x = t[2]
        # union Dereference{ptr}.reff  |  &mut *(slice as *mut [T] as *mut [T;N])
        if x[0] == "field" and x[1][0] == "agg" and "Dereference" in x[1][1]:
            x = x[1][2]
        while x[0] == "cast" and x[1] == "ptr2ptr":
            x = x[3]
        if x in (("as_ptr", S), ("as_mut_ptr", S), S):
            return None
        return "Ok payload does not point at the start of the input slice: %s" % sym.show(t[2])

    def err(path):
        t = path.value
        if t[0] == "agg" and t[1].endswith("Result::Err#1"):
            return None
        return "expected Err(..), got %s" % sym.show(t)
    rows = [Row([eq(LEN, N)], ok, name="len==N"), Row([ne(LEN, N)], err, name="len!=N")]
    for key in ("konst_kernel::slice::slice_for_konst::try_into_array_func",
                "konst_kernel::slice::slice_for_konst::try_into_array_mut_func"):
        _decide(ctx, "TAB-ARRAY", prog, key, rows)


def _norm_arith(t):
    """(L / N) * N  ==  L - L % N   -> ('mult', L, N)"""
    if t[0] == "bin":
        if t[1] == "Mul":
            for x, y in ((t[2], t[3]), (t[3], t[2])):
                if x[0] == "bin" and x[1] == "Div" and x[3] == y:
                    return ("mult", x[2], y)
        if t[1] == "Sub" and t[3][0] == "bin" and t[3][1] == "Rem" and t[3][2] == t[2]:
            return ("mult", t[2], t[3][3])
    return t


def run_chunks(ctx, prog):
    """as_chunks / as_rchunks: arrays view the first / last (len/N)*N elements, remainder the rest"""
    N = ("tyconst", "N")
    M = ("mult", LEN, N)
    DIV = ("bin", "Div", LEN, N)
    REM = ("bin", "Rem", LEN, N)

    def arrays_over(t, off_kind):
        # raw_parts(cast ptr2ptr [T;N] (ptr), len/N) with ptr at offset 0 (chunks) or len%N (rchunks)
        if t[0] != "raw_parts":
            return "array part is not a from_raw_parts view: %s" % sym.show(t)
        if t[2] != DIV:
            return "array count is %s, expected len / N" % sym.show(t[2])
        p = t[1]
        if p[0] == "call" and p[1].endswith(("const_ptr::<impl *const T>::cast", "mut_ptr::<impl *mut T>::cast")) and len(p) == 4 \
                and isinstance(p[2], tuple) and len(p[2]) == 2 and p[2][1] == "[T; N]":
            p = ("cast", "ptr2ptr", "*const [T; N]", p[3])          # `ptr.cast::<[T; N]>()` is `ptr as *const [T; N]`
        if not (p[0] == "cast" and p[1] == "ptr2ptr" and "[T; N]" in p[2]):
            return "array pointer is not an element cast: %s" % sym.show(p)
        b = views.ptr_base(p[3])
        if b is None or b[0] == "cast" or b[0] != S:
            return "array pointer is not derived from the input slice: %s" % sym.show(p[3])
        off = _norm_arith(b[1])
        want = Int(0) if off_kind == "front" else REM
        if off != want:
            return "arrays start at offset %s, expected %s" % (sym.show(b[1]), sym.show(want))
        return None

    def rem_view(t, kind):
        v = views.view(t)
        if v is None or v[0] != "view" or v[1] != S:
            return "remainder is not a view of the input: %s" % sym.show(t)
        off, cnt = _norm_arith(v[2]), _norm_arith(v[3])
        if kind == "back":     # as_chunks: remainder = s[(len/N)*N ..]
            rest = sym.mk_bin("Sub", LEN, v[2])
            if off == M and (_norm_arith(rest) == cnt or rest == v[3] or cnt == ("bin", "Sub", LEN, v[2])):
                return None
            return "remainder is view(off=%s,n=%s), expected s[(len/N)*N..]" % (sym.show(v[2]), sym.show(v[3]))
        if off == Int(0) and cnt == REM:
            return None
        return "remainder is view(off=%s,n=%s), expected s[..len%%N]" % (sym.show(v[2]), sym.show(v[3]))

    def chunks(path):
        t = path.value
        if t[0] != "agg" or t[1] != "tuple":
            return "expected a pair"
        return arrays_over(t[2], "front") or rem_view(t[3], "back")

    def rchunks(path):
        t = path.value
        if t[0] != "agg" or t[1] != "tuple":
            return "expected a pair"
        return rem_view(t[2], "front") or arrays_over(t[3], "back")

    def panics(path):
        return None
    # split_at(this, k) with k = (len/N)*N or len%N never takes the clamped branch: k <= len is an arithmetic fact
    cons = [le(table.Sub(LEN, LEN), LEN)]
    for key, fn in (("konst::slice::slice_as_chunks::as_chunks", chunks), ("konst::slice::slice_as_chunks::as_rchunks", rchunks)):
        mul = sym.mk_bin("Mul", DIV, N)       # canonical spelling: len - len % N
        rows = [Row([eq(N, Int(0))], panics, kind="panic", name="N==0"),
                Row([ne(N, Int(0)), le(mul, LEN), le(REM, LEN)], fn, name="N!=0")]
        _decide(ctx, "TAB-CHUNKS", prog, key, rows)


def run_ends(ctx, prog):
    """first_mut / last_mut / split_first_mut / split_last_mut: std's `[T]::first_mut` etc. - None for an empty slice, else the
    first / last element (and the rest of the slice without it)"""
    first = ("ref", ("cidx", ("deref", S), 0, False))
    last = ("ref", ("cidx", ("deref", S), 1, True))
    tail = ("ref", ("subslice", ("deref", S), 1, 0, True))      # [1..]
    init = ("ref", ("subslice", ("deref", S), 0, 1, True))      # [..len-1]

    def some(exp, what):
        def f(path):
            return None if path.value == exp else "expected %s, got %s" % (what, sym.show(path.value))
        return f
    for name, exp, what in (("first_mut", table.Some(first), "Some(&mut slice[0])"),
                            ("last_mut", table.Some(last), "Some(&mut slice[len-1])"),
                            ("split_first_mut", table.Some(table.Tuple(first, tail)), "Some((&mut slice[0], &mut slice[1..]))"),
                            ("split_last_mut", table.Some(table.Tuple(last, init)), "Some((&mut slice[len-1], &mut slice[..len-1]))")):
        rows = [Row([lt(LEN, Int(1))], none, name="empty"), Row([le(Int(1), LEN)], some(exp, what), name="non-empty")]
        _decide(ctx, "TAB-ENDS", prog, "konst::slice::slice_const_methods::" + name, rows)


def run(ctx):
    ctx.explanation = ("decision tables of the slice getters/splitters extracted from MIR (callees inlined to raw-parts "
                       "views) compared with std's get(range)/split_at definition for every order type of (len,start,end)")
    for cfg in (["FULL"] if ctx.tier == "quick" else ["FULL", "MIN"]):
        prog = ctx.program(cfg)
        run_tables(ctx, prog)
        run_elem(ctx, prog)
        run_array(ctx, prog)
        run_chunks(ctx, prog)
        run_ends(ctx, prog)
    ctx.floor("TAB-VIEW", 14)
    ctx.floor("TAB-ELEM", 2)
    ctx.floor("TAB-ENDS", 4)
    ctx.floor("TAB-ARRAY", 2)
    ctx.floor("TAB-CHUNKS", 2)
