"""INIT typestate rule for MaybeUninit arrays (shared by C01 and C11).

For a site that turns `[MaybeUninit<T>; N]` into `[T; N]` (array_assume_init / the transmute in it):
 (a) the site is dominated by the true edge of `counter == LEN`;
 (b) every definition of `counter` is either the constant 0 or `counter + k`; each increment is dominated
     (on the CFG pruned by the site's own dominating enum-discriminant conditions on never-assigned locals)
     by a store `array[i] = MaybeUninit::new(..)` with i == counter (k = 1) - or, for k != 1, by an
     inner copy loop that stores array[counter + j] for j in 0..k;
 (c) nothing else defines `counter`.
Returns a list of problem strings (empty = obligation discharged) plus facts for the evidence.
"""
from .mir import strip_generics


def single_use_source(body, l, depth=0):
    """follow `_t = copy/move _x` chains to the originating local"""
    seen = set()
    while l not in seen and depth < 12:
        seen.add(l)
        defs = body.defs_of(l)
        if len(defs) != 1 or defs[0][1] == "term":
            return l
        rv = defs[0][2]
        if rv["k"] == "use" and rv["op"]["k"] in ("copy", "move") and not rv["op"]["place"]["p"]:
            l = rv["op"]["place"]["l"]
            depth += 1
            continue
        return l
    return l


def operand_local(o):
    if o["k"] in ("copy", "move") and not o["place"]["p"]:
        return o["place"]["l"]
    return None


def never_assigned(body, l):
    return not body.defs_of(l) and not any(
        st["k"] == "assign" and st["place"]["l"] == l for _, _, st in body.assigns())


def pruned_succ(body, fixed):
    """successor function with switches on discriminant(fixed local) restricted to the fixed variant"""
    discr_of = {}
    for bb, i, st in body.assigns():
        if st["rv"]["k"] == "discr" and not st["place"]["p"]:
            pl = st["rv"]["place"]
            base = pl["l"]
            if base in fixed and not [pe for pe in pl["p"] if pe["k"] != "deref"]:
                discr_of[st["place"]["l"]] = base

    def succ(bb):
        t = body.blocks[bb]["term"]
        if t["k"] == "switch":
            dl = operand_local(t["discr"])
            if dl is not None:
                src = single_use_source(body, dl)
                if src in discr_of:
                    want = fixed[discr_of[src]]
                    for v, tb in t["targets"]:
                        if int(v) == want:
                            return [tb]
                    return [t["otherwise"]]
        return body.succ(bb)
    return succ


def dominators(body, succ):
    n = len(body.blocks)
    reach = set()
    st = [0]
    while st:
        b = st.pop()
        if b in reach:
            continue
        reach.add(b)
        st.extend(succ(b))
    dom = {b: set(reach) for b in reach}
    dom[0] = {0}
    preds = {b: [] for b in reach}
    for b in reach:
        for s in succ(b):
            if s in reach:
                preds[s].append(b)
    changed = True
    while changed:
        changed = False
        for b in sorted(reach):
            if b == 0:
                continue
            ps = [dom[p] for p in preds[b]]
            new = set.intersection(*ps) | {b} if ps else {b}
            if new != dom[b]:
                dom[b] = new
                changed = True
    return dom, reach


def find_sites(body, suffixes=("maybe_uninit::array_assume_init",)):
    out = []
    for bb, t in body.calls():
        if t.get("callee") and strip_generics(t["callee"]["path"]).endswith(suffixes):
            out.append((bb, t))
    return out


def fixed_discriminants(body, site_bb):
    """enum-discriminant facts on never-assigned locals that hold on every path to the site"""
    fixed = {}
    chain = body.dom_chain(site_bb)
    for i in range(len(chain) - 1):
        child, parent = chain[i], chain[i + 1]
        t = body.blocks[parent]["term"]
        if t["k"] != "switch":
            continue
        dl = operand_local(t["discr"])
        if dl is None:
            continue
        src = single_use_source(body, dl)
        defs = body.defs_of(src)
        if len(defs) != 1 or defs[0][1] == "term" or defs[0][2]["k"] != "discr":
            continue
        pl = defs[0][2]["place"]
        if [pe for pe in pl["p"] if pe["k"] != "deref"]:
            continue
        base = pl["l"]
        if not never_assigned(body, base) or base > body.arg_count:
            continue
        # which edge leads to the child?
        for v, tb in t["targets"]:
            if tb == child or body.dominates(tb, child):
                fixed[base] = int(v)
    return fixed


def guard_of_site(body, site_bb, dom):
    """(counter local, description of LEN) when the site is dominated by the true edge of `counter == LEN`"""
    doms = dom[site_bb]
    best = None
    for b in doms:
        t = body.blocks[b]["term"]
        if t["k"] != "switch" or t["discr_ty"] != "bool":
            continue
        dl = operand_local(t["discr"])
        if dl is None:
            continue
        src = single_use_source(body, dl)
        defs = body.defs_of(src)
        if len(defs) != 1 or defs[0][1] == "term":
            continue
        rv = defs[0][2]
        if rv["k"] != "binop" or rv["op"] != "Eq":
            continue
        # true edge must lead to the site: the `0` target is the false edge
        false_t = [tb for v, tb in t["targets"] if int(v) == 0]
        true_t = t["otherwise"] if false_t else None
        if true_t is None or true_t not in doms and true_t != site_bb:
            continue
        a, c = rv["a"], rv["b"]
        la, lc = operand_local(a), operand_local(c)
        cand = []
        if la is not None:
            cand.append((single_use_source(body, la), c))
        if lc is not None:
            cand.append((single_use_source(body, lc), a))
        for counter, other in cand:
            if body.local_ty(counter) == "usize":
                best = (counter, other)
                break
        if best:
            break
    return best


def _array_len_of_ty(ty):
    """`[T; N]` / `&[T; N]` -> 'N' (a literal or the name of a const parameter)"""
    import re
    m = re.search(r";\s*([A-Za-z0-9_:]+)\s*\]$", ty.strip())
    return m.group(1) if m else None


def len_mismatch(body, other, arr):
    """None when the operand the counter is compared with is the length of `arr` (the const N of its type `[_; N]`, or `.len()` of
    a reference to an array of that same N); otherwise a description of what it is"""
    want = _array_len_of_ty(body.local_ty(arr))
    if want is None:
        return "an operand whose relation to the array type `%s` is unknown" % body.local_ty(arr)
    if other["k"] == "const":
        got = other.get("tyconst") or other.get("bits")
        return None if str(got) == want else "the constant %s" % got
    l = operand_local(other)
    if l is None:
        return "a projected place"
    src = single_use_source(body, l)
    defs = body.defs_of(src)
    if len(defs) == 1 and defs[0][1] == "term" and defs[0][2].get("callee") \
            and strip_generics(defs[0][2]["callee"]["path"]).endswith(("slice::<impl [T]>::len", "slice::len")):
        a = operand_local(defs[0][2]["args"][0])
        seen = set()
        while a is not None and a not in seen:
            seen.add(a)
            n = _array_len_of_ty(body.local_ty(a))
            if n is not None:
                return None if n == want else "the length of a `%s`" % body.local_ty(a)
            d = body.defs_of(a)
            if len(d) != 1 or d[0][1] == "term":
                break
            rv = d[0][2]
            nxt = None
            if rv["k"] == "cast":
                nxt = operand_local(rv["op"]) if "op" in rv else None
            elif rv["k"] == "use":
                nxt = operand_local(rv["op"])
            elif rv["k"] == "ref" and not rv["place"]["p"]:
                nxt = rv["place"]["l"]
            a = nxt
        return "the length of something that is not an array of the same type-level length"
    if len(defs) == 1 and defs[0][1] != "term" and defs[0][2]["k"] == "use" and defs[0][2]["op"]["k"] == "const":
        return len_mismatch(body, defs[0][2]["op"], arr)
    return "a computed value (%s)" % (defs[0][2].get("k") if defs and defs[0][1] != "term" else "call result")


def counter_defs(body, counter):
    """classify every definition of the counter: ('init', value) | ('inc', bb, idx, k-operand) | ('other', ...)"""
    out = []
    for bb, i, rv in body.defs_of(counter):
        if i == "term":
            out.append(("other", bb, "call result"))
            continue
        if rv["k"] == "use" and rv["op"]["k"] == "const":
            out.append(("init", bb, rv["op"].get("bits")))
            continue
        # counter = move (_t.0) where _t = AddWithOverflow(copy counter, k)
        if rv["k"] == "use" and rv["op"]["k"] in ("copy", "move"):
            pl = rv["op"]["place"]
            if len(pl["p"]) == 1 and pl["p"][0]["k"] == "field" and pl["p"][0]["i"] == 0:
                d2 = body.defs_of(pl["l"])
                if len(d2) == 1 and d2[0][1] != "term" and d2[0][2]["k"] == "binop" and d2[0][2]["op"] in ("AddWithOverflow", "Add"):
                    r2 = d2[0][2]
                    la = operand_local(r2["a"])
                    if la is not None and single_use_source(body, la) == counter:
                        out.append(("inc", bb, i, r2["b"]))
                        continue
        if rv["k"] == "binop" and rv["op"] in ("Add", "AddUnchecked"):
            la = operand_local(rv["a"])
            if la is not None and single_use_source(body, la) == counter:
                out.append(("inc", bb, i, rv["b"]))
                continue
        out.append(("other", bb, rv["k"]))
    return out


def stores_to(body, array_local):
    """[(bb, idx, index local root, rvalue, index local)] for statements `array[i] = ...`"""
    out = []
    for bb, i, st in body.assigns():
        pl = st["place"]
        if pl["l"] == array_local and len(pl["p"]) == 1 and pl["p"][0]["k"] == "index":
            out.append((bb, i, single_use_source(body, pl["p"][0]["l"]), st["rv"], pl["p"][0]["l"]))
    return out


def _pos(idx):
    return 10 ** 9 if idx == "term" else idx


def read_point(body, l, counter, at):
    """where the value used as index was read from `counter`: the statement `_t = copy counter` at the end of the
    copy chain of the index local, or the store itself (`at`) when the counter is the index local"""
    seen = set()
    while l not in seen:
        seen.add(l)
        if l == counter:
            return at
        defs = body.defs_of(l)
        if len(defs) != 1 or defs[0][1] == "term":
            return None
        bb, idx, rv = defs[0]
        if rv["k"] == "use" and rv["op"]["k"] in ("copy", "move") and not rv["op"]["place"]["p"]:
            at = (bb, idx)
            l = rv["op"]["place"]["l"]
            continue
        return None
    return None


def _before(dom, a, b):
    """program point a = (bb, idx) precedes b on every path to b"""
    if a[0] == b[0]:
        return _pos(a[1]) < _pos(b[1])
    return a[0] in dom[b[0]]


def _point_succ(body, succ, pt):
    """successor program points of (bb, idx|'term') on the pruned CFG"""
    bb, i = pt
    if i == "term":
        return [(b2, 0 if body.blocks[b2]["stmts"] else "term") for b2 in succ(bb)]
    n = len(body.blocks[bb]["stmts"])
    return [(bb, i + 1 if i + 1 < n else "term")]


def _first_point(body, bb):
    return (bb, 0 if body.blocks[bb]["stmts"] else "term")


def path_exists(body, succ, reach, a, b, avoid=()):
    """is there a way from just after point a to point b (arriving at it) that passes none of the `avoid` points?"""
    avoid = set(avoid)
    seen = set()
    st = [q for q in _point_succ(body, succ, a)]
    while st:
        q = st.pop()
        if q in seen or q[0] not in reach:
            continue
        seen.add(q)
        if q == b:
            return True
        if q in avoid:
            continue
        st.extend(_point_succ(body, succ, q))
    return False


def _other_inc_between(body, succ, reach, P, inc, incs):
    """some way from P to `inc` (without coming back to P) passes another increment of the counter"""
    for d2 in incs:
        if d2 != inc and d2 != P and path_exists(body, succ, reach, P, d2, avoid=[P, inc]) and path_exists(body, succ, reach, d2, inc, avoid=[P]):
            return True
    return False


def store_covers(body, succ, dom, reach, site_bb, incs, P, sigma, inc):
    """the store `sigma`, whose index is the counter's value read at P, writes the slot that the increment `inc` passes:
    P precedes inc with no other increment in between, and every way from P through inc to the end of the iteration
    (back edge of the innermost enclosing loop, leaving that loop, or the assume_init site) executes sigma"""
    if not _before(dom, P, inc):
        return False
    if _other_inc_between(body, succ, reach, P, inc, incs):
        return False
    if _before(dom, sigma, inc) and (_before(dom, P, sigma) or P == sigma):
        return True
    if sigma[0] == inc[0]:
        return _pos(sigma[1]) > _pos(inc[1])
    loops = [blk for h, blk in body.loops().items() if inc[0] in blk]
    loop = min(loops, key=len) if loops else None
    header = None
    if loop is not None:
        header = [h for h, blk in body.loops().items() if blk is loop][0]
    seen = set()
    st = [x for x in succ(inc[0])]
    while st:
        b = st.pop()
        if b in seen or b not in reach:
            continue
        seen.add(b)
        if b == sigma[0]:
            continue                      # this way executes the store
        if b == site_bb or (loop is not None and b == header):
            return False                  # the next iteration starts, or the array is assumed initialised, without the store
        st.extend(succ(b))                # (a path that panics or returns never reaches the site)
    return True


def _def_idx(body, local, d):
    """statement index of a non-increment definition reported by counter_defs (which only carries the block)"""
    for bb, i, rv in body.defs_of(local):
        if bb == d[1] and not (i != "term" and rv["k"] == "binop"):
            return i
    return "term"


def pigeonhole_covers(body, succ, dom, reach, counter, incs, inc, stores):
    """counting argument for `counter += 1` at `inc` when the stores are not indexed by the counter itself:
     (a) a store sigma = `array[j] = MaybeUninit::new(..)` precedes the increment on every path, no other increment of the counter
         lies on any way from sigma to it, and every cycle through the increment passes sigma again: the counter never exceeds the
         number of executed stores;
     (b) j is the value a cursor had at a point P; once P has been reached the cursor is only ever advanced by positive constants,
         and every cycle through P passes such an advance: no two executions of sigma write the same slot;
     (c) the indexing is a checked array index (MIR `array[j]`), so every written slot exists.
    With the site guarded by `counter == N` (N = the array's length) that is N different existing slots written: all of them.
    Returns the store used, or None."""
    for sb, si, root, rv, il in stores:
        sigma = (sb, si)
        if root == counter or sb not in reach or not is_maybeuninit_new(body, rv):
            continue
        if not _before(dom, sigma, inc) or _other_inc_between(body, succ, reach, sigma, inc, incs):
            continue
        if path_exists(body, succ, reach, inc, inc, avoid=[sigma]):
            continue
        P = read_point(body, il, root, sigma)
        if P is None:
            continue
        defs = [d for d in counter_defs(body, root) if d[1] in reach]
        # anything may set the cursor before the traversal starts, nothing but the advances may define it once P has been reached
        if any(path_exists(body, succ, reach, P, (d[1], d[2] if d[0] == "inc" else _def_idx(body, root, d)), avoid=[]) for d in defs if d[0] != "inc"):
            continue
        adv = [(d[1], d[2]) for d in defs if d[0] == "inc" and d[3]["k"] == "const" and str(d[3].get("bits", "0")).isdigit() and int(d[3]["bits"]) > 0]
        if not adv or len(adv) != len([d for d in defs if d[0] == "inc"]):
            continue
        if path_exists(body, succ, reach, P, P, avoid=adv):
            continue
        return sigma
    return None


def is_maybeuninit_new(body, rv):
    """the stored value comes from MaybeUninit::new(..) (directly or via a temporary)"""
    if rv["k"] == "use" and rv["op"]["k"] in ("copy", "move") and not rv["op"]["place"]["p"]:
        src = single_use_source(body, rv["op"]["place"]["l"])
        for bb, i, d in body.defs_of(src):
            if i == "term" and d.get("callee") and strip_generics(d["callee"]["path"]).endswith("MaybeUninit::new"):
                return True
        # pattern binding of an Option payload etc.: accept if the local's type is MaybeUninit<..>
        return "MaybeUninit<" in body.local_ty(src)
    return False


def init_rule(body, site_bb, site_term):
    problems = []
    info = {}
    arr = operand_local(site_term["args"][0])
    if arr is None:
        return ["the array passed to assume_init is not a plain local"], info
    arr = single_use_source(body, arr)
    fixed = fixed_discriminants(body, site_bb)
    succ = pruned_succ(body, fixed)
    dom, reach = dominators(body, succ)
    if site_bb not in reach:
        return ["site unreachable after pruning"], info
    g = guard_of_site(body, site_bb, dom)
    if g is None:
        return ["assume_init is not dominated by the true edge of `counter == LEN` (a closure that breaks out of the "
                "loop, or a skipped element, would leave unwritten slots)"], info
    counter, other = g
    info["counter"] = body.local_name(counter) or "_%d" % counter
    info["len_operand"] = repr(other)[:300]
    info["array_ty"] = body.local_ty(arr)
    info["array"] = body.local_name(arr) or "_%d" % arr
    info["fixed"] = {"_%d" % k: v for k, v in fixed.items()}
    why = len_mismatch(body, other, arr)
    if why:
        problems.append("the guard compares `%s` with %s, which is not the length of the array (`%s`): with fewer counted slots than "
                        "the array has, unwritten slots would be assumed initialised" % (info["counter"], why, info["array_ty"]))
    stores = stores_to(body, arr)
    n_inc = 0
    for d in counter_defs(body, counter):
        if d[0] == "init":
            if d[2] not in ("0", 0):
                problems.append("counter is initialised to %s, not 0" % d[2])
        elif d[0] == "inc":
            _, bb, idx, k = d
            if bb not in reach:
                continue
            n_inc += 1
            kconst = k["k"] == "const" and k.get("bits") == "1"
            if kconst:
                incs = [(d2[1], d2[2]) for d2 in counter_defs(body, counter) if d2[0] == "inc" and d2[1] in reach]
                cover = False
                for s in stores:
                    if s[2] != counter or not is_maybeuninit_new(body, s[3]) or s[0] not in reach:
                        continue
                    P = read_point(body, s[4], counter, (s[0], s[1]))
                    if P is not None and store_covers(body, succ, dom, reach, site_bb, incs, P, (s[0], s[1]), (bb, idx)):
                        cover = True
                if not cover:
                    pg = pigeonhole_covers(body, succ, dom, reach, counter, incs, (bb, idx), stores)
                    if pg is not None:
                        cover = True
                        info.setdefault("counting_argument", []).append("bb%d" % bb)
                if not cover:
                    problems.append("`%s += 1` at bb%d: some path of the iteration passes this increment without executing a store "
                                    "`%s[%s] = MaybeUninit::new(..)` for the value `%s` had before it (an unwritten slot would be counted)" % (
                                        info["counter"], bb, info["array"], info["counter"], info["counter"]))
            else:
                info["variable_step"] = True
                if not _copy_loop_covers(body, arr, counter, bb, dom, reach):
                    problems.append("the counter advances by a computed amount at bb%d without a dominating copy loop that "
                                    "stores %s[counter + j] for every j below that amount" % (bb, info["array"]))
        else:
            if d[1] in reach:
                problems.append("the counter is also written by `%s` at bb%d" % (d[2], d[1]))
    info["increments"] = n_inc
    info["stores"] = len(stores)
    if n_inc == 0:
        problems.append("no increment of the counter found")
    return problems, info


def _copy_loop_covers(body, arr, counter, inc_bb, dom, reach):
    """an inner loop, dominating the increment, whose body stores arr[i] = MaybeUninit::new(..), i starting at
    the counter and advancing by one together with the source index"""
    for s in stores_to(body, arr):
        if s[0] not in reach or not is_maybeuninit_new(body, s[3]):
            continue
        i = s[2]
        if i == counter:
            continue
        defs = counter_defs(body, i)
        inits = [d for d in defs if d[0] != "inc"]
        incs = [d for d in defs if d[0] == "inc"]
        if not incs:
            continue
        # i is initialised from the counter
        ok_init = False
        for bb, idx, rv in body.defs_of(i):
            if idx != "term" and rv["k"] == "use" and rv["op"]["k"] in ("copy", "move") and not rv["op"]["place"]["p"] \
                    and single_use_source(body, rv["op"]["place"]["l"]) == counter:
                ok_init = True
        in_loop = any(s[0] in blocks for blocks in body.loops().values())
        # the loop containing the store must be left before the increment: its header dominates the increment
        hdrs = [h for h, blocks in body.loops().items() if s[0] in blocks and inc_bb not in blocks]
        if ok_init and in_loop and hdrs and any(h in dom[inc_bb] for h in hdrs):
            return True
    return False
