"""helpers for counted loops `for i in 0..bound` as they appear in MIR (for_range!, while i < n)"""
from . import sym
from .table import lt, le


def counted(paths, bound=None):
    """-> dict(counter=local, I=term, bound=term, back=[paths], exits=[paths], problems=[str]) for a single-loop summary
    produced by through_loops(keep_back=True).  Validates: counter starts at 0, +1 per iteration, every back edge is
    guarded by I < bound."""
    back = [p for p in paths if p.kind == "back"]
    problems = []
    counters = {}
    for p in back:
        for l, v in p.env.items():
            if v == ("bin", "Add", ("L", l), sym.I(1)):
                counters.setdefault(l, 0)
                counters[l] += 1
    # the loop counter is the +1 local that is compared with the bound on every back path
    cand = []
    for l in counters:
        I = ("L", l)
        bs = None
        for p in back:
            g = {c[2] for c in p.conds if c[0] == "lt" and c[1] == I}
            bs = g if bs is None else bs & g
        if bs:
            cand.append((l, bs))
    if not cand:
        return None
    if bound is not None:
        cand = [(l, bs) for l, bs in cand if bound in bs] or cand
    l, bs = cand[0]
    I = ("L", l)
    b = bound if bound in bs else sorted(bs, key=repr)[0]
    for p in paths:
        for e in p.events:
            if e[0] == "loop":
                init = dict(e[2]).get(l)
                if init is not None and init != sym.I(0):
                    problems.append("counter starts at %s, not 0" % sym.show(init))
    for p in back:
        if p.env.get(l) != ("bin", "Add", I, sym.I(1)):
            problems.append("counter is not advanced by exactly one on every iteration")
    return {"counter": l, "I": I, "bound": b, "back": back, "exits": [p for p in paths if p.kind != "back"], "problems": problems}
