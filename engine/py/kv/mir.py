"""CFG utilities over fact records: Program (all bodies of a config), Body (CFG,
dominators, natural loops, definitions)."""
import re

from . import pretty

_GEN = re.compile(r"::<(?!impl )[^<>]*(?:<[^<>]*(?:<[^<>]*>[^<>]*)*>[^<>]*)*>")


def strip_generics(path):
    """`a::B::<'a, T>::f` -> `a::B::f`; leaves `<impl ..>` / `<T as Tr>` segments alone."""
    prev = None
    while prev != path:
        prev = path
        path = _GEN.sub(lambda m: m.group(0) if " as " in m.group(0) else "", path)
    return path


class Body:
    def __init__(self, rec, crate):
        self.rec = rec
        self.crate = crate
        self.path = rec["path"]
        self.key = strip_generics(rec["path"])
        self.raw = rec["raw"]
        self.kind = rec["kind"]
        self.flavor = rec["flavor"]
        self.promoted = rec.get("promoted")
        self.blocks = rec["blocks"]
        self.locals = rec["locals"]
        self.arg_count = rec["arg_count"]
        self._succ = None
        self._pred = None
        self._idom = None
        self._loops = None

    # -- basic accessors ---------------------------------------------------
    def local_ty(self, l):
        return self.locals[l]["ty"]

    def local_name(self, l):
        return self.locals[l].get("name")

    def local_by_name(self, name):
        return [i for i, l in enumerate(self.locals) if l.get("name") == name]

    def file(self):
        return self.rec["span"]["at"]

    def pretty(self):
        return pretty.body(self.rec)

    def term(self, bb):
        return self.blocks[bb]["term"]

    @staticmethod
    def term_succs(t):
        k = t["k"]
        if k == "goto":
            return [t["target"]]
        if k == "switch":
            return [b for _, b in t["targets"]] + [t["otherwise"]]
        if k in ("call",):
            return [t["target"]] if t["target"] is not None else []
        if k in ("assert", "drop"):
            return [t["target"]]
        return []

    def succ(self, bb):
        if self._succ is None:
            self._succ = [self.term_succs(b["term"]) for b in self.blocks]
        return self._succ[bb]

    def preds(self, bb):
        if self._pred is None:
            self._pred = [[] for _ in self.blocks]
            for b in range(len(self.blocks)):
                if self.blocks[b]["cleanup"]:
                    continue
                for s in self.succ(b):
                    self._pred[s].append(b)
        return self._pred[bb]

    def reachable(self):
        seen = set()
        st = [0]
        while st:
            b = st.pop()
            if b in seen:
                continue
            seen.add(b)
            st.extend(self.succ(b))
        return seen

    # -- dominators (iterative) -------------------------------------------
    def idom(self):
        if self._idom is not None:
            return self._idom
        order = []
        seen = set()

        def dfs(b):
            stack = [(b, iter(self.succ(b)))]
            seen.add(b)
            while stack:
                n, it = stack[-1]
                adv = False
                for s in it:
                    if s not in seen:
                        seen.add(s)
                        stack.append((s, iter(self.succ(s))))
                        adv = True
                        break
                if not adv:
                    order.append(n)
                    stack.pop()

        dfs(0)
        rpo = list(reversed(order))
        idx = {b: i for i, b in enumerate(rpo)}
        idom = {0: 0}
        changed = True
        while changed:
            changed = False
            for b in rpo[1:]:
                ps = [p for p in self.preds(b) if p in idom]
                if not ps:
                    continue
                new = ps[0]
                for p in ps[1:]:
                    a, c = p, new
                    while a != c:
                        while idx[a] > idx[c]:
                            a = idom[a]
                        while idx[c] > idx[a]:
                            c = idom[c]
                    new = a
                if idom.get(b) != new:
                    idom[b] = new
                    changed = True
        self._idom = idom
        self._rpo = rpo
        return idom

    def dominates(self, a, b):
        idom = self.idom()
        if b not in idom:
            return False
        while True:
            if a == b:
                return True
            if b == 0:
                return False
            b = idom[b]

    def dom_chain(self, b):
        idom = self.idom()
        out = [b]
        while b != 0 and b in idom:
            b = idom[b]
            out.append(b)
        return out

    # -- natural loops ------------------------------------------------------
    def loops(self):
        """{header: set(blocks)} from back edges (edge n->h with h dominating n)."""
        if self._loops is not None:
            return self._loops
        loops = {}
        for n in self.reachable():
            for h in self.succ(n):
                if self.dominates(h, n):
                    body = loops.setdefault(h, {h})
                    st = [n]
                    while st:
                        x = st.pop()
                        if x in body:
                            continue
                        body.add(x)
                        st.extend(self.preds(x))
        self._loops = loops
        return loops

    def back_edges(self):
        return [(n, h) for n in self.reachable() for h in self.succ(n) if self.dominates(h, n)]

    # -- iteration helpers --------------------------------------------------
    def calls(self):
        """yield (bb, terminator) for every call terminator in non-cleanup reachable blocks"""
        for b in sorted(self.reachable()):
            t = self.blocks[b]["term"]
            if t["k"] == "call":
                yield b, t

    def callee_keys(self):
        return [strip_generics(t["callee"]["path"]) for _, t in self.calls() if t.get("callee")]

    def assigns(self):
        for b in sorted(self.reachable()):
            for i, st in enumerate(self.blocks[b]["stmts"]):
                if st["k"] == "assign":
                    yield b, i, st

    def defs_of(self, local):
        """all (bb, idx|'term', rvalue-or-call) that assign the whole local"""
        out = []
        for b, i, st in self.assigns():
            if st["place"]["l"] == local and not st["place"]["p"]:
                out.append((b, i, st["rv"]))
        for b, t in self.calls():
            if t["dest"]["l"] == local and not t["dest"]["p"]:
                out.append((b, "term", t))
        return out


class Program:
    """All bodies of one feature configuration (the three workspace crates, plus any
    witness crates added later)."""

    def __init__(self, config):
        self.config = config
        self.bodies = []          # all Body objects
        self.by_key = {}          # stripped path -> [Body]   (runtime/ctfe bodies only)
        self.promoted = {}        # (raw path, idx) -> Body
        self.adts = {}
        self.crates = {}
        self.raw_index = {}       # raw def path -> Body (non-promoted)

    def add_crate(self, data):
        crate = data["crate"]
        self.crates[crate] = data
        for rec in data["bodies"]:
            b = Body(rec, crate)
            self.bodies.append(b)
            if b.promoted is not None:
                self.promoted[(b.raw, b.promoted)] = b
            else:
                self.by_key.setdefault(b.key, []).append(b)
                self.raw_index[b.raw] = b
        for a in data.get("adts", []):
            self.adts[a["path"]] = a

    def get(self, key, impl_self=None):
        """the unique body with this stripped path (optionally filtered by impl self type)"""
        c = self.by_key.get(key, [])
        if impl_self is not None:
            c = [b for b in c if impl_self in (b.rec.get("impl_self") or "")]
        if len(c) == 1:
            TOUCHED.add(c[0].key)
            return c[0]
        if not c:
            return None
        raise KeyError("ambiguous body key %s: %d candidates" % (key, len(c)))

    def find(self, pattern):
        rx = re.compile(pattern)
        return [b for b in self.bodies if b.promoted is None and rx.search(b.key)]

    def by_raw(self, raw):
        b = self.raw_index.get(raw)
        if b is not None:
            TOUCHED.add(b.key)
        return b


# keys of the bodies a check looked up by name or inlined (coverage audit: tools/coverage.py); never used for a verdict
TOUCHED = set()


def _known_sigs():
    import os
    out = {}
    try:
        with open(os.path.join(os.path.dirname(__file__), "known_fns.txt")) as fh:
            for l in fh:
                if "\t" in l:
                    k, v = l.rstrip("\n").split("\t", 1)
                    out[k] = v
    except OSError:
        pass
    return out


def alias_renamed(p):
    """A private function that was only renamed (same module, same signature, the old name gone, the new name unknown to the
    reference vocabulary kv/known_fns.txt, and the match unique) is given its old name back - in its own key and in every call
    to it - so that rules which name it (anchors, opaque sets, expected callees) keep working.  Purely a naming matter: the
    body that is analysed is the current one."""
    sigs = _known_sigs()
    if not sigs:
        return {}

    def sig_of(b):
        return "(%s) -> %s" % (", ".join(b.rec.get("sig_inputs") or []), b.rec.get("sig_output") or "")

    def mod_of(k):
        return k.rsplit("::", 1)[0]
    present = set(p.by_key)
    new = {}
    for k, bs in p.by_key.items():
        if k not in sigs and len(bs) == 1 and bs[0].crate in ("konst", "konst_kernel", "konst_proc_macros") \
                and bs[0].kind in ("Fn", "AssocFn") and bs[0].rec.get("vis") != "pub":
            new.setdefault((mod_of(k), sig_of(bs[0])), []).append(k)
    old = {}
    for k, sg in sigs.items():
        if k not in present:
            old.setdefault((mod_of(k), sg), []).append(k)
    alias = {}
    for ms, ks in new.items():
        if len(ks) == 1 and len(old.get(ms, [])) == 1:
            alias[ks[0]] = old[ms][0]
    if not alias:
        return alias
    by_raw = {}
    for k_new, k_old in alias.items():
        b = p.by_key.pop(k_new)[0]
        new_name, old_name = k_new.rsplit("::", 1)[1], k_old.rsplit("::", 1)[1]
        b.key = k_old
        b.path = b.path.replace("::" + new_name, "::" + old_name)
        p.by_key.setdefault(k_old, []).append(b)
        by_raw[b.raw] = (new_name, old_name)
    for b in p.bodies:
        for blk in b.blocks:
            t = blk["term"]
            c = t.get("callee") if t["k"] == "call" else None
            if c and c.get("raw") in by_raw:
                nn, on = by_raw[c["raw"]]
                c["path"] = re.sub(r"::%s(?=$|::<)" % re.escape(nn), "::" + on, c["path"])
    p.renamed = alias
    return alias


def load_program(config, th=None):
    from . import facts
    crates = facts.load_crates(config, th)
    p = Program(config)
    for c in facts.CRATES:
        p.add_crate(crates[c])
    alias_renamed(p)
    return p
