"""Decision-table comparison (rule kind TAB).

`compare(paths, rows, ...)` checks, case by case, that the extracted gated paths
of a body agree with a hand-written reference table.  A *case* is one complete
assignment to the finite set of atoms that occur on either side:

  * an order type (weak ordering incl. equalities with constants) of the integer
    terms that are compared anywhere,
  * a variant for every enum-valued term whose discriminant is tested,
  * a truth value for every opaque boolean term.

Only order relations between whole terms are ever evaluated; no arithmetic is
performed and nothing of konst is run.  For every case exactly one path and one
row must apply and their outcomes must match.
"""
import itertools

from . import sym
from .sym import show, show_atom


# ---- reference-side term constructors -------------------------------------
def P(i):
    return ("p", i)


def L(i):
    return ("L", i)


def Int(v, ty="usize"):
    return ("int", v, ty)


def Len(x):
    return sym.mk_len(x)


def Call(path, *args, gargs=None):
    return ("call", path, gargs) + tuple(args)


def Some(x):
    return ("agg", "adt:core::option::Option::Some#1", x)


NONE = ("agg", "adt:core::option::Option::None#0")


def Ok(x):
    return ("agg", "adt:core::result::Result::Ok#0", x)


def Err(x):
    return ("agg", "adt:core::result::Result::Err#1", x)


def Tuple(*xs):
    return ("agg", "tuple") + tuple(xs)


def Sub(a, b):
    return sym.mk_bin("Sub", a, b)


def Add(a, b):
    return sym.mk_bin("Add", a, b)


def lt(a, b):
    return ("lt", a, b)


def le(a, b):
    return ("le", a, b)


def eq(a, b):
    return sym.eq_atom("eq", a, b)


def ne(a, b):
    return sym.eq_atom("ne", a, b)


def holds(t):
    return ("holds", t)


def nholds(t):
    return ("nholds", t)


def is_variant(t, v):
    return ("is", t, v)


def strip_gargs(t):
    """drop generic-arg tuples from call terms so that reference terms need not spell them"""
    if not isinstance(t, tuple) or not t:
        return t
    if t[0] == "call":
        return ("call", t[1], None) + tuple(strip_gargs(x) for x in t[3:])
    return tuple(strip_gargs(x) if isinstance(x, tuple) else x for x in t)


def norm_atom(a):
    a = strip_gargs(a)
    k = a[0]
    if k in ("in", "notin") and len(a[2]) == 1:
        # a one-value `match` arm and an `==`/`!=` test are the same condition
        return (eq if k == "in" else ne)(a[1], ("int", a[2][0], "_"))
    return a


# ---- cases ------------------------------------------------------------------
class Undecided(Exception):
    pass


def _int_key(t):
    # constants compare by value irrespective of the type tag
    if t[0] == "int":
        return ("int", t[1])
    if t[0] == "char":
        return ("int", t[1])
    return t


class Case:
    def __init__(self, pos, variants, bools):
        self.pos = pos            # int-term key -> rank (float)
        self.variants = variants  # term -> variant index
        self.bools = bools        # term -> bool

    def val(self, t):
        k = _int_key(t)
        return self.pos[k]

    def holds(self, a):
        k = a[0]
        if k == "lt":
            return self.val(a[1]) < self.val(a[2])
        if k == "le":
            return self.val(a[1]) <= self.val(a[2])
        if k == "eq":
            return self.val(a[1]) == self.val(a[2])
        if k == "ne":
            return self.val(a[1]) != self.val(a[2])
        if k == "holds":
            return self.bools[a[1]]
        if k == "nholds":
            return not self.bools[a[1]]
        if k == "is":
            return self.variants[a[1]] == a[2]
        if k == "isnot":
            return self.variants[a[1]] != a[2]
        if k == "notin_variants":
            return self.variants[a[1]] not in a[2]
        if k == "in":
            return any(self.val(a[1]) == self.val(("int", v, "_")) for v in a[2])
        if k == "notin":
            return all(self.val(a[1]) != self.val(("int", v, "_")) for v in a[2])
        if k == "const":
            return a[1]
        raise Undecided("atom kind %s" % k)

    def _reps(self):
        if getattr(self, "_rep", None) is None:
            cls = {}
            for k, r in self.pos.items():
                cls.setdefault(r, []).append(k)
            rep = {}
            for r, ks in cls.items():
                consts = [k for k in ks if k[0] == "int"]
                best = ("int", consts[0][1], "usize") if consts else min(ks, key=repr)
                for k in ks:
                    rep[k] = best
            self._rep = rep
        return self._rep

    def norm(self, t):
        """replace every integer point by the representative of its equality class and re-simplify"""
        if not isinstance(t, tuple) or not t:
            return t
        k = _int_key(t)
        rep = self._reps()
        if k in rep:
            return rep[k]
        if t[0] == "int":
            return ("int", t[1], "usize")
        if t[0] == "min" and len(t) == 3:
            try:
                return self.norm(t[1]) if self.val(t[1]) <= self.val(t[2]) else self.norm(t[2])
            except KeyError:
                pass
        out = tuple(self.norm(x) if isinstance(x, tuple) else x for x in t)
        if out[0] == "bin":
            if out[1] in ("Sub", "SatSub") and out[2] == out[3]:
                return ("int", 0, "usize")
            out = sym.mk_bin(out[1], out[2], out[3])
        elif out[0] == "len":
            out = sym.mk_len(out[1])
        if out != t and isinstance(out, tuple) and out:
            k2 = _int_key(out)
            if k2 in rep:
                return rep[k2]
        return out

    def truth(self, t):
        """truth value of a bool-valued term under this case, or None"""
        if t[0] == "bool":
            return t[1]
        if t in self.bools:
            return self.bools[t]
        if t[0] == "byteclass" and t[1] in CELLS:
            v = self.variants.get(("cell", t[1]))
            if not isinstance(v, int):
                return None
            cell = CELLS[t[1]][v]
            members = set()
            for lo, hi in t[2]:
                members |= set(range(lo, hi + 1))
            if cell <= members:
                return True
            if not (cell & members):
                return False
            return None
        if t[0] == "un" and t[1] == "Not":
            v = self.truth(t[2])
            return None if v is None else (not v)
        if t[0] == "bin" and t[1] in ("Lt", "Le", "Gt", "Ge", "Eq", "Ne"):
            try:
                return self.holds(sym.atom_of(t, True))
            except (KeyError, Undecided):
                return None
        return None

    def describe(self):
        parts = []
        inv = {}
        for k, r in self.pos.items():
            inv.setdefault(r, []).append(k)
        order = []
        for r in sorted(inv):
            order.append(" = ".join(sorted(show(x) if x[0] != "int" else str(x[1]) for x in inv[r])))
        if order:
            parts.append(" < ".join(order))
        for t, v in self.variants.items():
            parts.append("%s is #%s" % (show(t), v))
        for t, v in self.bools.items():
            parts.append("%s=%s" % (show(t), v))
        return "; ".join(parts)


# byte-valued holes whose tests were rewritten into cells (see cellify): hole term -> list of frozensets partitioning 0..255
CELLS = {}


def cellify(paths, rows):
    """Every test `byte in S` on the same byte (any number of different sets S, on paths, in returned bool terms and in the rows)
    is rewritten over the partition of 0..255 those sets generate: the byte becomes a variant point ("cell", hole) whose domain
    is the list of cells, and `holds/nholds(byteclass(hole, S))` the set of cells it admits.  Exact (all 256 values are kept
    apart as far as any test can tell them apart).  Returns the variant domain to pass to compare()."""
    def sets_in(t, acc):
        if isinstance(t, tuple) and t:
            if t[0] == "byteclass":
                acc.setdefault(t[1], set()).add(t[2])
            for x in t[1:]:
                if isinstance(x, tuple):
                    sets_in(x, acc)
    acc = {}
    for p in paths:
        for c in p.conds:
            sets_in(c, acc)
        if isinstance(p.value, tuple):
            sets_in(p.value, acc)
    for r in rows:
        for g in r.guards:
            sets_in(g, acc)
    dom = {}
    for hole, sets in acc.items():
        sig = {}
        for v in range(256):
            key = tuple(any(lo <= v <= hi for lo, hi in S) for S in sorted(sets))
            sig.setdefault(key, set()).add(v)
        cells = [frozenset(x) for _, x in sorted(sig.items())]
        CELLS[hole] = cells
        dom[("cell", hole)] = list(range(len(cells)))

    def rw(a):
        if a[0] in ("holds", "nholds") and a[1][0] == "byteclass" and a[1][1] in CELLS:
            cells = CELLS[a[1][1]]
            members = set()
            for lo, hi in a[1][2]:
                members |= set(range(lo, hi + 1))
            inside = [i for i, c in enumerate(cells) if c <= members]
            outside = [i for i, c in enumerate(cells) if not (c & members)]
            excl = outside if a[0] == "holds" else inside
            return ("notin_variants", ("cell", a[1][1]), tuple(excl))
        return a
    for p in paths:
        p.conds = tuple(rw(c) for c in p.conds)
    for r in rows:
        r.guards = [rw(g) for g in r.guards]
    return dom


def collect(atoms):
    ints, consts, variants, bools = [], set(), {}, []
    for a in atoms:
        k = a[0]
        if k in ("lt", "le", "eq", "ne"):
            for t in (a[1], a[2]):
                kk = _int_key(t)
                if kk[0] == "int":
                    consts.add(kk[1])
                elif kk not in ints:
                    ints.append(kk)
        elif k in ("in", "notin"):
            kk = _int_key(a[1])
            if kk not in ints:
                ints.append(kk)
            for v in a[2]:
                consts.add(v)
        elif k in ("holds", "nholds"):
            if a[1] not in bools:
                bools.append(a[1])
        elif k in ("is", "isnot"):
            variants.setdefault(a[1], set()).add(a[2])
        elif k == "notin_variants":
            variants.setdefault(a[1], set()).update(a[2])
    return ints, consts, variants, bools


def enumerate_cases(atoms, nonneg=True, extra_consts=(), variant_domain=None, constraints=(), max_cases=400000):
    ints, consts, variants, bools = collect(atoms)
    consts = set(consts) | set(extra_consts)
    if nonneg and ints:
        consts.add(0)
    cs = sorted(consts)
    k = len(ints)
    # candidate ranks for a symbolic point
    cand = []
    for j, c in enumerate(cs):
        cand.append(float(j))
    gaps = []
    for j in range(len(cs) + 1):
        lo = cs[j - 1] if j > 0 else None
        hi = cs[j] if j < len(cs) else None
        if lo is not None and hi is not None and hi - lo <= 1:
            continue
        if lo is None and nonneg:
            continue
        gaps.append(j - 0.5)
    for g in gaps:
        for sub in range(1, k + 1):
            cand.append(g - 0.25 + 0.5 * sub / (k + 1))
    const_pos = {("int", c): float(j) for j, c in enumerate(cs)}
    seen = set()
    order_types = []
    # when sums/differences of points are points themselves and the valuation-based enumeration below applies, the generic
    # enumeration of all order types (exponential in the number of points) is not needed at all
    val_only = False
    if nonneg and (not cs or max(cs) <= 4):
        d0 = [t for t in ints if t[0] == "bin" and t[1] in ("Add", "Sub", "SatSub", "WrappingSub") and len(t) == 4]
        iset0 = set(ints)
        d0 = [t for t in d0 if all(x in iset0 or x[0] == "int" for x in (_int_key(t[2]), _int_key(t[3])))]
        b0 = [t for t in ints if t not in set(d0)]
        K0 = len(ints) + (max(cs) if cs else 0) + 2
        val_only = bool(d0) and K0 ** len(b0) <= 400000
    if k and not val_only and len(cand) ** k > 4000000:
        raise Undecided("too many order types (%d points)" % k)
    for combo in (itertools.product(cand, repeat=k) if not val_only else ()):
        # canonical signature: dense ranking
        allv = sorted(set(combo) | set(const_pos.values()))
        rank = {v: i for i, v in enumerate(allv)}
        sig = tuple(rank[v] for v in combo)
        if sig in seen:
            continue
        seen.add(sig)
        pos = dict(const_pos)
        for t, v in zip(ints, combo):
            pos[t] = v
        order_types.append(pos)
        if len(order_types) > max_cases:
            raise Undecided("too many order types")
    if nonneg:
        # Points that are sums/differences of other points are not free: the feasible order types are exactly those some
        # assignment of (small) non-negative integers to the remaining points realises.  Enumerate those assignments and keep the
        # order types they induce (a decision procedure for the table over a finite abstract domain - no solver, no program run).
        derived = [t for t in ints if t[0] == "bin" and t[1] in ("Add", "Sub", "SatSub", "WrappingSub") and len(t) == 4]
        if derived and (not cs or max(cs) <= 4):
            iset = set(ints)

            def is_known(x):
                return x in iset or x[0] == "int"
            derived = [t for t in derived if is_known(_int_key(t[2])) and is_known(_int_key(t[3]))]
            dset = set(derived)
            base = [t for t in ints if t not in dset]
            K = len(ints) + (max(cs) if cs else 0) + 2      # enough room to realise every order type of the points
            if derived and K ** len(base) <= 400000:
                seen2 = set()
                realised = []
                # evaluate derived points in dependency order
                order_d = sorted(derived, key=lambda t: len(repr(t)))
                for combo in itertools.product(range(K), repeat=len(base)):
                    val = {("int", c): c for c in cs}
                    for t, v in zip(base, combo):
                        val[t] = v
                    ok = True
                    for t in order_d:
                        a, b = _int_key(t[2]), _int_key(t[3])
                        va = val.get(a, a[1] if a[0] == "int" else None)
                        vb = val.get(b, b[1] if b[0] == "int" else None)
                        if va is None or vb is None:
                            ok = False
                            break
                        if t[1] == "Add":
                            val[t] = va + vb
                        elif t[1] in ("Sub", "SatSub"):
                            val[t] = max(va - vb, 0)
                        else:
                            # wrapping_sub: a wrapped difference is larger than every length/index in play (those are <= isize::MAX)
                            val[t] = va - vb if va >= vb else 8 * K - (vb - va)
                    if not ok:
                        realised = None
                        break
                    allv = sorted(set(val.values()))
                    rank = {v: float(i) for i, v in enumerate(allv)}
                    sig = tuple(rank[val[t]] for t in ints) + tuple(rank[c] for c in cs)
                    if sig in seen2:
                        continue
                    seen2.add(sig)
                    pos = {("int", c): rank[c] for c in cs}
                    for t in ints:
                        pos[t] = rank[val[t]]
                    realised.append(pos)
                if realised:
                    order_types = realised
                elif val_only:
                    raise Undecided("derived points could not be evaluated")
    if not order_types:
        order_types = [dict(const_pos)]
    vterms = list(variants.keys())
    vdoms = []
    for t in vterms:
        dom = set(variants[t])
        if variant_domain and t in variant_domain:
            dom = set(variant_domain[t])
        else:
            dom.add("other")
        vdoms.append(sorted(dom, key=str))
    n = len(order_types)
    for d in vdoms:
        n *= len(d)
    n *= 2 ** len(bools)
    if n > max_cases:
        raise Undecided("too many cases (%d)" % n)
    for pos in order_types:
        # opaque terms that become identical once equal integer points are identified must agree
        bkeys = [_rank_subst(t, pos) for t in bools]
        vkeys = [_rank_subst(t, pos) for t in vterms]
        for vs in itertools.product(*vdoms) if vdoms else [()]:
            if not _consistent(vkeys, vs):
                continue
            for bs in itertools.product([False, True], repeat=len(bools)):
                if not _consistent(bkeys, bs):
                    continue
                c = Case(pos, dict(zip(vterms, vs)), dict(zip(bools, bs)))
                ok = True
                for con in constraints:
                    try:
                        if callable(con):
                            if not con(c):
                                ok = False
                                break
                            continue
                        if not c.holds(con):
                            ok = False
                            break
                    except KeyError:
                        pass
                if ok:
                    yield c


def _rank_subst(t, pos):
    if not isinstance(t, tuple) or not t:
        return t
    k = _int_key(t)
    if k in pos:
        return ("rank", pos[k])
    return tuple(_rank_subst(x, pos) if isinstance(x, tuple) else x for x in t)


def _consistent(keys, vals):
    seen = {}
    for k, v in zip(keys, vals):
        if k in seen and seen[k] != v:
            return False
        seen[k] = v
    return True


def sub_consistent(t):
    """order facts of t = a - b (no underflow): t==0 <=> a==b ; t==a <=> b==0 ; b>0 => t<a ; t<=a"""
    a, b = t[2], t[3]
    zero = ("int", 0, "usize")

    def f(case):
        try:
            vt, va, vb, v0 = case.val(t), case.val(a), case.val(b), case.val(zero)
        except KeyError:
            return True
        if t[1] == "SatSub" and vb > va:
            return vt == v0
        if (vt == v0) != (va == vb):
            return False
        if (vt == va) != (vb == v0):
            return False
        if vt > va:
            return False
        return True
    return f


def found_fits(f, hay_len, needle_len, some=1):
    """semantic fact about a search result (established by C04's SCAN rule, assumed here): `f`
    (find/rfind(hay, needle)) can only be Some when the needle is no longer than the haystack"""
    def g(case):
        try:
            if case.variants.get(f) != some:
                return True
            return case.val(needle_len) <= case.val(hay_len)
        except KeyError:
            return True
    g.points = (hay_len, needle_len)      # compare() makes these points of every case, so that the fact is never silently inert
    return g


class Row:
    def __init__(self, guards, outcome, kind="return", name=None):
        self.guards = [norm_atom(g) for g in guards]
        self.outcome = outcome   # term, or callable(path) -> None | error string
        self.kind = kind         # 'return' | 'panic' | 'cut' | 'any'
        self.name = name


class Mismatch:
    def __init__(self, case, msg, path=None, row=None):
        self.case = case
        self.msg = msg
        self.path = path
        self.row = row

    def __str__(self):
        return "%s  [case: %s]" % (self.msg, self.case.describe() if self.case else "-")


def _arity(fn):
    import inspect
    try:
        return len(inspect.signature(fn).parameters)
    except (TypeError, ValueError):
        return 1


def outcome_matches(path, row, case=None):
    if row.kind != "any" and path.kind != row.kind:
        return "expected %s, path ends in %s (%s)" % (row.kind, path.kind, show(path.value) if isinstance(path.value, tuple) else path.value)
    if row.outcome is None:
        return None
    if callable(row.outcome):
        if _arity(row.outcome) >= 2:
            return row.outcome(path, case)
        return row.outcome(path)
    got = strip_gargs(path.value)
    exp = strip_gargs(row.outcome)
    if got != exp:
        return "outcome differs: expected %s, got %s" % (show(exp), show(got))
    return None


def compare(paths, rows, nonneg=True, extra_consts=(), variant_domain=None, constraints=(), ignore_unreachable=True, len_unbounded=False):
    """-> (mismatches, n_cases, n_decided).  Paths of kind 'unreachable' are dropped."""
    ps = [p for p in paths if not (ignore_unreachable and p.kind == "unreachable")]
    pconds = [[norm_atom(c) for c in p.conds] for p in ps]
    atoms = [a for cs in pconds for a in cs] + [g for r in rows for g in r.guards]
    atoms += [norm_atom(c) for c in constraints if not callable(c)]
    for c in constraints:
        for pt in getattr(c, "points", ()) if callable(c) else ():
            atoms.append(norm_atom(le(pt, pt)))
    # small constants subtracted on a path under a no-underflow assumption take part in the case split (see below)
    extra_consts = tuple(extra_consts) + tuple(sorted({ob[2][1] for p in ps for ob in (getattr(p, "assumed", ()) or ())
                                                       if ob[0] == "nounder" and isinstance(ob[2], tuple) and ob[2][0] == "int"
                                                       and isinstance(ob[2][1], int) and 0 < ob[2][1] <= 4}))
    mism = []
    n = 0
    decided = 0
    for case in enumerate_cases(atoms, nonneg, extra_consts, variant_domain,
                                [c if callable(c) else norm_atom(c) for c in constraints]):
        n += 1
        live_rows = [r for r in rows if all(case.holds(g) for g in r.guards)]
        live_paths = [p for p, cs in zip(ps, pconds) if all(case.holds(c) for c in cs)]
        if len(live_rows) == 0:
            # the reference says nothing about this case (declared infeasible)
            continue
        if len(live_rows) > 1:
            raise Undecided("reference table ambiguous for case %s: rows %s" % (
                case.describe(), [r.name for r in live_rows]))
        row = live_rows[0]
        if not live_paths:
            mism.append(Mismatch(case, "no path of the body covers a case the reference row %r covers" % (row.name,), row=row))
            continue
        decided += 1
        for p in live_paths:
            m = outcome_matches(p, row, case)
            if m:
                mism.append(Mismatch(case, "row %r: %s" % (row.name, m), p, row))
                continue
            # the path enumerator walks past an unsigned subtraction assuming it does not wrap and records that assumption; in a
            # case where the operands are known and the subtrahend is larger, the path panics (overflow checks on: debug builds,
            # const evaluation) or continues with a wrapped value - either way not what the reference row describes
            if row.kind in ("return", "any") and p.kind == "return":
                if len_unbounded:
                    # slices of zero-sized elements can be usize::MAX long: `len + c` overflows for them unless the path has bounded the
                    # length from above (only asked by the tables of functions generic in the element type)
                    pc = [norm_atom(strip_gargs(c_)) for c_ in p.conds]
                    bad = None
                    for ob in getattr(p, "assumed", ()) or ():
                        if ob[0] == "noover" and ob[1] == "Add":
                            x, k = (ob[2], ob[3]) if ob[3][0] == "int" else ((ob[3], ob[2]) if ob[2][0] == "int" else (None, None))
                            if x is not None and strip_gargs(x)[0] == "len" and k[1] > 0 and not any(c_[0] == "lt" and c_[1] == strip_gargs(x) for c_ in pc):
                                bad = ob
                    if bad is not None:
                        mism.append(Mismatch(case, "row %r: the path computes %s + %s; a slice of zero-sized elements can be usize::MAX long, so this "
                                                   "overflows (panic with overflow checks, a wrapped length otherwise)" % (row.name, sym.show(bad[2]), sym.show(bad[3])), p, row))
                        continue
                for ob in getattr(p, "assumed", ()) or ():
                    if ob[0] != "nounder":
                        continue
                    try:
                        va, vb = case.val(strip_gargs(ob[1])), case.val(strip_gargs(ob[2]))
                    except (KeyError, TypeError):
                        continue
                    if va < vb:
                        mism.append(Mismatch(case, "row %r: the path computes %s - %s, which underflows in this case (panics with overflow "
                                                   "checks / in const evaluation, wraps otherwise)" % (row.name, sym.show(ob[1]), sym.show(ob[2])), p, row))
                        break
    return mism, n, decided
