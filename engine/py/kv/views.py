"""Slice views: normal form of a slice-valued term as (root, offset, count)."""
from . import sym
from .sym import I


def ptr_base(p):
    """pointer term -> (root reference term, element offset term, mutable?) or None"""
    off = I(0)
    while True:
        k = p[0]
        if k == "ptr_add":
            off = p[2] if off == I(0) else sym.mk_bin("Add", p[2], off)
            p = p[1]
            continue
        if k == "cast" and p[1] == "ptr2ptr":
            # element-type casts are judged by the caller (array/chunk casts); keep walking
            return None if p[3][0] != "as_ptr" and p[3][0] != "as_mut_ptr" else ("cast", p[2], ptr_base(p[3]), off)
        if k == "as_ptr":
            return (p[1], off, False)
        if k == "as_mut_ptr":
            return (p[1], off, True)
        return None


def is_static_empty(t):
    """`&[]` / `&mut []` / "" after unsizing"""
    if t[0] == "cast" and t[1].startswith("coerce:Unsize"):
        t = t[3]
    if t[0] == "ref" and t[1][0] == "agg" and t[1][1] == "array" and len(t[1]) == 2:
        return True
    if t[0] == "lit" and len(t[1]) == 0:
        return True
    return False


def view(t):
    """-> ('view', root, off, count, mut) | ('whole', root) | ('empty',) | None"""
    if is_static_empty(t):
        return ("empty",)
    if t[0] in ("raw_parts", "raw_parts_mut"):
        b = ptr_base(t[1])
        if b is None or b[0] == "cast":
            return None
        root, off, mut = b
        return ("view", root, off, t[2], t[0] == "raw_parts_mut")
    if t[0] in ("p", "L"):
        return ("whole", t)
    return None
