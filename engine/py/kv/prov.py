"""D1 — slice provenance / cut kinds.

Abstract value of a slice-like reference: a set of (root, kind) pairs, kind in
Whole < {Prefix, Suffix} < Middle, root = a parameter (or a field of a by-value
struct parameter), 'static-empty', 'static' (non-empty literal) or 'unknown'.
Aggregates (tuples, Option/Result payloads, iterator structs) carry one abstract
value per field.  Loop-free functions are summarised precisely from their gated
path terms (raw-parts views are classified by offset/count); functions with
loops by a forward dataflow fixpoint that uses the callee summaries.
"""
from . import sym, views
from .mir import strip_generics

WHOLE, PREFIX, SUFFIX, MIDDLE = "Whole", "Prefix", "Suffix", "Middle"
_RANK = {WHOLE: 0, PREFIX: 1, SUFFIX: 1, MIDDLE: 2}


def lub(a, b):
    if a == b:
        return a
    if a == WHOLE:
        return b
    if b == WHOLE:
        return a
    return MIDDLE


def compose(outer, inner):
    """kind of (inner cut applied to a value that is an `outer` cut of the root)"""
    return lub(outer, inner)


TOP = ("T",)


def S(*pairs):
    return ("S", frozenset(pairs))


def is_root_ty(ty):
    """types whose storage a returned slice may point into: slices, str, arrays, CStr (by reference or by value field)"""
    t = ty.strip()
    if is_slice_ty(t):
        return True
    if t.startswith("&"):
        t = t[1:].strip()
        if t.startswith("'"):
            t = t.split(" ", 1)[1] if " " in t else ""
        if t.startswith("mut "):
            t = t[4:]
    t = t.strip()
    return t.startswith("[") or t == "core::ffi::CStr" or t == "std::ffi::CStr"


def is_slice_ty(ty):
    t = ty.strip()
    if not t.startswith("&"):
        return False
    t = t[1:].strip()
    if t.startswith("'"):
        t = t.split(" ", 1)[1] if " " in t else ""
    if t.startswith("mut "):
        t = t[4:]
    t = t.strip()
    return t == "str" or t.startswith("[") and not t.rstrip("]").count(";") or t.startswith("[") and t.endswith("]") and ";" not in t


def join(a, b):
    if a is None:
        return b
    if b is None:
        return a
    if a == TOP or b == TOP:
        return TOP
    if a[0] == "S" and b[0] == "S":
        d = {}
        for r, k in list(a[1]) + list(b[1]):
            d[r] = lub(d[r], k) if r in d else k
        return ("S", frozenset(d.items()))
    if a[0] == "A" and b[0] == "A":
        da, db = dict(a[1]), dict(b[1])
        out = {}
        for k in set(da) | set(db):
            out[k] = join(da.get(k), db.get(k))
        return ("A", tuple(sorted(out.items(), key=repr)))
    return TOP


def apply_kind(v, kind):
    if v is None:
        return None
    if v == TOP:
        return TOP
    if v[0] == "S":
        return ("S", frozenset((r, compose(k, kind)) for r, k in v[1]))
    return TOP


def agg_get(v, key):
    if v is None or v == TOP:
        return v
    if v[0] == "A":
        d = dict(v[1])
        if key in d:
            return d[key]
        # a field read with unknown variant: try any variant
        for (var, i), x in d.items():
            if i == key[1] and (key[0] is None or var is None):
                return x
        return None
    return None


def agg_set(v, key, x):
    d = dict(v[1]) if (v is not None and v != TOP and v[0] == "A") else {}
    d[key] = x
    return ("A", tuple(sorted(d.items(), key=repr)))


def subst(v, argvals):
    """instantiate a summary (roots ('p', i) / ('pf', i, path)) with the caller's abstract arguments"""
    if v is None or v == TOP:
        return v
    if v[0] == "A":
        return ("A", tuple((k, subst(x, argvals)) for k, x in v[1]))
    out = None
    for r, k in v[1]:
        if isinstance(r, tuple) and r[0] == "p":
            a = argvals.get(r[1])
            for key in r[2:]:
                a = agg_get(a, key)
            if a is None:
                a = S(("unknown", WHOLE))
            out = join(out, apply_kind(a, k))
        else:
            out = join(out, S((r, k)))
    return out


def show(v):
    if v is None:
        return "-"
    if v == TOP:
        return "T"
    if v[0] == "S":
        return "{" + ", ".join("%s:%s" % (k, _show_root(r)) for r, k in sorted(v[1], key=repr)) + "}"
    return "(" + ", ".join("%s=%s" % ("%s.%s" % k if k[0] is not None else k[1], show(x)) for k, x in v[1]) + ")"


def _show_root(r):
    if isinstance(r, tuple) and r[0] == "p":
        return "p%d" % r[1] + "".join(".%s" % (k[1],) for k in r[2:])
    return str(r)


RAW_PARTS = {"core::slice::from_raw_parts", "core::slice::raw::from_raw_parts", "core::slice::from_raw_parts_mut",
             "core::slice::raw::from_raw_parts_mut", "core::ptr::slice_from_raw_parts_mut", "core::ptr::slice_from_raw_parts"}
STD_SAME = {
    "core::ffi::CStr::as_ptr", "core::ffi::c_str::CStr::as_ptr", "core::ptr::const_ptr::<impl *const T>::cast",
    "core::ptr::mut_ptr::<impl *mut T>::cast", "core::ptr::const_ptr::<impl *const T>::add", "core::ptr::mut_ptr::<impl *mut T>::add",
    "core::ptr::const_ptr::<impl *const T>::offset", "core::ptr::mut_ptr::<impl *mut T>::offset",
    "core::array::<impl [T; N]>::as_ptr", "core::array::<impl [T; N]>::as_mut_ptr", "core::array::<impl [T; N]>::as_slice",
    "core::str::<impl str>::as_bytes", "core::str::from_utf8_unchecked", "core::str::converts::from_utf8_unchecked",
    "konst_kernel::string::__from_u8_subslice_of_str", "core::str::from_utf8_unchecked_mut",
    "core::slice::<impl [T]>::as_ptr", "core::slice::<impl [T]>::as_mut_ptr", "core::str::<impl str>::as_ptr",
    "core::mem::transmute", "core::intrinsics::transmute",
}
STD_RESULT_OK = {"core::str::from_utf8", "core::str::converts::from_utf8"}


class Prov:
    def __init__(self, prog):
        self.prog = prog
        self.memo = {}
        self.stack = set()
        self._cur = None

    # ---- summaries -------------------------------------------------------------
    def summary(self, body):
        if body.raw in self.memo:
            return self.memo[body.raw]
        if body.raw in self.stack:
            return TOP
        self.stack.add(body.raw)
        try:
            v = None
            done = False
            if not body.loops():
                try:
                    v = self._termflow(body)
                    done = True
                except (sym.TooManyPaths, RecursionError):
                    done = False
            if not done:
                v = self._dataflow(body)
        finally:
            self.stack.discard(body.raw)
        self.memo[body.raw] = v
        return v

    def callee_summary(self, callee, argvals):
        path = sym.core_path(strip_generics(callee["path"]))
        if path in STD_SAME:
            return argvals.get(1)
        if path in RAW_PARTS:
            # some sub-range of whatever the pointer was derived from (in-bounds-ness is the RAW obligation)
            return apply_kind(argvals.get(1), MIDDLE)
        if path in STD_RESULT_OK:
            return ("A", (((0, 0), argvals.get(1)),))
        b = self.prog.by_raw(callee["raw"])
        if b is None:
            return None
        s = self.summary(b)
        return subst(s, argvals)

    # ---- loop-free bodies: classify the returned terms ---------------------------
    def _termflow(self, body):
        paths = sym.paths_of(body, self.prog, max_paths=600)
        out = None
        self._cur = body
        for p in paths:
            if p.kind == "return":
                out = join(out, self.classify_term(p.value))
        return out

    def classify_term(self, t):
        if not isinstance(t, tuple) or not t:
            return None
        k = t[0]
        if k == "p":
            ty = self._cur.local_ty(t[1]) if self._cur is not None and t[1] < len(self._cur.locals) else "&[T]"
            if is_root_ty(ty):
                return S((("p", t[1]), WHOLE))
            return ("A", ((("__param__", t[1]), None),))
        if k in ("as_bytes", "utf8_unchecked", "as_ptr", "as_mut_ptr", "ptr_add"):
            return self.classify_term(t[1])
        if k == "lit":
            return S(("static-empty", WHOLE)) if len(t[1]) == 0 else S(("static", WHOLE))
        if views.is_static_empty(t):
            return S(("static-empty", WHOLE))
        if k == "cast":
            return self.classify_term(t[3])
        if k in ("raw_parts", "raw_parts_mut"):
            v = views.view(t)
            if v is None or v[0] != "view":
                # pointer not of the as_ptr(+offset) form: still a sub-range of whatever it was derived from
                base = self.classify_term(t[1])
                return apply_kind(base, MIDDLE) if base is not None else TOP
            base = self.classify_term(v[1])
            off, cnt = v[2], v[3]
            ln = sym.mk_len(v[1])
            if off == sym.I(0) and cnt == ln:
                kind = WHOLE
            elif off == sym.I(0):
                kind = PREFIX
            elif cnt == sym.mk_bin("Sub", ln, off):
                kind = SUFFIX
            else:
                kind = MIDDLE
            return apply_kind(base, kind)
        if k == "ref":
            x = t[1]
            if x[0] == "subslice":
                base = self.classify_term(sym.mk_ref(x[1]))
                fr, to, fe = x[2], x[3], x[4]
                if fe:
                    kind = MIDDLE if (fr and to) else SUFFIX if fr else PREFIX if to else WHOLE
                else:
                    kind = MIDDLE
                return apply_kind(base, kind)
            if x[0] == "agg" and x[1] == "array":
                return S(("static-empty", WHOLE)) if len(x) == 2 else S(("static", WHOLE))
            return self.classify_term(x) if x[0] in ("field", "vfield", "upd") else None
        if k == "deref":
            return self.classify_term(t[1])
        if k == "call":
            path = t[1]
            args = {i + 1: self.classify_term(a) for i, a in enumerate(t[3:])}
            path = sym.core_path(path)
            if path in STD_SAME:
                return args.get(1)
            if path in RAW_PARTS:
                return apply_kind(args.get(1), MIDDLE)
            if path in STD_RESULT_OK:
                return ("A", (((0, 0), args.get(1)),))
            c = self.prog.by_key.get(path, [])
            if len(c) != 1:
                return None
            cur = self._cur
            sm = self.summary(c[0])
            self._cur = cur
            return subst(sm, args)
        if k == "agg":
            name = t[1]
            var = None
            if name.startswith("adt:") and "#" in name:
                var = int(name.split("#")[1].split("@")[0])
            items = []
            for i, x in enumerate(t[2:]):
                v = self.classify_term(x)
                if v is not None:
                    items.append(((var, i), v))
            return ("A", tuple(items))
        if k == "vfield":
            return agg_get(self.classify_term(t[1]), (t[2], t[3]))
        if k == "field":
            return agg_get(self.classify_term(t[1]), (None, t[2]))
        if k == "upd":
            base = self.classify_term(t[1])
            return agg_set(base, t[2], self.classify_term(t[3]))
        return None

    # ---- per-body dataflow -----------------------------------------------------
    def _param_val(self, body, l):
        ty = body.local_ty(l)
        if is_root_ty(ty):
            return S((("p", l), WHOLE))
        return ("PARAM", l)

    def _read(self, body, st, p):
        l = p["l"]
        v = st.get(l)
        variant = None
        root_path = None
        if v is not None and v != TOP and v[0] == "PARAM":
            root_path = (v[1],)
            v = None
        for pe in p["p"]:
            k = pe["k"]
            if k == "deref":
                continue
            if k == "downcast":
                variant = pe["v"]
                continue
            if k == "field":
                key = (variant, pe["i"])
                variant = None
                if root_path is not None:
                    root_path = root_path + (key,)
                    if is_root_ty(pe.get("ty", "")):
                        return S((("p", root_path[0]) + root_path[1:], WHOLE))
                    continue
                v = agg_get(v, key)
                continue
            if k == "subslice":
                if pe["from_end"]:
                    kind = WHOLE
                    if pe["from"] > 0 and pe["to"] > 0:
                        kind = MIDDLE
                    elif pe["from"] > 0:
                        kind = SUFFIX
                    elif pe["to"] > 0:
                        kind = PREFIX
                else:
                    kind = MIDDLE
                v = apply_kind(v, kind)
                continue
            if k in ("index", "cidx"):
                return None
            return TOP if v is not None else None
        if root_path is not None:
            return ("PARAM",) + root_path if len(root_path) == 1 else ("PARAMF",) + root_path
        return v

    def _operand(self, body, st, o):
        k = o["k"]
        if k in ("copy", "move"):
            return self._read(body, st, o["place"])
        if k == "const":
            if "bytes" in o:
                return S(("static-empty", WHOLE)) if len(o["bytes"]) == 0 else S(("static", WHOLE))
            if "promoted" in o:
                pb = self.prog.promoted.get((body.raw, o["promoted"]))
                if pb is not None:
                    return self._promoted(pb)
                return S(("static", WHOLE))
            if is_slice_ty(o["ty"]):
                return S(("static", WHOLE))
        return None

    def _promoted(self, pb):
        # &[] / "" / &[..non-empty..]
        for b in pb.blocks:
            for st in b["stmts"]:
                if st["k"] == "assign" and st["rv"]["k"] == "aggregate" and st["rv"]["agg"] == "array":
                    return S(("static-empty", WHOLE)) if not st["rv"]["ops"] else S(("static", WHOLE))
                if st["k"] == "assign" and st["rv"]["k"] == "use" and st["rv"]["op"]["k"] == "const" and "bytes" in st["rv"]["op"]:
                    return S(("static-empty", WHOLE)) if not st["rv"]["op"]["bytes"] else S(("static", WHOLE))
        return S(("static", WHOLE))

    def _rvalue(self, body, st, r):
        k = r["k"]
        if k == "use":
            return self._operand(body, st, r["op"])
        if k in ("ref", "rawptr"):
            return self._read(body, st, r["place"])
        if k == "cast":
            return self._operand(body, st, r["op"])
        if k == "aggregate":
            if r["agg"] in ("tuple", "adt", "closure"):
                var = r.get("variant") if r["agg"] == "adt" else None
                items = []
                for i, o in enumerate(r["ops"]):
                    v = self._operand(body, st, o)
                    if v is not None:
                        if v != TOP and v[0] in ("PARAM", "PARAMF"):
                            continue
                        items.append(((var if r["agg"] == "adt" else None, i), v))
                return ("A", tuple(items))
            return None
        return None

    def _write(self, body, st, p, val):
        l = p["l"]
        projs = [pe for pe in p["p"] if pe["k"] != "deref"]
        if not projs:
            st[l] = val
            return
        cur = st.get(l)
        if cur is not None and cur != TOP and cur[0] == "PARAM":
            # materialise a by-value struct parameter lazily: unknown fields keep their param roots
            cur = ("A", ())
            st[l] = ("AP", cur, l)
        base = st.get(l)
        variant = None
        if len(projs) == 1 and projs[0]["k"] == "field":
            key = (None, projs[0]["i"])
            if base is not None and base != TOP and base[0] == "AP":
                st[l] = ("AP", agg_set(base[1], key, val), base[2])
            else:
                st[l] = agg_set(base, key, val)
            return
        if len(projs) == 2 and projs[0]["k"] == "downcast" and projs[1]["k"] == "field":
            st[l] = agg_set(base, (projs[0]["v"], projs[1]["i"]), val)
            return
        # deeper writes: give up on this local
        st[l] = TOP

    def _dataflow(self, body):
        n = len(body.blocks)
        init = {}
        for l in range(1, body.arg_count + 1):
            init[l] = self._param_val(body, l)
        states = {0: init}
        work = [0]
        ret = None
        it = 0
        while work:
            it += 1
            if it > 20000:
                return TOP
            bb = work.pop()
            st = dict(states[bb])
            blk = body.blocks[bb]
            for s in blk["stmts"]:
                if s["k"] == "assign":
                    v = self._rvalue(body, self._view(st), s["rv"])
                    self._write(body, st, s["place"], v)
            t = blk["term"]
            succs = []
            if t["k"] == "call":
                if t.get("callee") is not None and t["target"] is not None:
                    vst = self._view(st)
                    argvals = {i + 1: self._operand(body, vst, a) for i, a in enumerate(t["args"])}
                    argvals = {i: (None if (v is not None and v != TOP and v[0] in ("PARAM", "PARAMF")) else v)
                               for i, v in argvals.items()}
                    # by-value struct params passed on: expose their slice fields as roots
                    for i, a in enumerate(t["args"]):
                        v = self._operand(body, vst, a)
                        if v is not None and v != TOP and v[0] == "PARAM":
                            argvals[i + 1] = ("LAZY", v[1])
                    v = self.callee_summary(t["callee"], _LazyArgs(argvals))
                    self._write(body, st, t["dest"], v)
                elif t["target"] is not None:
                    self._write(body, st, t["dest"], None)
                if t["target"] is not None:
                    succs = [t["target"]]
            elif t["k"] == "return":
                ret = join(ret, self._view(st).get(0))
            else:
                succs = body.term_succs(t)
            for sblk in succs:
                old = states.get(sblk)
                new = dict(old) if old is not None else None
                if new is None:
                    states[sblk] = st
                    work.append(sblk)
                    continue
                changed = False
                for l, v in st.items():
                    j = self._join_local(new.get(l), v) if l in new else v
                    if l not in new or j != new[l]:
                        new[l] = j
                        changed = True
                if changed:
                    states[sblk] = new
                    if sblk not in work:
                        work.append(sblk)
        self.last_states = states
        return ret

    @staticmethod
    def _join_local(a, b):
        if a is not None and b is not None and a != TOP and b != TOP:
            if a[0] == "AP" and b[0] == "AP":
                return ("AP", join(a[1], b[1]), a[2])
            if a[0] in ("PARAM", "PARAMF", "AP") or b[0] in ("PARAM", "PARAMF", "AP"):
                if a == b:
                    return a
                # one side materialised, the other still pristine
                ap = a if a[0] == "AP" else (b if b[0] == "AP" else None)
                other = b if ap is a else a
                if ap is not None and other[0] == "PARAM":
                    # pristine fields keep param roots: join each materialised field with its param root
                    l = ap[2]
                    d = dict(ap[1][1])
                    out = {k: join(v, S((("p", l, k), WHOLE))) if (v is None or v == TOP or v[0] == "S") else v
                           for k, v in d.items()}
                    return ("AP", ("A", tuple(sorted(out.items(), key=repr))), l)
                return TOP
        return join(a, b)

    def _view(self, st):
        """reading view: AP (materialised param) reads fall back to param roots for untouched fields"""
        return _StateView(st)


class _StateView(dict):
    def __init__(self, st):
        dict.__init__(self, st)

    def get(self, l, default=None):
        v = dict.get(self, l, default)
        if v is not None and v != TOP and v[0] == "AP":
            return _APView(v[1], v[2])
        return v


def _APView(agg, l):
    # an aggregate whose missing fields are param-rooted; emulate by a dict subclass lookup in agg_get
    d = dict(agg[1])
    return ("A", tuple(sorted(list(d.items()) + [(("__param__", l), None)], key=repr)))


_orig_agg_get = agg_get


def agg_get(v, key):  # noqa: F811  (extends the earlier definition with param fall-back)
    if v is not None and v != TOP and v[0] == "S" and len(v[1]) == 1:
        # projecting further into a parameter-rooted aggregate (e.g. the payload of an `Option<&[T]>` field)
        (r, k), = tuple(v[1])
        if isinstance(r, tuple) and r[0] == "p" and k == WHOLE:
            return S((r + (key,), WHOLE))
    if v is not None and v != TOP and v[0] == "A":
        d = dict(v[1])
        pl = [k[1] for k in d if k[0] == "__param__"]
        if key in d:
            return d[key]
        if pl:
            return S((("p", pl[0], key), WHOLE))
    return _orig_agg_get(v, key)


class _LazyArgs(dict):
    """argument map where ('LAZY', l) stands for a pristine by-value struct parameter"""

    def get(self, i, default=None):
        v = dict.get(self, i, default)
        if v is not None and v != TOP and v[0] == "LAZY":
            return ("A", ((("__param__", v[1]), None),))
        return v


def classify(v, root_param):
    """kinds of a slice abstract value relative to parameter `root_param`; -> (set of kinds, other roots)"""
    kinds, others = set(), set()
    if v is None:
        return kinds, others
    if v == TOP:
        return {"T"}, others
    if v[0] == "S":
        for r, k in v[1]:
            if r == root_param:
                kinds.add(k)
            else:
                others.add(r)
    return kinds, others
