"""E4/E9 core: gated path extraction from MIR.

A body is turned into a set of *paths* from a start point (function entry or a
loop header) to an end point (return, diverging call, loop header).  Along a path
every local holds a *term* (nested tuples) over the start symbols; every branch
adds a normalised *atom* to the path condition.  Nothing is executed: terms are
built syntactically, calls are either replaced by a small structural model
(len, overflowing_sub, ...), inlined (loop-free repo functions, bounded depth) or
left as uninterpreted `call` terms.  Rules then compare the resulting decision
table with a reference table case by case (see table.py).
"""
from . import mir as _mir
from .mir import strip_generics

INT_TYS = {"u8": 8, "u16": 16, "u32": 32, "u64": 64, "u128": 128, "usize": 64,
           "i8": 8, "i16": 16, "i32": 32, "i64": 64, "i128": 128, "isize": 64}
UNSIGNED = {"u8", "u16", "u32", "u64", "u128", "usize"}


class TooManyPaths(Exception):
    pass


def I(v, ty="usize"):
    return ("int", v, ty)


TRUE = ("bool", True)
FALSE = ("bool", False)
UNIT = ("unit",)


def const_term(o):
    ty = o["ty"]
    if "fn" in o:
        return ("fnptr", strip_generics(o["fn"]["path"]))
    if "promoted" in o:
        return ("promoted", o["promoted"])
    if "bits" in o:
        bits = int(o["bits"])
        if ty == "bool":
            return ("bool", bits != 0)
        if ty == "char":
            return ("char", bits)
        if ty in INT_TYS:
            if ty not in UNSIGNED and bits >= 1 << (INT_TYS[ty] - 1):
                bits -= 1 << INT_TYS[ty]
            return ("int", bits, ty)
        return ("int", bits, ty)
    if "bytes" in o:
        return ("lit", bytes(o["bytes"]), ty)
    if "uneval" in o:
        return ("const", strip_generics(o["uneval"]), tuple(o.get("uneval_args", ())))
    if "tyconst" in o:
        return ("tyconst", o["tyconst"])
    if ty == "()":
        return UNIT
    return ("zst", ty)


# --------------------------------------------------------------------------
# term simplification
# --------------------------------------------------------------------------
def mk_ref(t):
    if t[0] == "deref":
        return t[1]
    return ("ref", t)


def mk_deref(t):
    if t[0] == "ref":
        return t[1]
    return ("deref", t)


def mk_len(r):
    """length of the slice/str behind reference term r"""
    k = r[0]
    if k == "as_bytes" or k == "utf8_unchecked" or k == "as_str_unchecked":
        return mk_len(r[1])
    if k == "raw_parts" or k == "raw_parts_mut":
        return r[2]
    if k == "lit":
        return I(len(r[1]))
    if k == "ref" and r[1][0] == "agg" and r[1][1] == "array":
        return I(len(r[1]) - 2)
    if k == "cast" and r[1].startswith("coerce:Unsize"):
        inner = r[3]
        if inner[0] == "ref" and inner[1][0] == "agg" and inner[1][1] == "array":
            return I(len(inner[1]) - 2)
        return ("len", r)
    return ("len", r)


def mk_field(t, i, variant=None):
    k = t[0]
    if k == "agg":
        if variant is None or t[1].endswith("#%d" % variant) or not t[1].startswith("adt:"):
            if 2 + i < len(t):
                return t[2 + i]
    if k == "upd":
        if t[2] == (variant, i):
            return t[3]
        return mk_field(t[1], i, variant)
    if variant is not None:
        return ("vfield", t, variant, i)
    return ("field", t, i)


_NEG = {"Lt": "Ge", "Ge": "Lt", "Le": "Gt", "Gt": "Le", "Eq": "Ne", "Ne": "Eq"}


def mk_bin(op, a, b):
    if a[0] == "int" and b[0] == "int":
        x, y = a[1], b[1]
        if op in ("Eq", "Ne", "Lt", "Le", "Gt", "Ge"):
            r = {"Eq": x == y, "Ne": x != y, "Lt": x < y, "Le": x <= y, "Gt": x > y, "Ge": x >= y}[op]
            return ("bool", r)
    if a[0] in ("char", "bool") and b[0] == a[0] and op in ("Eq", "Ne"):
        return ("bool", (a[1] == b[1]) == (op == "Eq"))
    if op in ("BitAnd", "BitOr") and a[0] == "bool" and b[0] == "bool":
        return ("bool", (a[1] and b[1]) if op == "BitAnd" else (a[1] or b[1]))
    if a[0] == "int" and b[0] == "int" and op in ("Add", "Sub", "Mul") and a[2] == b[2] == "usize":
        v = {"Add": a[1] + b[1], "Sub": a[1] - b[1], "Mul": a[1] * b[1]}[op]
        if 0 <= v < 1 << 64:
            return ("int", v, "usize")
    # x + 0, x - 0
    if op in ("Add", "Sub", "Offset") and b[0] == "int" and b[1] == 0:
        return a
    if op == "Add" and a[0] == "int" and a[1] == 0:
        return b
    if op == "Sub" and a == b and a[0] != "int":
        return ("int", 0, "usize")
    # a / n * n  is  a - a % n   (integers; one canonical spelling so that equivalent arithmetic compares equal)
    if op == "Div" and a[0] == "bin" and a[1] == "Sub" and a[3] == ("bin", "Rem", a[2], b):
        return ("bin", "Div", a[2], b)          # (x - x % n) / n = x / n
    if op == "Mul":
        for x, y in ((a, b), (b, a)):
            if x[0] == "bin" and x[1] == "Div" and x[3] == y:
                return mk_bin("Sub", x[2], ("bin", "Rem", x[2], y))
    if op in ("Add", "Sub") and (_is_addsub(a) or _is_addsub(b)):
        r = _linear(op, a, b)
        if r is not None:
            return r
    return ("bin", op, a, b)


class _NotIndexArith(Exception):
    pass


def _is_addsub(t):
    return isinstance(t, tuple) and len(t) == 4 and t[0] == "bin" and t[1] in ("Add", "Sub")


def _linear(op, a, b):
    """canonical spelling of a nested +/- expression (no overflow/underflow, the enumerator's standing assumption):
    positive atoms in first-occurrence order, then a positive constant, then the subtracted atoms, then a negative constant;
    `n - back - 1` and `n - (back + 1)` both become Sub(Sub(n, back), 1), `a - (a - r)` becomes r"""
    coef = {}
    order = []
    const = [0, None]

    def walk(t, sign):
        if _is_addsub(t):
            walk(t[2], sign)
            walk(t[3], sign if t[1] == "Add" else -sign)
        elif t[0] == "int":
            if t[2] not in ("usize", "_"):
                raise _NotIndexArith()      # only index/length arithmetic is re-spelled (u8 digit values etc. keep their shape)
            const[0] += sign * t[1]
            const[1] = const[1] or t[2]
        else:
            if t not in coef:
                coef[t] = 0
                order.append(t)
            coef[t] += sign
    try:
        walk(a, 1)
        walk(b, 1 if op == "Add" else -1)
    except _NotIndexArith:
        return None
    pos = [t for t in order for _ in range(coef[t]) if coef[t] > 0]
    neg = [t for t in order for _ in range(-coef[t]) if coef[t] < 0]
    c, ty = const[0], const[1] or "usize"
    if not pos and (c < 0 or (c == 0 and neg)):
        return None
    if pos:
        acc = pos[0]
        for t in pos[1:]:
            acc = ("bin", "Add", acc, t)
        if c > 0:
            acc = ("bin", "Add", acc, ("int", c, ty))
    else:
        acc = ("int", c, ty)
    for t in neg:
        acc = ("bin", "Sub", acc, t)
    if pos and c < 0:
        acc = ("bin", "Sub", acc, ("int", -c, ty))
    return acc


def mk_index(v, idx):
    """element idx of a sub-view built from raw parts is element off+idx of the slice the view was cut from
    (`sub[0]` with `sub = &bytes[from..]` is `bytes[from]`)"""
    if v[0] == "deref" and isinstance(v[1], tuple) and v[1] and v[1][0] in ("raw_parts", "raw_parts_mut"):
        ptr = v[1][1]
        off = ("int", 0, "usize")
        if ptr[0] == "ptr_add":
            ptr, off = ptr[1], ptr[2]
        if ptr[0] in ("as_ptr", "as_mut_ptr"):
            return ("index", ("deref", ptr[1]), mk_bin("Add", off, idx))
    return ("index", v, idx)


def mk_not(t):
    if t[0] == "bool":
        return ("bool", not t[1])
    if t[0] == "bin" and t[1] in _NEG:
        return ("bin", _NEG[t[1]], t[2], t[3])
    if t[0] == "un" and t[1] == "Not":
        return t[2]
    return ("un", "Not", t)


# --------------------------------------------------------------------------
# atoms: normal form of branch conditions
# --------------------------------------------------------------------------
def atom_of(t, truth):
    """normalised atom for `bool term t == truth`; returns ('const', bool) when decided"""
    if t[0] == "bool":
        return ("const", t[1] == truth)
    if t[0] == "un" and t[1] == "Not":
        return atom_of(t[2], not truth)
    if t[0] == "bin" and t[1] in _NEG:
        op, a, b = t[1], t[2], t[3]
        if not truth:
            op = _NEG[op]
        # a comparison of `(cond) as uN` with a constant is a statement about cond: decide it on the two values the cast can have
        for x, c, flip in ((a, b, False), (b, a, True)):
            if x[0] == "cast" and x[1] == "int2int" and c[0] == "int" and _is_bool_term(x[3]):
                def cmp_(v):
                    l, r = (c[1], v) if flip else (v, c[1])
                    return {"Lt": l < r, "Le": l <= r, "Gt": l > r, "Ge": l >= r, "Eq": l == r, "Ne": l != r}[op]
                t0, t1 = cmp_(0), cmp_(1)
                if t0 == t1:
                    return ("const", t0)
                return atom_of(x[3], t1)
        if op == "Lt":
            return _succ_norm(("lt", a, b))
        if op == "Le":
            return _succ_norm(("le", a, b))
        if op == "Gt":
            return _succ_norm(("lt", b, a))
        if op == "Ge":
            return _succ_norm(("le", b, a))
        return eq_atom("eq" if op == "Eq" else "ne", a, b)
    return ("holds" if truth else "nholds", t)


def _is_bool_term(t):
    return t[0] == "bool" or (t[0] == "bin" and t[1] in _NEG) or (t[0] == "un" and t[1] == "Not" and _is_bool_term(t[2]))


def eq_atom(kind, a, b):
    """`x - y == 0` is `x == y` (no underflow, the standing assumption): one spelling for both"""
    for u, v in ((a, b), (b, a)):
        if v[0] == "int" and v[1] == 0 and isinstance(u, tuple) and len(u) == 4 and u[0] == "bin" and u[1] == "Sub" \
                and not (u[3][0] == "int"):
            a, b = u[2], u[3]
            break
    x, y = sorted([a, b], key=repr)
    return (kind, x, y)


def _plus_one(t):
    if isinstance(t, tuple) and len(t) == 4 and t[0] == "bin" and t[1] == "Add":
        if t[3][0] == "int" and t[3][1] == 1:
            return t[2]
        if t[2][0] == "int" and t[2][1] == 1:
            return t[3]
    return None


def _const_part(t):
    """the constant summand of a (canonically spelled) +/- expression: `a + 1 - b` -> 1"""
    c = 0
    while _is_addsub(t):
        if t[3][0] == "int":
            c += t[3][1] if t[1] == "Add" else -t[3][1]
        t = t[2]
    return c


def _succ_norm(a):
    """integers, no overflow (the enumerator's standing assumption): x < y+1 is x <= y, and x+1 <= y is x < y"""
    if a[0] == "lt":
        y = _plus_one(a[2])
        if y is not None:
            return ("le", a[1], y)
        if _const_part(a[2]) >= 1:
            return ("le", a[1], mk_bin("Sub", a[2], ("int", 1, "usize")))
    if a[0] == "le":
        x = _plus_one(a[1])
        if x is not None:
            return ("lt", x, a[2])
        if _const_part(a[1]) >= 1:
            return ("lt", mk_bin("Sub", a[1], ("int", 1, "usize")), a[2])
    return a


def atom_neg(a):
    k = a[0]
    if k == "lt":
        return ("le", a[2], a[1])
    if k == "le":
        return ("lt", a[2], a[1])
    if k == "eq":
        return ("ne", a[1], a[2])
    if k == "ne":
        return ("eq", a[1], a[2])
    if k == "holds":
        return ("nholds", a[1])
    if k == "nholds":
        return ("holds", a[1])
    if k == "is":
        return ("isnot", a[1], a[2])
    if k == "isnot":
        return ("is", a[1], a[2])
    if k == "in":
        return ("notin", a[1], a[2])
    if k == "notin":
        return ("in", a[1], a[2])
    if k == "notin_variants":
        return ("in_variants", a[1], a[2])
    if k == "in_variants":
        return ("notin_variants", a[1], a[2])
    raise ValueError(a)


def contradicts(conds, atom):
    """cheap syntactic infeasibility test (full feasibility is decided per case later)"""
    if atom[0] == "const":
        return not atom[1]
    neg = atom_neg(atom)
    if neg in conds:
        return True
    k = atom[0]
    if k == "is":
        for c in conds:
            if c[0] == "is" and c[1] == atom[1] and c[2] != atom[2]:
                return True
    if k == "isnot":
        pass
    if k == "in":
        for c in conds:
            if c[0] == "in" and c[1] == atom[1] and not (set(c[2]) & set(atom[2])):
                return True
            if c[0] == "notin" and c[1] == atom[1] and set(atom[2]) <= set(c[2]):
                return True
    if k == "notin":
        for c in conds:
            if c[0] == "in" and c[1] == atom[1] and set(c[2]) <= set(atom[2]):
                return True
    if k == "lt":
        if ("lt", atom[2], atom[1]) in conds or ("eq",) + tuple(sorted([atom[1], atom[2]], key=repr)) in conds:
            return True
    if k == "eq":
        if ("lt", atom[1], atom[2]) in conds or ("lt", atom[2], atom[1]) in conds:
            return True
    return False


# --------------------------------------------------------------------------
# Path result
# --------------------------------------------------------------------------
class Path:
    __slots__ = ("conds", "kind", "value", "events", "env", "heap", "end", "blocks", "assumed")

    def __init__(self, conds, kind, value, events, env, heap, end, blocks, assumed):
        self.conds = conds      # tuple of atoms in branch order
        self.kind = kind        # 'return' | 'panic' | 'cut' | 'unreachable'
        self.value = value      # return value term / panic descriptor / header bb
        self.events = events    # tuple of ('call', path, args, result-term) for uninterpreted effects
        self.env = env          # final local -> term (for 'cut': the loop-carried state)
        self.heap = heap        # reference-term -> pointee value (writes through &mut params)
        self.end = end          # block id where the path ended
        self.blocks = blocks    # block trace
        self.assumed = assumed  # assumptions taken (e.g. 'no-overflow')

    def __repr__(self):
        return "Path(%s if %s)" % (show(self.value), " & ".join(show_atom(c) for c in self.conds))


def show(t, depth=0):
    if not isinstance(t, tuple):
        return repr(t)
    if not t:
        return "()"
    k = t[0]
    if k == "p":
        return "p%d" % t[1]
    if k == "L":
        return "L%d" % t[1]
    if k == "int":
        return "%d%s" % (t[1], "" if t[2] == "usize" else t[2])
    if k == "bool":
        return "true" if t[1] else "false"
    if k == "char":
        return "'\\u{%x}'" % t[1]
    if k == "unit":
        return "()"
    if k == "lit":
        return repr(t[1])
    if k == "call":
        return "%s(%s)" % (t[1].split("::")[-1] if depth > 2 else t[1], ", ".join(show(a, depth + 1) for a in t[3:]))
    if k == "bin":
        return "%s(%s, %s)" % (t[1], show(t[2], depth + 1), show(t[3], depth + 1))
    if k == "agg":
        return "%s{%s}" % (t[1].replace("adt:", ""), ", ".join(show(a, depth + 1) for a in t[2:]))
    return "%s(%s)" % (k, ", ".join(show(a, depth + 1) if isinstance(a, tuple) else repr(a) for a in t[1:]))


def show_atom(a):
    k = a[0]
    if k in ("lt", "le", "eq", "ne"):
        op = {"lt": "<", "le": "<=", "eq": "==", "ne": "!="}[k]
        return "%s %s %s" % (show(a[1]), op, show(a[2]))
    if k in ("is", "isnot"):
        return "%s %s variant %s" % (show(a[1]), k, a[2])
    if k in ("in", "notin"):
        return "%s %s %s" % (show(a[1]), k, list(a[2]))
    return "%s(%s)" % (k, show(a[1]) if len(a) > 1 and isinstance(a[1], tuple) else a[1:])


# --------------------------------------------------------------------------
# call models
# --------------------------------------------------------------------------
IDENTITY_CALLS = {
    "typewit::type_eq::<impl typewit::TypeEq<L, R>>::to_right": -1,
    "typewit::type_eq::<impl typewit::TypeEq<L, R>>::to_left": -1,
    "typewit::type_eq::<impl typewit::TypeEq<L, R>>::reachability_hint": -1,
    "typewit::type_eq::<impl typewit::TypeEq<L, R>>::in_ref": 0,
    "typewit::type_eq::<impl typewit::TypeEq<L, R>>::in_mut": 0,
    "typewit::type_eq::<impl typewit::TypeEq<L, R>>::flip": 0,
    "typewit::TypeEq::to_right": -1, "typewit::TypeEq::to_left": -1,
    "typewit::type_eq::TypeEq::to_right": -1, "typewit::type_eq::TypeEq::to_left": -1,
}


def _is_unsigned_num(path, name):
    for t in UNSIGNED:
        if path == "core::num::<impl %s>::%s" % (t, name):
            return t
    return None


def _is_signed_num(path, name):
    for t in INT_TYS:
        if t not in UNSIGNED and path == "core::num::<impl %s>::%s" % (t, name):
            return t
    return None


def model_call(path, args):
    """-> None (no model) or list of (extra_atoms, value) alternatives"""
    if path in ("core::option::Option::is_none", "core::option::Option::is_some", "core::result::Result::is_ok", "core::result::Result::is_err") \
            and len(args) == 1 and args[0][0] == "ref":
        # a test of the discriminant (Option: None = 0, Some = 1; Result: Ok = 0, Err = 1)
        x = args[0][1]
        zero_is_true = path.endswith(("is_none", "is_ok"))
        return [((("is", x, 0),), ("bool", zero_is_true)), ((("is", x, 1),), ("bool", not zero_is_true))]
    if path in ("core::slice::<impl [T]>::len", "core::str::<impl str>::len"):
        return [((), mk_len(args[0]))]
    if path in ("core::slice::<impl [T]>::is_empty", "core::str::<impl str>::is_empty"):
        return [((), mk_bin("Eq", mk_len(args[0]), I(0)))]
    if path == "core::str::<impl str>::as_bytes":
        a = args[0]
        if a[0] in ("utf8_unchecked", "as_str_unchecked"):
            return [((), a[1])]
        return [((), ("as_bytes", a))]
    if path in ("core::str::from_utf8_unchecked", "core::str::converts::from_utf8_unchecked"):
        a = args[0]
        if a[0] == "as_bytes":
            return [((), a[1])]
        return [((), ("utf8_unchecked", a))]
    if path in ("core::slice::<impl [T]>::as_ptr", "core::str::<impl str>::as_ptr"):
        if args[0][0] in ("raw_parts", "raw_parts_mut"):
            return [((), args[0][1])]
        return [((), ("as_ptr", args[0]))]
    if path in ("core::slice::<impl [T]>::as_mut_ptr",):
        if args[0][0] == "raw_parts_mut":
            return [((), args[0][1])]
        return [((), ("as_mut_ptr", args[0]))]
    if path in ("core::ptr::const_ptr::<impl *const T>::offset", "core::ptr::mut_ptr::<impl *mut T>::offset",
                "core::ptr::const_ptr::<impl *const T>::add", "core::ptr::mut_ptr::<impl *mut T>::add"):
        n = args[1]
        if n[0] == "cast" and n[1] == "int2int":
            n = n[3]
        if n[0] == "int" and n[1] == 0:
            return [((), args[0])]
        return [((), ("ptr_add", args[0], n))]
    if path in ("core::slice::from_raw_parts", "core::slice::raw::from_raw_parts"):
        return [((), ("raw_parts", args[0], args[1]))]
    if path in ("core::slice::from_raw_parts_mut", "core::slice::raw::from_raw_parts_mut"):
        return [((), ("raw_parts_mut", args[0], args[1]))]
    t = _is_unsigned_num(path, "overflowing_sub")
    if t:
        return [((), ("agg", "tuple", mk_bin("Sub", args[0], args[1]), mk_bin("Lt", args[0], args[1])))]
    t = _is_signed_num(path, "overflowing_sub")
    if t:
        return [((), ("agg", "tuple", mk_bin("Sub", args[0], args[1]), ("ovf", "Sub", args[0], args[1])))]
    t = _is_unsigned_num(path, "checked_sub")
    if t:
        return [((atom_of(mk_bin("Ge", args[0], args[1]), True),),
                 ("agg", "adt:core::option::Option::Some#1", mk_bin("Sub", args[0], args[1]))),
                ((atom_of(mk_bin("Lt", args[0], args[1]), True),),
                 ("agg", "adt:core::option::Option::None#0"))]
    t = _is_unsigned_num(path, "saturating_sub")
    if t:
        return [((), ("bin", "SatSub", args[0], args[1]))]
    for nm, op in (("overflowing_add", "Add"), ("overflowing_mul", "Mul")):
        t = _is_unsigned_num(path, nm) or _is_signed_num(path, nm)
        if t:
            return [((), ("agg", "tuple", mk_bin(op, args[0], args[1]), ("ovf", op, args[0], args[1])))]
    for nm, op in (("checked_add", "Add"), ("checked_mul", "Mul")):
        t = _is_unsigned_num(path, nm) or _is_signed_num(path, nm)
        if t:
            flag = ("ovf", op, args[0], args[1])
            return [((("nholds", flag),), ("agg", "adt:core::option::Option::Some#1", mk_bin(op, args[0], args[1]))),
                    ((("holds", flag),), ("agg", "adt:core::option::Option::None#0"))]
    for nm, op in (("wrapping_add", "Add"), ("wrapping_sub", "Sub")):
        t = _is_unsigned_num(path, nm)
        if t:
            return [((), ("bin", "Wrapping" + op, args[0], args[1]))]
    if path in IDENTITY_CALLS:
        return [((), args[IDENTITY_CALLS[path]])]
    return None


# --------------------------------------------------------------------------
# the path enumerator
# --------------------------------------------------------------------------
class Options:
    def __init__(self, program=None, inline=None, opaque=(), max_depth=4, max_paths=4000,
                 assume_no_overflow=True, keep_bounds_panics=True, models=None, inline_all_loopfree=False,
                 stop_at=None):
        self.program = program
        self.inline = set(inline or ())       # stripped paths that may be inlined
        self.opaque = set(opaque)              # stripped paths never inlined
        self.max_depth = max_depth
        self.max_paths = max_paths
        self.assume_no_overflow = assume_no_overflow
        self.keep_bounds_panics = keep_bounds_panics
        self.models = models or {}
        self.inline_all_loopfree = inline_all_loopfree
        self.stop_at = stop_at


class Enumerator:
    def __init__(self, body, opts, depth=0):
        self.body = body
        self.opts = opts
        self.depth = depth
        self.paths = []
        self.headers = set(body.loops().keys())
        _mir.TOUCHED.add(body.key)

    # ---- reading / writing places ----------------------------------------
    def read_local(self, st, l):
        env = st["env"]
        if l in env:
            return env[l]
        return st["sym"](l)

    def resolve_addr(self, st, t):
        """snapshot ('addr', l, projs) into a value-level reference"""
        if t[0] == "addr":
            v = self.read_local(st, t[1])
            for pe in t[2]:
                v = self.project(st, v, pe)
            return mk_ref(self.snap(st, v))
        return t

    def snap(self, st, t):
        """replace addr-terms inside t by value-level refs (when a value escapes)"""
        if not isinstance(t, tuple) or not t:
            return t
        if t[0] == "addr":
            return self.resolve_addr(st, t)
        if t[0] in ("int", "bool", "char", "p", "L", "lit", "unit"):
            return t
        return tuple(self.snap(st, x) if isinstance(x, tuple) else x for x in t)

    def project(self, st, v, pe):
        if isinstance(pe, tuple):
            pe = dict(pe)
        k = pe["k"]
        if k == "deref":
            if v[0] == "addr":
                x = self.read_local(st, v[1])
                for q in v[2]:
                    x = self.project(st, x, q)
                return x
            if v in st["heap"]:
                return st["heap"][v]
            if v[0] == "promoted":
                pv = self.eval_promoted(v[1])
                if pv is not None:
                    return mk_deref(pv)
            return mk_deref(v)
        if k == "field":
            variant = None
            if v[0] == "downcast":
                variant = v[2]
                v = v[1]
            return mk_field(v, pe["i"], variant)
        if k == "downcast":
            return ("downcast", v, pe["v"])
        if k == "index":
            return mk_index(v, self.read_local(st, pe["l"]))
        if k == "cidx":
            if v[0] == "agg" and v[1] == "array":
                n = len(v) - 2
                i = pe["offset"] if not pe["from_end"] else n - pe["offset"]
                if 0 <= i < n:
                    return v[2 + i]
            return ("cidx", v, pe["offset"], pe["from_end"])
        if k == "subslice":
            return ("subslice", v, pe["from"], pe["to"], pe["from_end"])
        return ("proj_" + k, v)

    def read_place(self, st, p):
        v = self.read_local(st, p["l"])
        for pe in p["p"]:
            v = self.project(st, v, pe)
        if v[0] == "downcast":
            v = v[1]
        return v

    def write_into(self, st, v, projs, val):
        if not projs:
            return val
        pe = projs[0]
        k = pe["k"]
        if k == "deref":
            if v[0] == "addr":
                # write through a reference to a local
                l = v[1]
                cur = self.read_local(st, l)
                newv = self.write_into(st, cur, [dict(q) for q in v[2]] + projs[1:], val)
                st["env"][l] = newv
                return v
            cur = st["heap"].get(v, mk_deref(v))
            st["heap"][v] = self.write_into(st, cur, projs[1:], val)
            return v
        if k == "field":
            cur = mk_field(v, pe["i"])
            newf = self.write_into(st, cur, projs[1:], val)
            if v[0] == "agg" and 2 + pe["i"] < len(v):
                return v[:2 + pe["i"]] + (newf,) + v[3 + pe["i"]:]
            return ("upd", v, (None, pe["i"]), newf)
        if k == "downcast":
            # write to (x as V).i
            if len(projs) > 1 and projs[1]["k"] == "field":
                i = projs[1]["i"]
                cur = mk_field(v, i, pe["v"])
                newf = self.write_into(st, cur, projs[2:], val)
                return ("upd", v, (pe["v"], i), newf)
            return ("upd", v, ("downcast", pe["v"]), val)
        if k == "index":
            idx = self.read_local(st, pe["l"])
            st["events"].append(("store", self.snap(st, v) if v[0] != "addr" else v, idx, self.snap(st, val)))
            return ("store", v, idx, self.write_into(st, ("index", v, idx), projs[1:], val))
        return ("upd", v, (k,), val)

    def write_place(self, st, p, val):
        l = p["l"]
        if not p["p"]:
            st["env"][l] = val
            return
        cur = self.read_local(st, l)
        newv = self.write_into(st, cur, p["p"], val)
        if p["p"][0]["k"] != "deref":
            st["env"][l] = newv

    def eval_promoted(self, idx):
        prog = self.opts.program
        if prog is None:
            return None
        pb = prog.promoted.get((self.body.raw, idx))
        if pb is None:
            return None
        try:
            e = Enumerator(pb, Options(program=prog, max_depth=0), self.depth + 1)
            ps = e.run()
        except Exception:
            return None
        if len(ps) == 1 and ps[0].kind == "return":
            return ps[0].value
        return None

    # ---- operands / rvalues -------------------------------------------------
    def operand(self, st, o):
        k = o["k"]
        if k in ("copy", "move"):
            return self.read_place(st, o["place"])
        if k == "const":
            t = const_term(o)
            if t[0] == "promoted":
                pv = self.eval_promoted(t[1])
                if pv is not None:
                    return pv
                return ("promoted", self.body.raw, t[1])
            return t
        return ("unk", k)

    def rvalue(self, st, r):
        k = r["k"]
        if k == "use":
            return self.operand(st, r["op"])
        if k in ("ref", "rawptr"):
            p = r["place"]
            if any(pe["k"] == "deref" for pe in p["p"]):
                v = self.read_place(st, p)
                return mk_ref(v)
            return ("addr", p["l"], tuple(_freeze(pe) for pe in p["p"]))
        if k == "cast":
            a = self.operand(st, r["op"])
            kind = r["kind"]
            if kind == "int2int" and a[0] == "int":
                to = r["to"]
                if to in INT_TYS:
                    bits = INT_TYS[to]
                    v = a[1] & ((1 << bits) - 1)
                    if to not in UNSIGNED and v >= 1 << (bits - 1):
                        v -= 1 << bits
                    return ("int", v, to)
            if kind == "ptr2ptr" and r["from"] == r["to"]:
                return a
            return ("cast", kind, r["to"], a)
        if k == "binop":
            a = self.operand(st, r["a"])
            b = self.operand(st, r["b"])
            op = r["op"]
            if op.endswith("WithOverflow"):
                base = op[:-len("WithOverflow")]
                return ("agg", "tuple", mk_bin(base, a, b), ("ovf", base, a, b))
            if op.endswith("Unchecked"):
                op = op[:-len("Unchecked")]
            if op == "Sub" and a[0] != "int":
                # the standing no-underflow assumption, made explicit: rules that must *discharge* it (C01 RAW) read it here
                ob = ("nounder", a, b)
                if ob not in st["assumed"]:
                    st["assumed"].append(ob)
            if op == "Add" and not (a[0] == "int" and b[0] == "int"):
                ob = ("noover", "Add", a, b)
                if ob not in st["assumed"]:
                    st["assumed"].append(ob)
            return mk_bin(op, a, b)
        if k == "unop":
            a = self.operand(st, r["a"])
            if r["op"] == "Not":
                return mk_not(a)
            if r["op"] == "PtrMetadata":
                return mk_len(self.resolve_addr(st, a))
            return ("un", r["op"], a)
        if k == "discr":
            v = self.read_place(st, r["place"])
            return mk_discr(v)
        if k == "aggregate":
            ops = tuple(self.operand(st, o) for o in r["ops"])
            agg = r["agg"]
            if agg == "adt":
                apath = strip_generics(r["adt"])
                if apath.startswith("std::"):
                    # witness crates name core items through std; keep one spelling
                    apath = "core::" + apath[5:]
                name = "adt:%s::%s#%d" % (apath, r["variant_name"], r["variant"])
                if "discr_bits" in r:
                    dv = int(r["discr_bits"])
                    dt = r.get("discr_ty", "isize")
                    if dt in INT_TYS and dt not in UNSIGNED and dv >= 1 << (INT_TYS[dt] - 1):
                        dv -= 1 << INT_TYS[dt]
                    DISCR[name] = dv
                if "union_field" in r:
                    name += "@%d" % r["union_field"]
                return ("agg", name) + ops
            if agg == "closure":
                return ("agg", "closure:" + strip_generics(r["closure"])) + ops
            return ("agg", agg) + ops
        if k == "repeat":
            return ("repeat", self.operand(st, r["op"]), r["n"])
        return ("unk", k)

    # ---- main loop -----------------------------------------------------------
    def run(self, start=0, sym=None, init_env=None):
        body = self.body
        if sym is None:
            def sym(l, _n=body.arg_count):
                if 1 <= l <= _n:
                    return ("p", l)
                return ("uninit", l)
        st0 = {"env": dict(init_env or {}), "heap": {}, "conds": [], "events": [], "blocks": [],
               "assumed": [], "sym": sym}
        self.start = start
        self._dfs(start, st0, first=True)
        return self.paths

    def _fork(self, st):
        return {"env": dict(st["env"]), "heap": dict(st["heap"]), "conds": list(st["conds"]),
                "events": list(st["events"]), "blocks": list(st["blocks"]), "assumed": list(st["assumed"]),
                "sym": st["sym"]}

    def _finish(self, st, kind, value, end):
        if len(self.paths) >= self.opts.max_paths:
            raise TooManyPaths(self.body.path)
        env = {l: self.snap(st, v) for l, v in st["env"].items()}
        self.paths.append(Path(tuple(st["conds"]), kind, self.snap(st, value) if isinstance(value, tuple) else value,
                               tuple(st["events"]), env, {k: self.snap(st, v) for k, v in st["heap"].items()},
                               end, tuple(st["blocks"]), tuple(st["assumed"])))

    def _add_cond(self, st, atom):
        """returns False when the path becomes infeasible"""
        if atom[0] == "const":
            return atom[1]
        if contradicts(st["conds"], atom):
            return False
        if atom not in st["conds"]:
            st["conds"].append(atom)
        return True

    def _dfs(self, bb, st, first=False):
        body = self.body
        while True:
            if bb in self.headers and not (first and bb == self.start):
                self._finish(st, "cut", bb, bb)
                return
            if self.opts.stop_at is not None and bb in self.opts.stop_at and not first:
                self._finish(st, "stop", bb, bb)
                return
            first = False
            st["blocks"].append(bb)
            blk = body.blocks[bb]
            for s in blk["stmts"]:
                if s["k"] == "assign":
                    val = self.rvalue(st, s["rv"])
                    self.write_place(st, s["place"], val)
                elif s["k"] == "setdiscr":
                    cur = self.read_place(st, s["place"])
                    self.write_place(st, s["place"], ("setdiscr", cur, s["v"]))
            t = blk["term"]
            k = t["k"]
            if k == "goto":
                bb = t["target"]
                continue
            if k == "return":
                self._finish(st, "return", self.read_local(st, 0), bb)
                return
            if k == "unreachable":
                self._finish(st, "unreachable", None, bb)
                return
            if k == "drop":
                st["events"].append(("drop", self.snap(st, self.read_place(st, t["place"])), t["place_ty"]))
                bb = t["target"]
                continue
            if k == "assert":
                c = self.operand(st, t["cond"])
                msg = t["msg"]
                if msg.startswith("overflow") and self.opts.assume_no_overflow:
                    if "no-overflow" not in st["assumed"]:
                        st["assumed"].append("no-overflow")
                    # which operation is assumed not to overflow (rules that must discharge the assumption read it here)
                    f = c[2] if (c[0] == "un" and c[1] == "Not") else c
                    if isinstance(f, tuple) and f and f[0] == "ovf" and f[1] in ("Add", "Mul"):
                        ob = ("noover", f[1], f[2], f[3])
                        if ob not in st["assumed"]:
                            st["assumed"].append(ob)
                    bb = t["target"]
                    continue
                ok = atom_of(c, t["expected"])
                # failing side
                if not (msg == "bounds" and not self.opts.keep_bounds_panics):
                    st2 = self._fork(st)
                    if self._add_cond(st2, atom_of(c, not t["expected"])):
                        self._finish(st2, "panic", ("panic", msg), bb)
                if not self._add_cond(st, ok):
                    return
                bb = t["target"]
                continue
            if k == "switch":
                d = self.operand(st, t["discr"])
                targets = [(int(v), b) for v, b in t["targets"]]
                other = t["otherwise"]
                alts = self._switch_alts(d, t["discr_ty"], targets, other)
                live = []
                for atom, tb in alts:
                    if atom is None:
                        live.append((None, tb))
                    elif atom[0] == "const":
                        if atom[1]:
                            live.append((None, tb))
                    else:
                        live.append((atom, tb))
                if len(live) == 1 and live[0][0] is None:
                    bb = live[0][1]
                    continue
                for atom, tb in live:
                    st2 = self._fork(st)
                    if atom is None or self._add_cond(st2, atom):
                        self._dfs(tb, st2)
                return
            if k == "call":
                self._call(bb, t, st)
                return
            self._finish(st, "other", ("term", k), bb)
            return

    def _switch_alts(self, d, dty, targets, other):
        # constant discriminant
        if d[0] in ("int", "bool", "char"):
            v = d[1]
            if d[0] == "bool":
                v = 1 if v else 0
            if d[0] == "int" and v < 0 and dty in INT_TYS:
                v += 1 << INT_TYS[dty]
            for val, tb in targets:
                if val == v:
                    return [(None, tb)]
            return [(None, other)]
        if d[0] == "discr_of_agg":
            for val, tb in targets:
                if val == d[1]:
                    return [(None, tb)]
            return [(None, other)]
        if dty == "bool":
            alts = []
            for val, tb in targets:
                alts.append((atom_of(d, val != 0), tb))
            covered = {val for val, _ in targets}
            rest = {0, 1} - covered
            if len(rest) == 1:
                alts.append((atom_of(d, rest.pop() != 0), other))
            elif len(rest) == 2:
                alts.append((None, other))
            return alts
        if d[0] == "discr":
            def sconv(v):
                if dty in INT_TYS and dty not in UNSIGNED and v >= 1 << (INT_TYS[dty] - 1):
                    return v - (1 << INT_TYS[dty])
                return v
            targets = [(sconv(v), tb) for v, tb in targets]
            vals = tuple(v for v, _ in targets)
            alts = [(("is", d[1], v), tb) for v, tb in targets]
            if not self._is_unreachable(other):
                alts.append((("notin_variants", d[1], vals), other))
            return alts
        # integer / char scrutinee
        def conv(v):
            if dty in INT_TYS and dty not in UNSIGNED and v >= 1 << (INT_TYS[dty] - 1):
                return v - (1 << INT_TYS[dty])
            return v
        vals = tuple(conv(v) for v, _ in targets)
        alts = [(("in", d, (conv(v),)), tb) for v, tb in targets]
        alts.append((("notin", d, vals), other))
        return alts

    def _is_unreachable(self, bb):
        blk = self.body.blocks[bb]
        return blk["term"]["k"] == "unreachable" and not [s for s in blk["stmts"] if s["k"] == "assign"]

    def _call(self, bb, t, st):
        callee = t.get("callee")
        args = [self.operand(st, a) for a in t["args"]]
        if callee is None:
            f = self.operand(st, t["func"]) if "func" in t else ("unk", "fn")
            path = "<indirect>"
            term = ("callptr", self.snap(st, f)) + tuple(self.snap(st, a) for a in args)
            st["events"].append(("call", path, term))
            if t["target"] is None:
                self._finish(st, "panic", ("diverge", path), bb)
                return
            self.write_place(st, t["dest"], term)
            self._dfs(t["target"], st)
            return
        path = core_path(strip_generics(callee["path"]))
        gargs = tuple(callee.get("gargs", ()))
        if t["target"] is None:
            sargs = tuple(self.snap(st, a) for a in args)
            self._finish(st, "panic", ("diverge", path) + sargs, bb)
            return
        # 1. custom / builtin models
        rargs = [self.resolve_addr(st, a) for a in args]
        m = None
        if path in self.opts.models:
            m = self.opts.models[path](rargs, gargs)
        if m is None and path not in self.opts.opaque:
            m = model_call(path, rargs)
        if m is not None:
            for extra, val in m:
                st2 = self._fork(st) if len(m) > 1 else st
                ok = True
                for a in extra:
                    if not self._add_cond(st2, a):
                        ok = False
                        break
                if not ok:
                    continue
                self.write_place(st2, t["dest"], val)
                self._dfs(t["target"], st2)
            return
        # 2. inlining
        prog = self.opts.program
        if prog is not None and path not in self.opts.opaque and self.depth < self.opts.max_depth:
            cb = None
            if path in self.opts.inline or self.opts.inline_all_loopfree or (
                    callee.get("krate") in WORKSPACE and KNOWN_FNS and path not in KNOWN_FNS):
                # (a workspace function the reference tables have never heard of is a helper extracted later: look inside)
                # the raw def path is the cross-crate join key; the pretty path is the fall-back
                cb = prog.by_raw(callee.get("raw", ""))
                if cb is None:
                    c = prog.by_key.get(path, [])
                    if len(c) == 1:
                        cb = c[0]
            if cb is not None and not cb.loops() and len(cb.blocks) <= 80:
                sub = Enumerator(cb, self.opts, self.depth + 1)
                argmap = {i + 1: rargs[i] for i in range(len(rargs))}

                def sym(l, _m=argmap):
                    if l in _m:
                        return _m[l]
                    return ("uninit", l)
                try:
                    sub_paths = sub.run(sym=sym)
                except TooManyPaths:
                    sub_paths = None
                if sub_paths is not None:
                    for sp in sub_paths:
                        st2 = self._fork(st)
                        ok = True
                        for a in sp.conds:
                            if not self._add_cond(st2, a):
                                ok = False
                                break
                        if not ok:
                            continue
                        st2["events"].extend(sp.events)
                        for a in sp.assumed:
                            if a not in st2["assumed"]:
                                st2["assumed"].append(a)
                        for hk, hv in sp.heap.items():
                            st2["heap"][hk] = hv
                        if sp.kind == "return":
                            self.write_place(st2, t["dest"], sp.value)
                            self._dfs(t["target"], st2)
                        elif sp.kind == "panic":
                            self._finish(st2, "panic", sp.value, bb)
                        elif sp.kind == "unreachable":
                            self._finish(st2, "unreachable", None, bb)
                        else:
                            self._finish(st2, "other", ("inline", sp.kind), bb)
                    return
        # 3. uninterpreted
        sargs = tuple(self.snap(st, a) for a in args)
        term = ("call", path, gargs) + sargs
        st["events"].append(("call", path, term))
        # a &mut local passed to an unknown callee may be modified
        for a, ty in zip(args, t.get("arg_tys", [])):
            if a[0] == "addr" and ty.startswith("&mut") and not a[2]:
                st["env"][a[1]] = ("after", term, self.read_local(st, a[1]))
        self.write_place(st, t["dest"], term)
        self._dfs(t["target"], st)


DISCR = {}
WORKSPACE = ("konst", "konst_kernel", "konst_proc_macros")


def _load_known():
    import os
    f = os.path.join(os.path.dirname(__file__), "known_fns.txt")
    try:
        with open(f) as fh:
            return frozenset(l.split("\t")[0].strip() for l in fh if l.strip())
    except OSError:
        return frozenset()


KNOWN_FNS = _load_known()


_CORE_MODS = ("ptr", "mem", "slice", "str", "option", "result", "cmp", "num", "char", "marker", "ops", "intrinsics", "array", "ffi")


def core_path(p):
    """witness crates see core items through `std::`; use one spelling"""
    if p.startswith("std::") and p.split("::")[1] in _CORE_MODS:
        return "core::" + p[5:]
    return p


def mk_discr(v):
    if v[0] == "agg" and v[1].startswith("adt:") and "#" in v[1]:
        if v[1] in DISCR:
            return ("int", DISCR[v[1]], "isize")
        n = v[1].split("#")[1].split("@")[0]
        return ("int", int(n), "isize")
    if v[0] == "setdiscr":
        return ("int", v[2], "isize")
    return ("discr", v)


def _freeze(pe):
    return tuple(sorted((k, v) for k, v in pe.items() if k in ("k", "i", "l", "v", "offset", "from_end", "from", "to", "min_len")))


def paths_of(body, program=None, **kw):
    opts = Options(program=program, **kw)
    return Enumerator(body, opts).run()


def never_assigned_params(body):
    changed = set()
    for b in body.reachable():
        blk = body.blocks[b]
        for st in blk["stmts"]:
            if st["k"] == "assign":
                changed.add(st["place"]["l"])
                rv = st["rv"]
                if rv["k"] in ("ref", "rawptr") and rv.get("mut"):
                    changed.add(rv["place"]["l"])
        t = blk["term"]
        if t["k"] == "call":
            changed.add(t["dest"]["l"])
    return {l for l in range(1, body.arg_count + 1) if l not in changed}


def loop_relation(body, header, program=None, **kw):
    """paths from a loop header to the next cut/return; locals are symbolic ('L', n) except parameters that are
    never assigned anywhere in the body, which stay ('p', n)"""
    opts = Options(program=program, **kw)
    e = Enumerator(body, opts)
    fixed = never_assigned_params(body)

    def sym(l):
        return ("p", l) if l in fixed else ("L", l)
    return e.run(start=header, sym=sym)


# --------------------------------------------------------------------------
# summaries through loops
# --------------------------------------------------------------------------
def loop_assigned_locals(body, header):
    """locals that may change inside the natural loop of `header` (assigned, call dest, or &mut-borrowed)"""
    blocks = body.loops()[header]
    out = set()
    for b in blocks:
        blk = body.blocks[b]
        for st in blk["stmts"]:
            if st["k"] == "assign":
                out.add(st["place"]["l"])
                rv = st["rv"]
                if rv["k"] in ("ref", "rawptr") and rv.get("mut"):
                    out.add(rv["place"]["l"])
            elif st["k"] == "setdiscr":
                out.add(st["place"]["l"])
        t = blk["term"]
        if t["k"] == "call":
            out.add(t["dest"]["l"])
        if t["k"] == "drop":
            out.add(t["place"]["l"])
    return out


def through_loops(body, program=None, keep_back=False, nested=False, **kw):
    """Paths entry -> return/panic where every loop is abstracted: after a loop header is reached, execution
    resumes *at the header* with loop-modified locals replaced by fresh symbols ('L', n) and all other locals
    keeping their pre-loop terms (they are loop invariant by construction).  Loop back edges are dropped, so
    each result path describes: straight-line prefix, then "some iterations", then one exit path of the loop.
    Returns (paths, n_headers_crossed_max).  Nested / sequential loops are handled by recursion."""
    opts = Options(program=program, **kw)
    results = []
    budget = [opts.max_paths]
    # nested=True: a loop header reached from inside a loop nested in it is a back edge of the *enclosing* loop (kind
    # 'back', value = that header); symbols of a nested loop are ('L', local, header) so that they cannot be confused
    # with the enclosing loop's ('L', local); 'loop' events carry the number of path conditions collected so far.
    loops_ = body.loops() if nested else {}

    def entry_sym(l, _n=body.arg_count):
        return ("p", l) if 1 <= l <= _n else ("uninit", l)

    def run_from(start, env, conds, events, assumed, first, depth, symf=entry_sym, stack=()):
        e = Enumerator(body, opts)
        loc = dict(env)
        e.run(start=start, sym=symf, init_env=loc)
        for p in e.paths:
            budget[0] -= 1
            if budget[0] < 0:
                raise TooManyPaths(body.path)
            allc = list(conds)
            dead = False
            for c in p.conds:
                if contradicts(allc, c):
                    dead = True
                    break
                if c not in allc:
                    allc.append(c)
            if dead:
                continue
            ev = tuple(events) + p.events
            asm = tuple(dict.fromkeys(tuple(assumed) + p.assumed))
            if p.kind == "cut":
                h = p.value
                if (h == start and not first) or (nested and h in stack):
                    # back edge of the loop we are abstracting: the iteration relation, not part of the summary
                    if keep_back:
                        results.append(Path(tuple(allc), "back", h, ev, p.env, p.heap, p.end, p.blocks, asm))
                    continue
                if depth >= 6:
                    results.append(Path(tuple(allc), "other", ("loop-depth",), ev, p.env, p.heap, p.end, p.blocks, asm))
                    continue
                changed = loop_assigned_locals(body, h)
                inv_env = {l: v for l, v in p.env.items() if l not in changed}

                encl = tuple(x for x in stack + (() if first else (start,)) if h in loops_.get(x, ())) if nested else ()

                def symf2(l, _c=changed, _prev=symf, _h=h, _in=bool(encl)):
                    if l in _c:
                        return ("L", l, _h) if _in else ("L", l)
                    return _prev(l)
                pre_vals = tuple(sorted((l, p.env[l]) for l in changed if l in p.env))
                run_from(h, inv_env, allc, ev + (("loop", h, pre_vals, len(allc)),), asm, False, depth + 1, symf2, encl)
            else:
                results.append(Path(tuple(allc), p.kind, p.value, ev, p.env, p.heap, p.end, p.blocks, asm))

    run_from(0, {}, [], (), (), True, 0)
    return results


# --------------------------------------------------------------------------
# splitting symbolic boolean results into cases
# --------------------------------------------------------------------------
def bool_cases(t):
    """bool term -> list of (atoms, truth) covering all cases (short-circuit expansion of & | !)"""
    if t[0] == "bool":
        return [((), t[1])]
    if t[0] == "un" and t[1] == "Not":
        return [(a, not v) for a, v in bool_cases(t[2])]
    if t[0] == "bin" and t[1] in ("BitAnd", "BitOr"):
        out = []
        for a1, v1 in bool_cases(t[2]):
            if (t[1] == "BitAnd" and not v1) or (t[1] == "BitOr" and v1):
                out.append((a1, v1))
            else:
                for a2, v2 in bool_cases(t[3]):
                    out.append((a1 + a2, v2))
        return out
    a_t = atom_of(t, True)
    a_f = atom_of(t, False)
    return [((a_t,), True), ((a_f,), False)]


def split_bool_returns(paths):
    out = []
    for p in paths:
        v = p.value
        if p.kind == "return" and isinstance(v, tuple) and v and (
                (v[0] == "bin" and v[1] in ("Eq", "Ne", "Lt", "Le", "Gt", "Ge", "BitAnd", "BitOr")) or (v[0] == "un" and v[1] == "Not")):
            for atoms, truth in bool_cases(v):
                conds = list(p.conds)
                dead = False
                for a in atoms:
                    if a[0] == "const":
                        if not a[1]:
                            dead = True
                            break
                        continue
                    if contradicts(conds, a):
                        dead = True
                        break
                    if a not in conds:
                        conds.append(a)
                if dead:
                    continue
                out.append(Path(tuple(conds), p.kind, ("bool", truth), p.events, p.env, p.heap, p.end, p.blocks, p.assumed))
        else:
            out.append(p)
    return out
