"""Human-readable rendering of fact records (used in reports and for debugging)."""

def place(p):
    s = "_%d" % p["l"]
    for e in p["p"]:
        k = e["k"]
        if k == "deref":
            s = "(*%s)" % s
        elif k == "field":
            s = "%s.%s" % (s, e.get("name", e["i"]))
        elif k == "index":
            s = "%s[_%d]" % (s, e["l"])
        elif k == "cidx":
            s = "%s[%s%d of %d]" % (s, "-" if e["from_end"] else "", e["offset"], e["min_len"])
        elif k == "subslice":
            s = "%s[%d..%s%d]" % (s, e["from"], "-" if e["from_end"] else "", e["to"])
        elif k == "downcast":
            s = "(%s as %s)" % (s, e.get("name") or e["v"])
        else:
            s = "%s.<%s>" % (s, k)
    return s

def operand(o):
    k = o["k"]
    if k in ("copy", "move"):
        return ("move " if k == "move" else "") + place(o["place"])
    if k == "const":
        if "fn" in o:
            return "fn " + o["fn"]["path"]
        if "bits" in o:
            return "%s_%s" % (o["bits"], o["ty"])
        if "promoted" in o:
            return "promoted[%d]" % o["promoted"]
        if "bytes" in o:
            return "bytes%r" % (bytes(o["bytes"]),)
        if "uneval" in o:
            return "const " + o["uneval"]
        if "tyconst" in o:
            return "const " + o["tyconst"]
        return "const<%s>" % o["ty"]
    return "<%s>" % k

def rvalue(r):
    k = r["k"]
    if k == "use":
        return operand(r["op"])
    if k == "ref":
        return ("&mut " if r["mut"] else "&") + place(r["place"])
    if k == "rawptr":
        return ("&raw mut " if r["mut"] else "&raw const ") + place(r["place"])
    if k == "cast":
        return "%s as %s (%s)" % (operand(r["op"]), r["to"], r["kind"])
    if k == "binop":
        return "%s(%s, %s)" % (r["op"], operand(r["a"]), operand(r["b"]))
    if k == "unop":
        return "%s(%s)" % (r["op"], operand(r["a"]))
    if k == "discr":
        return "discriminant(%s)" % place(r["place"])
    if k == "aggregate":
        name = r["agg"]
        if name == "adt":
            name = "%s::%s" % (r["adt"], r["variant_name"])
        return "%s{%s}" % (name, ", ".join(operand(o) for o in r["ops"]))
    if k == "repeat":
        return "[%s; %s]" % (operand(r["op"]), r["n"])
    return "<%s>" % k

def term(t):
    k = t["k"]
    if k == "goto":
        return "goto bb%d" % t["target"]
    if k == "switch":
        return "switch(%s) [%s, otherwise: bb%d]" % (
            operand(t["discr"]), ", ".join("%s: bb%d" % (v, b) for v, b in t["targets"]), t["otherwise"])
    if k == "call":
        c = t["callee"]["path"] if t.get("callee") else "<indirect>"
        tg = t["target"]
        return "%s = %s(%s) -> %s" % (place(t["dest"]), c, ", ".join(operand(a) for a in t["args"]),
                                     "bb%d" % tg if tg is not None else "!")
    if k == "assert":
        return "assert(%s == %s, %s) -> bb%d" % (operand(t["cond"]), t["expected"], t["msg"], t["target"])
    if k == "drop":
        return "drop(%s) -> bb%d" % (place(t["place"]), t["target"])
    return k

def body(b, cleanup=False):
    out = ["fn %s [%s/%s] args=%d" % (b["path"], b["kind"], b["flavor"], b["arg_count"])]
    for i, l in enumerate(b["locals"]):
        out.append("  let _%d: %s%s" % (i, l["ty"], "  // " + l["name"] if "name" in l else ""))
    for blk in b["blocks"]:
        if blk["cleanup"] and not cleanup:
            continue
        out.append("  bb%d:" % blk["id"])
        for st in blk["stmts"]:
            if st["k"] == "assign":
                out.append("    %s = %s" % (place(st["place"]), rvalue(st["rv"])))
            elif st["k"] in ("live", "dead"):
                pass
            else:
                out.append("    <%s>" % st["k"])
        out.append("    %s    @%s" % (term(blk["term"]), blk["term"]["src"]["at"]))
    return "\n".join(out)
