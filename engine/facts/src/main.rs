// E1 — fact extractor for the konst verification harness.
//
// A rustc_private driver.  Used either as RUSTC_WORKSPACE_WRAPPER (argv[1] is
// the real rustc and is dropped) or directly as a rustc replacement for
// witness crates.  After analysis it writes ONE json file per compiled crate
// into $KONST_FACTS_OUT (named <crate>-<pid>.json) holding every MIR body with
// resolved callees, structured places/rvalues/terminators, source locations
// with macro back-traces, the ADT table and (for witness crates) the HIR
// string literals / byte slice patterns.
#![feature(rustc_private)]
#![allow(clippy::all)]

extern crate rustc_abi;
extern crate rustc_ast;
extern crate rustc_driver;
extern crate rustc_hir;
extern crate rustc_interface;
extern crate rustc_middle;
extern crate rustc_session;
extern crate rustc_span;

use rustc_driver::{Callbacks, Compilation};
use rustc_hir::def::DefKind;
use rustc_hir::def_id::{DefId, LocalDefId};
use rustc_interface::interface::Compiler;
use rustc_middle::mir::{
    self, AggregateKind, BasicBlock, Body, CastKind, Const, ConstOperand, ConstValue, Operand,
    Place, ProjectionElem, Rvalue, StatementKind, TerminatorKind,
};
use rustc_middle::ty::{self, Instance, Ty, TyCtxt, TypingEnv};
use rustc_span::Span;
use std::fmt::Write as _;

// ---------------------------------------------------------------- json ----
enum J {
    Null,
    B(bool),
    N(i128),
    S(String),
    A(Vec<J>),
    O(Vec<(&'static str, J)>),
}
fn esc(s: &str, out: &mut String) {
    out.push('"');
    for c in s.chars() {
        match c {
            '"' => out.push_str("\\\""),
            '\\' => out.push_str("\\\\"),
            '\n' => out.push_str("\\n"),
            '\r' => out.push_str("\\r"),
            '\t' => out.push_str("\\t"),
            c if (c as u32) < 0x20 => {
                let _ = write!(out, "\\u{:04x}", c as u32);
            }
            c => out.push(c),
        }
    }
    out.push('"');
}
impl J {
    fn write(&self, out: &mut String) {
        match self {
            J::Null => out.push_str("null"),
            J::B(b) => out.push_str(if *b { "true" } else { "false" }),
            J::N(n) => {
                let _ = write!(out, "{}", n);
            }
            J::S(s) => esc(s, out),
            J::A(v) => {
                out.push('[');
                for (i, x) in v.iter().enumerate() {
                    if i > 0 {
                        out.push(',');
                    }
                    x.write(out);
                }
                out.push(']');
            }
            J::O(v) => {
                out.push('{');
                for (i, (k, x)) in v.iter().enumerate() {
                    if i > 0 {
                        out.push(',');
                    }
                    esc(k, out);
                    out.push(':');
                    x.write(out);
                }
                out.push('}');
            }
        }
    }
}
fn s<T: Into<String>>(x: T) -> J {
    J::S(x.into())
}

// ------------------------------------------------------------- helpers ----
struct Cx<'tcx> {
    tcx: TyCtxt<'tcx>,
}

impl<'tcx> Cx<'tcx> {
    fn path(&self, d: DefId) -> String {
        let krate = self.tcx.crate_name(d.krate).to_string();
        let p = rustc_middle::ty::print::with_no_trimmed_paths!(self.tcx.def_path_str(d));
        if d.is_local() {
            format!("{}::{}", krate, p)
        } else {
            p
        }
    }
    fn raw_path(&self, d: DefId) -> String {
        let krate = self.tcx.crate_name(d.krate).to_string();
        format!("{}{}", krate, self.tcx.def_path(d).to_string_no_crate_verbose())
    }
    fn ty(&self, t: Ty<'tcx>) -> String {
        rustc_middle::ty::print::with_no_trimmed_paths!(format!("{}", t))
    }
    fn loc(&self, sp: Span) -> (String, i128) {
        if sp.is_dummy() {
            return ("<dummy>".into(), 0);
        }
        let sm = self.tcx.sess.source_map();
        let l = sm.lookup_char_pos(sp.lo());
        let name = format!("{}", l.file.name.prefer_local_unconditionally());
        (name, l.line as i128)
    }
    /// source info: outermost call site, own location, expansion flag, back-trace
    fn src(&self, sp: Span) -> J {
        let outer = sp.source_callsite();
        let (f, l) = self.loc(outer);
        let mut v = vec![("at", s(format!("{}:{}", f, l))), ("exp", J::B(sp.from_expansion()))];
        if sp.from_expansion() {
            let (f2, l2) = self.loc(sp);
            v.push(("own", s(format!("{}:{}", f2, l2))));
            let mut mb = Vec::new();
            for e in sp.macro_backtrace() {
                let (df, dl) = self.loc(e.def_site);
                mb.push(J::O(vec![
                    ("m", s(e.kind.descr())),
                    ("def", s(format!("{}:{}", df, dl))),
                ]));
            }
            v.push(("mb", J::A(mb)));
        }
        J::O(v)
    }

    fn fn_ref(&self, env: TypingEnv<'tcx>, did: DefId, args: ty::GenericArgsRef<'tcx>) -> J {
        let tcx = self.tcx;
        let mut v = vec![("unres", s(self.path(did)))];
        let (rd, rargs) = match Instance::try_resolve(tcx, env, did, args) {
            Ok(Some(inst)) => (inst.def_id(), inst.args),
            _ => (did, args),
        };
        v.push(("path", s(self.path(rd))));
        v.push(("raw", s(self.raw_path(rd))));
        v.push(("krate", s(tcx.crate_name(rd.krate).to_string())));
        v.push((
            "gargs",
            J::A(rargs.iter().map(|a| s(rustc_middle::ty::print::with_no_trimmed_paths!(format!("{}", a)))).collect()),
        ));
        let kind = tcx.def_kind(rd);
        let mut is_unsafe = false;
        let mut is_const = false;
        if matches!(kind, DefKind::Fn | DefKind::AssocFn) {
            is_unsafe = tcx.fn_sig(rd).skip_binder().safety().is_unsafe();
            is_const = tcx.is_const_fn(rd);
        }
        v.push(("unsafe", J::B(is_unsafe)));
        v.push(("const", J::B(is_const)));
        if let Some(i) = tcx.intrinsic(rd) {
            v.push(("intrinsic", s(i.name.to_string())));
        }
        J::O(v)
    }

    fn place(&self, body: &Body<'tcx>, p: &Place<'tcx>) -> J {
        let tcx = self.tcx;
        let mut pty = mir::PlaceTy::from_ty(body.local_decls[p.local].ty);
        let mut proj = Vec::new();
        for elem in p.projection.iter() {
            let j = match elem {
                ProjectionElem::Deref => {
                    let raw = pty.ty.is_raw_ptr();
                    J::O(vec![("k", s("deref")), ("raw", J::B(raw)), ("of", s(self.ty(pty.ty)))])
                }
                ProjectionElem::Field(f, fty) => {
                    let mut v = vec![("k", s("field")), ("i", J::N(f.index() as i128)), ("ty", s(self.ty(fty)))];
                    if let ty::Adt(adt, _) = pty.ty.kind() {
                        let vi = pty.variant_index.unwrap_or(rustc_abi::FIRST_VARIANT);
                        if vi.index() < adt.variants().len() {
                            let var = adt.variant(vi);
                            if f.index() < var.fields.len() {
                                v.push(("name", s(var.fields[f].name.to_string())));
                            }
                        }
                        v.push(("adt", s(self.path(adt.did()))));
                        if adt.is_union() {
                            v.push(("union", J::B(true)));
                        }
                    }
                    J::O(v)
                }
                ProjectionElem::Index(l) => J::O(vec![("k", s("index")), ("l", J::N(l.index() as i128))]),
                ProjectionElem::ConstantIndex { offset, min_length, from_end } => J::O(vec![
                    ("k", s("cidx")),
                    ("offset", J::N(offset as i128)),
                    ("min_len", J::N(min_length as i128)),
                    ("from_end", J::B(from_end)),
                ]),
                ProjectionElem::Subslice { from, to, from_end } => J::O(vec![
                    ("k", s("subslice")),
                    ("from", J::N(from as i128)),
                    ("to", J::N(to as i128)),
                    ("from_end", J::B(from_end)),
                ]),
                ProjectionElem::Downcast(name, vi) => J::O(vec![
                    ("k", s("downcast")),
                    ("v", J::N(vi.index() as i128)),
                    ("name", name.map(|n| s(n.to_string())).unwrap_or(J::Null)),
                ]),
                ProjectionElem::OpaqueCast(_) => J::O(vec![("k", s("opaque"))]),
                ProjectionElem::UnwrapUnsafeBinder(_) => J::O(vec![("k", s("unwrap_binder"))]),
            };
            proj.push(j);
            pty = pty.projection_ty(tcx, elem);
        }
        J::O(vec![("l", J::N(p.local.index() as i128)), ("p", J::A(proj))])
    }

    fn constant(&self, env: TypingEnv<'tcx>, c: &ConstOperand<'tcx>) -> J {
        let tcx = self.tcx;
        let ty = c.const_.ty();
        let mut v = vec![("k", s("const")), ("ty", s(self.ty(ty)))];
        if let ty::FnDef(did, args) = ty.kind() {
            v.push(("fn", self.fn_ref(env, *did, args)));
            return J::O(v);
        }
        match c.const_ {
            Const::Unevaluated(uv, _) => {
                if let Some(p) = uv.promoted {
                    v.push(("promoted", J::N(p.index() as i128)));
                    return J::O(v);
                }
                v.push(("uneval", s(self.path(uv.def))));
                v.push((
                    "uneval_args",
                    J::A(uv.args.iter().map(|a| s(rustc_middle::ty::print::with_no_trimmed_paths!(format!("{}", a)))).collect()),
                ));
            }
            Const::Ty(_, ct) => {
                v.push(("tyconst", s(format!("{}", ct))));
            }
            Const::Val(val, _) => {
                if let ConstValue::Slice { .. } = val {
                    if let Some(b) = val.try_get_slice_bytes_for_diagnostics(tcx) {
                        v.push(("bytes", J::A(b.iter().map(|x| J::N(*x as i128)).collect())));
                    }
                }
                if let ConstValue::ZeroSized = val {
                    v.push(("zst", J::B(true)));
                }
            }
        }
        let scalar_ok = ty.is_integral() || ty.is_bool() || ty.is_char();
        if scalar_ok {
            if let Some(si) = c.const_.try_eval_scalar_int(tcx, env) {
                let bits = si.to_bits(si.size());
                v.push(("bits", s(format!("{}", bits))));
                v.push(("size", J::N(si.size().bytes() as i128)));
            }
        }
        J::O(v)
    }

    fn operand(&self, env: TypingEnv<'tcx>, body: &Body<'tcx>, o: &Operand<'tcx>) -> J {
        match o {
            Operand::Copy(p) => J::O(vec![("k", s("copy")), ("place", self.place(body, p))]),
            Operand::Move(p) => J::O(vec![("k", s("move")), ("place", self.place(body, p))]),
            Operand::Constant(c) => self.constant(env, c),
            _ => J::O(vec![("k", s("runtime_checks"))]),
        }
    }

    fn rvalue(&self, env: TypingEnv<'tcx>, body: &Body<'tcx>, r: &Rvalue<'tcx>) -> J {
        match r {
            Rvalue::Use(o, ..) => J::O(vec![("k", s("use")), ("op", self.operand(env, body, o))]),
            Rvalue::Repeat(o, n) => J::O(vec![
                ("k", s("repeat")),
                ("op", self.operand(env, body, o)),
                ("n", s(format!("{}", n))),
            ]),
            Rvalue::Ref(_, bk, p) => J::O(vec![
                ("k", s("ref")),
                ("mut", J::B(matches!(bk, mir::BorrowKind::Mut { .. }))),
                ("place", self.place(body, p)),
            ]),
            Rvalue::RawPtr(kind, p) => J::O(vec![
                ("k", s("rawptr")),
                ("mut", J::B(matches!(kind, mir::RawPtrKind::Mut))),
                ("place", self.place(body, p)),
            ]),
            Rvalue::Cast(ck, o, t) => {
                let kind = match ck {
                    CastKind::Transmute => "transmute".to_string(),
                    CastKind::IntToInt => "int2int".to_string(),
                    CastKind::PtrToPtr => "ptr2ptr".to_string(),
                    CastKind::PointerCoercion(pc, _) => format!("coerce:{:?}", pc),
                    other => format!("{:?}", other),
                };
                let from = o.ty(&body.local_decls, self.tcx);
                J::O(vec![
                    ("k", s("cast")),
                    ("kind", s(kind)),
                    ("op", self.operand(env, body, o)),
                    ("from", s(self.ty(from))),
                    ("to", s(self.ty(*t))),
                ])
            }
            Rvalue::BinaryOp(op, ab) => J::O(vec![
                ("k", s("binop")),
                ("op", s(format!("{:?}", op))),
                ("a", self.operand(env, body, &ab.0)),
                ("b", self.operand(env, body, &ab.1)),
            ]),
            Rvalue::UnaryOp(op, a) => J::O(vec![
                ("k", s("unop")),
                ("op", s(format!("{:?}", op))),
                ("a", self.operand(env, body, a)),
            ]),
            Rvalue::Discriminant(p) => J::O(vec![("k", s("discr")), ("place", self.place(body, p))]),
            Rvalue::Aggregate(kind, ops) => {
                let mut v = vec![("k", s("aggregate"))];
                match &**kind {
                    AggregateKind::Array(t) => {
                        v.push(("agg", s("array")));
                        v.push(("elem_ty", s(self.ty(*t))));
                    }
                    AggregateKind::Tuple => v.push(("agg", s("tuple"))),
                    AggregateKind::Adt(did, vi, _, _, active) => {
                        v.push(("agg", s("adt")));
                        v.push(("adt", s(self.path(*did))));
                        v.push(("variant", J::N(vi.index() as i128)));
                        let adt = self.tcx.adt_def(*did);
                        v.push(("variant_name", s(adt.variant(*vi).name.to_string())));
                        v.push((
                            "fields",
                            J::A(adt.variant(*vi).fields.iter().map(|f| s(f.name.to_string())).collect()),
                        ));
                        if let Some(a) = active {
                            v.push(("union_field", J::N(a.index() as i128)));
                        }
                        if adt.is_enum() {
                            let d = adt.discriminant_for_variant(self.tcx, *vi);
                            v.push(("discr_bits", s(format!("{}", d.val))));
                            v.push(("discr_ty", s(self.ty(d.ty))));
                        }
                    }
                    AggregateKind::Closure(did, _) => {
                        v.push(("agg", s("closure")));
                        v.push(("closure", s(self.path(*did))));
                    }
                    AggregateKind::RawPtr(t, _) => {
                        v.push(("agg", s("rawptr")));
                        v.push(("elem_ty", s(self.ty(*t))));
                    }
                    _ => v.push(("agg", s("other"))),
                }
                v.push(("ops", J::A(ops.iter().map(|o| self.operand(env, body, o)).collect())));
                J::O(v)
            }
            Rvalue::CopyForDeref(p) => J::O(vec![
                ("k", s("use")),
                ("op", J::O(vec![("k", s("copy")), ("place", self.place(body, p))])),
            ]),
            Rvalue::ThreadLocalRef(_) => J::O(vec![("k", s("tls"))]),
            Rvalue::WrapUnsafeBinder(..) => J::O(vec![("k", s("wrap_binder"))]),
        }
    }

    fn body(&self, owner: LocalDefId, body: &Body<'tcx>, promoted: Option<usize>, flavor: &str) -> J {
        let tcx = self.tcx;
        let did = owner.to_def_id();
        let env = TypingEnv::post_analysis(tcx, did);
        let kind = tcx.def_kind(did);
        let mut v: Vec<(&'static str, J)> = Vec::new();
        v.push(("path", s(self.path(did))));
        v.push(("raw", s(self.raw_path(did))));
        v.push(("kind", s(format!("{:?}", kind))));
        v.push(("flavor", s(flavor)));
        if let Some(p) = promoted {
            v.push(("promoted", J::N(p as i128)));
        }
        let is_fn = matches!(kind, DefKind::Fn | DefKind::AssocFn);
        if is_fn {
            v.push(("const_fn", J::B(tcx.is_const_fn(did))));
            v.push(("unsafe_fn", J::B(tcx.fn_sig(did).skip_binder().safety().is_unsafe())));
            let vis = tcx.visibility(did);
            v.push(("vis", s(if vis.is_public() { "pub".to_string() } else { format!("{:?}", vis) })));
            let sig = tcx.fn_sig(did).skip_binder().skip_binder();
            v.push(("sig_inputs", J::A(sig.inputs().iter().map(|t| s(self.ty(*t))).collect())));
            v.push(("sig_output", s(self.ty(sig.output()))));
            if let Some(imp) = tcx.impl_of_assoc(did) {
                let st = tcx.type_of(imp).skip_binder();
                v.push(("impl_self", s(self.ty(st))));
                if let Some(tr) = tcx.impl_opt_trait_ref(imp) {
                    v.push(("impl_trait", s(self.path(tr.skip_binder().def_id))));
                }
            }
        }
        let gens = tcx.generics_of(did);
        v.push(("generics", J::A(gens.own_params.iter().map(|p| s(p.name.to_string())).collect())));
        v.push(("span", self.src(body.span)));
        v.push(("arg_count", J::N(body.arg_count as i128)));
        // locals
        let mut names: Vec<Option<String>> = vec![None; body.local_decls.len()];
        for vdi in &body.var_debug_info {
            if let mir::VarDebugInfoContents::Place(p) = &vdi.value {
                if p.projection.is_empty() {
                    names[p.local.index()] = Some(vdi.name.to_string());
                }
            }
        }
        let mut locals = Vec::new();
        for (l, d) in body.local_decls.iter_enumerated() {
            let mut lv = vec![("ty", s(self.ty(d.ty)))];
            if let Some(n) = &names[l.index()] {
                lv.push(("name", s(n.clone())));
            }
            locals.push(J::O(lv));
        }
        v.push(("locals", J::A(locals)));
        // blocks
        let mut blocks = Vec::new();
        for (bb, data) in body.basic_blocks.iter_enumerated() {
            let mut stmts = Vec::new();
            for st in &data.statements {
                match &st.kind {
                    StatementKind::Assign(b) => {
                        let (p, r) = &**b;
                        stmts.push(J::O(vec![
                            ("k", s("assign")),
                            ("place", self.place(body, p)),
                            ("rv", self.rvalue(env, body, r)),
                            ("src", self.src(st.source_info.span)),
                        ]));
                    }
                    StatementKind::SetDiscriminant { place, variant_index } => {
                        stmts.push(J::O(vec![
                            ("k", s("setdiscr")),
                            ("place", self.place(body, place)),
                            ("v", J::N(variant_index.index() as i128)),
                            ("src", self.src(st.source_info.span)),
                        ]));
                    }
                    StatementKind::Intrinsic(i) => {
                        stmts.push(J::O(vec![
                            ("k", s("intrinsic")),
                            ("what", s(format!("{:?}", i))),
                            ("src", self.src(st.source_info.span)),
                        ]));
                    }
                    StatementKind::StorageDead(l) => {
                        stmts.push(J::O(vec![("k", s("dead")), ("l", J::N(l.index() as i128))]));
                    }
                    StatementKind::StorageLive(l) => {
                        stmts.push(J::O(vec![("k", s("live")), ("l", J::N(l.index() as i128))]));
                    }
                    _ => {}
                }
            }
            let term = data.terminator();
            let bbn = |b: &BasicBlock| J::N(b.index() as i128);
            let tj = match &term.kind {
                TerminatorKind::Goto { target } => J::O(vec![("k", s("goto")), ("target", bbn(target))]),
                TerminatorKind::SwitchInt { discr, targets } => {
                    let dty = discr.ty(&body.local_decls, tcx);
                    J::O(vec![
                        ("k", s("switch")),
                        ("discr", self.operand(env, body, discr)),
                        ("discr_ty", s(self.ty(dty))),
                        (
                            "targets",
                            J::A(targets
                                .iter()
                                .map(|(val, t)| J::A(vec![s(format!("{}", val)), bbn(&t)]))
                                .collect()),
                        ),
                        ("otherwise", bbn(&targets.otherwise())),
                    ])
                }
                TerminatorKind::Return => J::O(vec![("k", s("return"))]),
                TerminatorKind::Unreachable => J::O(vec![("k", s("unreachable"))]),
                TerminatorKind::UnwindResume => J::O(vec![("k", s("resume"))]),
                TerminatorKind::UnwindTerminate(_) => J::O(vec![("k", s("terminate"))]),
                TerminatorKind::Drop { place, target, .. } => J::O(vec![
                    ("k", s("drop")),
                    ("place", self.place(body, place)),
                    ("place_ty", s(self.ty(place.ty(&body.local_decls, tcx).ty))),
                    ("target", bbn(target)),
                ]),
                TerminatorKind::Call { func, args, destination, target, fn_span, unwind, .. } => {
                    let mut cv = vec![("k", s("call"))];
                    cv.push(("unwind", match unwind {
                        mir::UnwindAction::Cleanup(bb) => bbn(bb),
                        mir::UnwindAction::Continue => s("continue"),
                        mir::UnwindAction::Unreachable => s("unreachable"),
                        mir::UnwindAction::Terminate(_) => s("terminate"),
                    }));
                    let fty = func.ty(&body.local_decls, tcx);
                    match fty.kind() {
                        ty::FnDef(did, gargs) => cv.push(("callee", self.fn_ref(env, *did, gargs))),
                        _ => {
                            cv.push(("callee", J::Null));
                            cv.push(("func", self.operand(env, body, func)));
                            cv.push(("func_ty", s(self.ty(fty))));
                        }
                    }
                    cv.push(("args", J::A(args.iter().map(|a| self.operand(env, body, &a.node)).collect())));
                    cv.push((
                        "arg_tys",
                        J::A(args.iter().map(|a| s(self.ty(a.node.ty(&body.local_decls, tcx)))).collect()),
                    ));
                    cv.push(("dest", self.place(body, destination)));
                    cv.push(("target", target.as_ref().map(bbn).unwrap_or(J::Null)));
                    cv.push(("fn_src", self.src(*fn_span)));
                    J::O(cv)
                }
                TerminatorKind::Assert { cond, expected, msg, target, .. } => {
                    let kind = match &**msg {
                        mir::AssertKind::BoundsCheck { .. } => "bounds".to_string(),
                        mir::AssertKind::Overflow(op, ..) => format!("overflow:{:?}", op),
                        mir::AssertKind::OverflowNeg(_) => "overflow:Neg".to_string(),
                        mir::AssertKind::DivisionByZero(_) => "div_zero".to_string(),
                        mir::AssertKind::RemainderByZero(_) => "rem_zero".to_string(),
                        mir::AssertKind::MisalignedPointerDereference { .. } => "misaligned".to_string(),
                        mir::AssertKind::NullPointerDereference => "null".to_string(),
                        _ => "other".to_string(),
                    };
                    let mut av = vec![
                        ("k", s("assert")),
                        ("cond", self.operand(env, body, cond)),
                        ("expected", J::B(*expected)),
                        ("msg", s(kind)),
                        ("target", bbn(target)),
                    ];
                    if let mir::AssertKind::BoundsCheck { len, index } = &**msg {
                        av.push(("len", self.operand(env, body, len)));
                        av.push(("index", self.operand(env, body, index)));
                    }
                    J::O(av)
                }
                TerminatorKind::FalseEdge { real_target, .. } => {
                    J::O(vec![("k", s("goto")), ("target", bbn(real_target))])
                }
                TerminatorKind::FalseUnwind { real_target, .. } => {
                    J::O(vec![("k", s("goto")), ("target", bbn(real_target))])
                }
                other => J::O(vec![("k", s("other")), ("what", s(format!("{:?}", other)))]),
            };
            let mut tjv = match tj {
                J::O(v) => v,
                _ => unreachable!(),
            };
            tjv.push(("src", self.src(term.source_info.span)));
            blocks.push(J::O(vec![
                ("id", bbn(&bb)),
                ("cleanup", J::B(data.is_cleanup)),
                ("stmts", J::A(stmts)),
                ("term", J::O(tjv)),
            ]));
        }
        v.push(("blocks", J::A(blocks)));
        J::O(v)
    }
}

// ------------------------------------------------------------- HIR side ----
fn hir_tables<'tcx>(cx: &Cx<'tcx>) -> (J, J) {
    use rustc_hir::intravisit::{self, Visitor};
    struct V<'a, 'tcx> {
        cx: &'a Cx<'tcx>,
        owner: String,
        lits: Vec<J>,
        pats: Vec<J>,
    }
    fn byte_of_pat(p: &rustc_hir::Pat<'_>) -> Option<i128> {
        if let rustc_hir::PatKind::Expr(e) = p.kind {
            if let rustc_hir::PatExprKind::Lit { lit, .. } = e.kind {
                match lit.node {
                    rustc_ast::LitKind::Int(v, _) => return Some(v.get() as i128),
                    rustc_ast::LitKind::Byte(b) => return Some(b as i128),
                    _ => {}
                }
            }
        }
        None
    }
    impl<'a, 'tcx> Visitor<'tcx> for V<'a, 'tcx> {
        type NestedFilter = rustc_middle::hir::nested_filter::OnlyBodies;
        fn maybe_tcx(&mut self) -> Self::MaybeTyCtxt {
            self.cx.tcx
        }
        fn visit_expr(&mut self, e: &'tcx rustc_hir::Expr<'tcx>) {
            if let rustc_hir::ExprKind::Lit(lit) = e.kind {
                match &lit.node {
                    rustc_ast::LitKind::Str(sym, _) => {
                        self.lits.push(J::O(vec![
                            ("owner", s(self.owner.clone())),
                            ("kind", s("str")),
                            ("bytes", J::A(sym.as_str().bytes().map(|b| J::N(b as i128)).collect())),
                            ("src", self.cx.src(e.span)),
                        ]));
                    }
                    rustc_ast::LitKind::ByteStr(bs, _) => {
                        self.lits.push(J::O(vec![
                            ("owner", s(self.owner.clone())),
                            ("kind", s("bytestr")),
                            ("bytes", J::A(bs.as_byte_str().iter().map(|b| J::N(*b as i128)).collect())),
                            ("src", self.cx.src(e.span)),
                        ]));
                    }
                    _ => {}
                }
            }
            intravisit::walk_expr(self, e);
        }
        fn visit_pat(&mut self, p: &'tcx rustc_hir::Pat<'tcx>) {
            if let rustc_hir::PatKind::Slice(before, mid, after) = p.kind {
                let b: Vec<Option<i128>> = before.iter().map(byte_of_pat).collect();
                let a: Vec<Option<i128>> = after.iter().map(byte_of_pat).collect();
                if b.iter().all(|x| x.is_some()) && a.iter().all(|x| x.is_some()) {
                    self.pats.push(J::O(vec![
                        ("owner", s(self.owner.clone())),
                        ("before", J::A(b.into_iter().map(|x| J::N(x.unwrap())).collect())),
                        ("rest", J::B(mid.is_some())),
                        ("after", J::A(a.into_iter().map(|x| J::N(x.unwrap())).collect())),
                        ("src", self.cx.src(p.span)),
                    ]));
                }
            }
            intravisit::walk_pat(self, p);
        }
    }
    let mut lits = Vec::new();
    let mut pats = Vec::new();
    for owner in cx.tcx.hir_body_owners() {
        let mut v = V { cx, owner: cx.path(owner.to_def_id()), lits: Vec::new(), pats: Vec::new() };
        let body = cx.tcx.hir_body_owned_by(owner);
        v.visit_body(body);
        lits.append(&mut v.lits);
        pats.append(&mut v.pats);
    }
    (J::A(lits), J::A(pats))
}

fn adt_table<'tcx>(cx: &Cx<'tcx>) -> J {
    let tcx = cx.tcx;
    let mut out = Vec::new();
    for id in tcx.hir_free_items() {
        let did = id.owner_id.to_def_id();
        if !matches!(tcx.def_kind(did), DefKind::Struct | DefKind::Union | DefKind::Enum) {
            continue;
        }
        let adt = tcx.adt_def(did);
        let repr = adt.repr();
        let mut variants = Vec::new();
        for var in adt.variants() {
            variants.push(J::O(vec![
                ("name", s(var.name.to_string())),
                (
                    "fields",
                    J::A(var
                        .fields
                        .iter()
                        .map(|f| {
                            J::O(vec![
                                ("name", s(f.name.to_string())),
                                ("ty", s(cx.ty(tcx.type_of(f.did).skip_binder()))),
                                ("pub", J::B(f.vis.is_public())),
                            ])
                        })
                        .collect()),
                ),
            ]));
        }
        out.push(J::O(vec![
            ("path", s(cx.path(did))),
            ("kind", s(format!("{:?}", tcx.def_kind(did)))),
            ("repr_c", J::B(repr.c())),
            ("repr_transparent", J::B(repr.transparent())),
            ("packed", J::B(repr.packed())),
            ("has_dtor", J::B(adt.has_dtor(tcx))),
            ("variants", J::A(variants)),
            ("span", cx.src(tcx.def_span(did))),
        ]));
    }
    J::A(out)
}

// -------------------------------------------------------------- driver ----
struct Cb {
    out_dir: Option<String>,
    hir: bool,
}

impl Callbacks for Cb {
    fn after_analysis<'tcx>(&mut self, _c: &Compiler, tcx: TyCtxt<'tcx>) -> Compilation {
        let Some(out_dir) = self.out_dir.clone() else {
            return Compilation::Continue;
        };
        let krate = tcx.crate_name(rustc_hir::def_id::LOCAL_CRATE).to_string();
        if let Ok(only) = std::env::var("KONST_FACTS_CRATES") {
            if !only.split(',').any(|c| c == krate) {
                return Compilation::Continue;
            }
        }
        let cx = Cx { tcx };
        let mut bodies = Vec::new();
        for owner in tcx.hir_body_owners() {
            let did = owner.to_def_id();
            let kind = tcx.def_kind(did);
            match kind {
                DefKind::Fn | DefKind::AssocFn | DefKind::Closure => {
                    if tcx.is_mir_available(did) {
                        let body = tcx.optimized_mir(did);
                        bodies.push(cx.body(owner, body, None, "rt"));
                        let prom = tcx.promoted_mir(did);
                        for (i, pb) in prom.iter_enumerated() {
                            bodies.push(cx.body(owner, pb, Some(i.index()), "promoted"));
                        }
                    }
                }
                DefKind::Const { .. }
                | DefKind::AssocConst { .. }
                | DefKind::Static { .. }
                | DefKind::AnonConst
                | DefKind::InlineConst => {
                    // skip generic anon consts that cannot be built
                    let body = tcx.mir_for_ctfe(did);
                    bodies.push(cx.body(owner, body, None, "ctfe"));
                    let prom = tcx.promoted_mir(did);
                    for (i, pb) in prom.iter_enumerated() {
                        bodies.push(cx.body(owner, pb, Some(i.index()), "promoted"));
                    }
                }
                _ => {}
            }
        }
        let mut top = vec![
            ("crate", s(krate.clone())),
            ("config", s(std::env::var("KONST_FACTS_CONFIG").unwrap_or_default())),
            ("n_bodies", J::N(bodies.len() as i128)),
            ("bodies", J::A(bodies)),
            ("adts", adt_table(&cx)),
        ];
        if self.hir {
            let (l, p) = hir_tables(&cx);
            top.push(("hir_lits", l));
            top.push(("hir_pats", p));
        }
        let mut out = String::new();
        J::O(top).write(&mut out);
        let path = format!("{}/{}-{}.json", out_dir, krate, std::process::id());
        std::fs::write(&path, out).expect("write facts");
        Compilation::Continue
    }
}

fn main() {
    let mut args: Vec<String> = std::env::args().collect();
    // wrapper mode: cargo passes the real rustc as argv[1]
    if args.len() > 1 && (args[1].ends_with("rustc") || args[1].ends_with("/rustc")) {
        args.remove(1);
    }
    let out_dir = std::env::var("KONST_FACTS_OUT").ok();
    let hir = std::env::var("KONST_FACTS_HIR").map(|v| v == "1").unwrap_or(false);
    let mut cb = Cb { out_dir, hir };
    rustc_driver::catch_with_exit_code(|| rustc_driver::run_compiler(&args, &mut cb));
}
