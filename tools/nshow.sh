#!/bin/bash
export VERIF_NO_PRUNE=1   # several trees are analysed over time / in parallel: keep their caches (tools/prune_cache.sh cleans up)
# tools/nshow.sh <patch> <prop> — show the full report of one check under one patch (uses /repo; reverts)
cd /verif; BK=$(mktemp -d); cp -r evidence $BK/
git -C /repo apply $(realpath $1) || exit 2
./check $2 2>&1 | grep -A4 "^VIOLATION" | cut -c1-${3:-900}
git -C /repo checkout -- .; rm -rf evidence; cp -r $BK/evidence evidence; rm -rf $BK
