#!/usr/bin/env python3
"""tools/rule_counts.py [--patch]  — prints, per property, the rule instance counts of the evidence files (run the thorough tier first);
with --patch rewrites the second column of the table in DESIGN.md §0a.2 with them."""
import json, re, sys

rows = {}
for i in range(1, 21):
    pid = "C%02d" % i
    e = json.load(open("/verif/evidence/%s.json" % pid))
    rules = e["coverage"].get("rules", {})
    rows[pid] = (e["tier"], ", ".join("%s %d" % (r, rules[r]["instances"]) for r in sorted(rules)))
for pid, (tier, txt) in rows.items():
    print(pid, tier, txt)
if "--patch" in sys.argv:
    bad = [p for p, (t, _) in rows.items() if t != "thorough"]
    if bad:
        sys.exit("not thorough evidence: %s" % bad)
    p = "/verif/DESIGN.md"
    s = open(p).read()
    a = s.index("### 0a.2 Rules per property as built")
    b = s.index("### 0a.3")
    sec = s[a:b]
    for pid, (_, txt) in rows.items():
        sec, n = re.subn(r"(?m)^\| %s \| [^|]* \|" % pid, "| %s | %s |" % (pid, txt), sec)
        assert n == 1, pid
    open(p, "w").write(s[:a] + sec + s[b:])
    print("patched")
