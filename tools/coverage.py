#!/usr/bin/env python3
"""tools/coverage.py — which public functions of konst / konst_kernel does no behavioural check (C02..C20) ever look at?
Runs every check (thorough) with VERIF_TOUCH set, collects the body keys each one looked up by name or inlined, and lists the
`pub` functions of the two library crates that none of C02..C20 touched (C01 enumerates everything by construction).
A coverage audit of the machinery, not a check."""
import os, subprocess, sys, json, glob
sys.path.insert(0, "/verif/engine/py")
D = "/verif/.work/touched"
if "--reuse" not in sys.argv:
    subprocess.run(["rm", "-rf", D])
    for i in range(1, 21):
        p = "C%02d" % i
        subprocess.run(["/verif/check", p, "--tier", "thorough"], env=dict(os.environ, VERIF_TOUCH=D, VERIF_EVIDENCE="/tmp/cov_ev"), stdout=subprocess.DEVNULL, stderr=subprocess.DEVNULL)
touched = {}
for f in glob.glob(D + "/C*.txt"):
    p = os.path.basename(f)[:-4]
    for k in open(f).read().split("\n"):
        if k:
            touched.setdefault(k, set()).add(p)
from kv import runner
ctx = runner.Ctx("C01", "quick", 0)
prog = ctx.program("FULL")
rows = []
for b in prog.bodies:
    if b.promoted is not None or b.crate not in ("konst", "konst_kernel") or b.kind not in ("Fn", "AssocFn"):
        continue
    if b.rec.get("vis") != "pub":
        continue
    who = touched.get(b.key, set()) - {"C01"}
    rows.append((b.key, sorted(who), b.file()))
un = [r for r in rows if not r[1]]
print("%d public functions, %d touched by some check of C02..C20, %d not:" % (len(rows), len(rows) - len(un), len(un)))
for k, _, f in sorted(un, key=lambda r: (r[2], r[0])):
    print("   %-90s %s" % (k, f))
