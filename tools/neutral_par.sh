#!/bin/bash
# tools/neutral_par.sh <patch.diff>... — run every check (quick) against each behaviour-preserving patch, each in its own scratch
# worktree of /repo (KONST_REPO) with its own evidence dir, 4 patches at a time.  Prints "NEUTRAL <patch> alarms: ..." per patch.
cd /verif
run_one() {
  P=$1; N=$(basename $(dirname $P))_$(basename $P .diff)
  WT=/tmp/nt_$N
  git -C /repo worktree remove --force $WT 2>/dev/null; rm -rf $WT
  git -C /repo worktree add --detach $WT HEAD >/dev/null 2>&1
  if ! git -C $WT apply $P; then echo "NEUTRAL $N: patch does not apply"; git -C /repo worktree remove --force $WT; return; fi
  mkdir -p /tmp/nt_ev_$N
  OUT=""
  for p in C01 C02 C03 C04 C05 C06 C07 C08 C09 C10 C11 C12 C13 C14 C15 C16 C17 C18 C19 C20; do
    VERIF_NO_PRUNE=1 KONST_REPO=$WT VERIF_EVIDENCE=/tmp/nt_ev_$N ./check $p > /tmp/nt_ev_$N/out_$p.txt 2>&1; rc=$?
    if [ $rc -ne 0 ]; then OUT="$OUT $p"; fi
  done
  echo "NEUTRAL $N alarms:${OUT:- none}"
  for p in $OUT; do grep -E "^  rule=" /tmp/nt_ev_$N/out_$p.txt | head -4; done
  git -C /repo worktree remove --force $WT; rm -rf $WT
}
export -f run_one
printf "%s\n" "$@" | xargs -P ${NPAR:-4} -I{} bash -c 'run_one {}'
# (fact caches of the scratch trees stay: run tools/prune_cache.sh when no other regression is running)
