#!/usr/bin/env python3
"""Regenerates /verif/MANIFEST.json from the table below (single source of truth)."""
import json
import os

V = os.path.dirname(os.path.dirname(os.path.abspath(__file__)))

# id -> (category, technique, text, note, design_ref)
CHECKS = {}
NA = {}


def chk(pid, technique, text, note, cat="other", ref=None):
    CHECKS[pid] = (cat, technique, text, note, ref or ("DESIGN.md §4 " + pid))


exec(open(os.path.join(V, "tools", "manifest_table.py")).read())

props = [json.loads(l)["id"] for l in open(os.path.join(V, "properties.jsonl"))]
checks = []
for pid in props:
    if pid in CHECKS:
        cat, tech, text, note, ref = CHECKS[pid]
        checks.append({
            "property_id": pid,
            "quick_cmd": "./check %s --tier quick" % pid,
            "thorough_cmd": "./check %s --tier thorough" % pid,
            "evidence_file": "/verif/evidence/%s.json" % pid,
            "replay_cmd_template": "./check %s --replay {path}" % pid,
            "engine": "kv",
            "level_claimed": {"category": cat, "text": text, "design_ref": ref},
            "level_note": note,
            "technique": tech,
        })
na = [{"property_id": p, "reason": NA.get(p, "no check built yet for this property (see DESIGN.md §8 build order)")}
      for p in props if p not in CHECKS]
m = {
    "version": 1,
    "setup_cmd": "cd /verif/engine/facts && CARGO_NET_OFFLINE=true cargo build --release --offline",
    "hooks": {
        "guard": "rodrimati1992_konst_verif",
        "enable": "none needed: every engine reads the unmodified source through rustc (RUSTC_WORKSPACE_WRAPPER driver); no cfg-guarded code exists in /repo",
        "baseline_off_cmd": "cd /repo && cargo test --workspace --no-fail-fast --offline",
        "source_commits": [],
        "add_only": True,
    },
    "engines": [
        {"name": "konst-facts", "path": "engine/facts", "serves_properties": sorted(CHECKS),
         "kind_free_text": "rustc_private driver (nightly) exporting MIR/HIR facts with resolved callees and macro back-traces"},
        {"name": "kv", "path": "engine/py/kv", "serves_properties": sorted(CHECKS),
         "kind_free_text": "Python static-analysis library: CFG/dominators/loops, gated path extraction, decision-table comparison, "
                           "byte-set / provenance / typestate rules, accept-reject witness harness"},
    ],
    "checks": checks,
    "not_applicable": na,
    "notes": "Static analysis only. ./check <id> rebuilds the MIR fact base from /repo's working tree whenever its hash changes. "
             "Known findings are listed in known_findings.json; DESIGN.md explains every rule.",
}
with open(os.path.join(V, "MANIFEST.json"), "w") as fh:
    json.dump(m, fh, indent=1)
print("claimed:", sorted(CHECKS), "na:", [x["property_id"] for x in na])
