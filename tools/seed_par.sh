#!/bin/bash
# tools/seed_par.sh [seed names...] — like seed_regress.sh, but each seed in its own scratch worktree of /repo (KONST_REPO), ${NPAR:-6} at a time:
# the check of the seed's own property must exit 1 with a VIOLATION line.  Prints one line per seed; exit 1 if any is not detected.
cd /verif
SEEDS=${@:-$(ls seeded)}
run_one() {
  s=$1; prop=${s%%-*}
  WT=/tmp/sp_$s; EV=/tmp/sp_ev_$s
  git -C /repo worktree remove --force $WT 2>/dev/null; rm -rf $WT $EV; mkdir -p $EV
  git -C /repo worktree add --detach $WT HEAD >/dev/null 2>&1
  if ! git -C $WT apply /verif/seeded/$s/patch.diff; then echo "$s: patch does not apply"; git -C /repo worktree remove --force $WT; return; fi
  VERIF_NO_PRUNE=1 KONST_REPO=$WT VERIF_EVIDENCE=$EV ./check $prop > $EV/out.txt 2>&1; rc=$?
  if [ $rc -eq 1 ] && grep -q "^VIOLATION property=$prop " $EV/out.txt; then
    echo "$s: detected by $prop ($(grep -E '^  rule=' $EV/out.txt | head -1 | sed 's/^ *//'))"
  else
    echo "$s: NOT DETECTED by $prop (rc=$rc)"
  fi
  git -C /repo worktree remove --force $WT 2>/dev/null; rm -rf $WT $EV
}
export -f run_one
printf "%s\n" $SEEDS | xargs -P ${NPAR:-6} -I{} bash -c 'run_one {}' | tee /tmp/seed_par.out
git -C /repo worktree prune
! grep -q "NOT DETECTED\|does not apply" /tmp/seed_par.out
