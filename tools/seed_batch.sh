#!/bin/bash
# tools/seed_batch.sh <worktree-prefix> <suffix> <ID>...   e.g.  tools/seed_batch.sh /tmp/seed3_ -3 C01 C02
# confirms each <prefix><ID>/_seed in a scratch worktree (4 at a time), keeps confirmed ones as /verif/seeded/<ID><suffix>,
# runs the check of the seed's own property (+C01) against each, removes the agents' worktrees.
PFX=$1; SFX=$2; shift 2
cd /verif
printf "%s\n" "$@" | xargs -P 4 -I{} bash -c "tools/seed_confirm.sh {} ${PFX}{}/_seed {}${SFX} > /tmp/svb_{}.txt 2>&1"
for i in "$@"; do
  tail -n 1 /tmp/svb_$i.txt | sed "s/^/[$i] /"
  grep -q "^KEPT" /tmp/svb_$i.txt || { grep "^RESULT" /tmp/svb_$i.txt; continue; }
  tools/seed_check.sh $i$SFX $i C01 2>&1 | tail -5
  git -C /repo worktree remove --force ${PFX}$i 2>/dev/null; rm -rf ${PFX}$i
done
git -C /repo worktree prune
