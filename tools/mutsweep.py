#!/usr/bin/env python3
"""tools/mutsweep.py [--n N] [--seed S] [--jobs J] [--files glob...]  — machinery self-test, not a registered check.

Samples single-token mutants of the library sources (relational / arithmetic / constant / boolean / argument-order operators),
and for each mutant that still compiles runs all 20 checks (quick) against a scratch worktree (KONST_REPO).  A mutant that no check
reports is then run against the repository's own test suite: if the tests fail, the mutant is a behavioural change the checks
missed (MISS); if they pass too it is listed as SURVIVOR for manual triage (equivalent mutant, or a blind spot of tests and checks).
Results: /verif/.work/mutsweep/<seed>.jsonl and a summary on stdout.
"""
import argparse, glob, json, os, random, re, subprocess, sys, shutil
from concurrent.futures import ThreadPoolExecutor

REPO = "/repo"
WORKROOT = "/tmp/mutsweep"
PROPS = ["C%02d" % i for i in range(1, 21)]
SRC_GLOBS = ["konst/src/**/*.rs", "konst_kernel/src/**/*.rs", "konst_proc_macros/src/**/*.rs"]
SKIP_PARTS = ("/tests", "_tests.rs", "priv_string_tests", "utils_tests", "/chr/tests", "test_utils", "docs/", "__for_cmp_impls.rs")

OPS = [
    (r"(?<![<>=!\-])<=(?!=)", "<"), (r"(?<![<>=!\-&])<(?![<=])(?=\s)", "<="),
    (r"(?<![<>=!\-])>=(?!=)", ">"), (r"(?<=\s)>(?![>=])(?=\s)", ">="),
    (r"==", "!="), (r"!=", "=="),
    (r"\+ 1\b", "+ 2"), (r"\+ 1\b", ""), (r"- 1\b", ""), (r"- 1\b", "- 2"),
    (r"\+=", "-="), (r"-=", "+="),
    (r"\b0\b(?!\.)", "1"), (r"\b1\b(?!\.)", "0"),
    (r"\btrue\b", "false"), (r"\bfalse\b", "true"),
    (r"&&", "||"), (r"\|\|", "&&"),
    (r"\bstart\b", "end"), (r"\bleft\b", "right"), (r"\bnext_back\b", "next"),
    (r"\bLess\b", "Greater"), (r"\bGreater\b", "Less"),
    (r"\bSome\(", "Some_MUT_NONE("),
    (r"\bslice_from\b", "slice_up_to"), (r"\bslice_up_to\b", "slice_from"), (r"\bstr_from\b", "str_up_to"), (r"\bstr_up_to\b", "str_from"),
    (r"\bFromStart\b", "FromEnd"), (r"\bFromEnd\b", "FromStart"), (r"\bsaturating_sub\b", "wrapping_sub"), (r"\bchecked_sub\b", "checked_add"),
    (r"\bstrip_prefix\b", "strip_suffix"), (r"\bfind\b", "rfind"), (r"\bskip\b", "skip_back"), (r"\btaken_front\b", "taken_back"),
    (r"\bis_empty\(\)", "is_empty() == false"), (r"^(\s*)([\w\.\$\[\]\*]+\s*[-+]?=\s*[^;=]+;)\s*$", "\\1/* \\2 */"),
]


def code_lines(path):
    out = []
    in_block = False
    for i, l in enumerate(open(path, encoding="utf-8").read().split("\n")):
        s = l.strip()
        if in_block:
            if "*/" in s:
                in_block = False
            continue
        if s.startswith("/*"):
            in_block = "*/" not in s
            continue
        if not s or s.startswith("//") or s.startswith("#[") or s.startswith("#![") or s.startswith("use ") or s.startswith("pub use "):
            continue
        if "compile_error" in s or "panic!" in s or "assert" in s and "debug_assert" in s:
            continue
        out.append((i, l))
    return out


def candidates():
    cands = []
    for g in SRC_GLOBS:
        for f in sorted(glob.glob(os.path.join(REPO, g), recursive=True)):
            rel = os.path.relpath(f, REPO)
            if any(p in rel for p in SKIP_PARTS):
                continue
            for i, l in code_lines(f):
                code = l.split("//")[0]
                for k, (pat, rep) in enumerate(OPS):
                    if rep == "Some_MUT_NONE(":
                        continue
                    for m in re.finditer(pat, code):
                        cands.append((rel, i, m.start(), m.end(), m.expand(rep) if "\\1" in rep else rep, k))
    return cands


def sh(cmd, cwd=None, env=None, timeout=1800):
    # own process group, killed as a whole on timeout (a mutant can make a proc macro or a test loop forever)
    import signal
    p = subprocess.Popen(cmd, cwd=cwd, env=env, shell=isinstance(cmd, str), stdout=subprocess.PIPE, stderr=subprocess.STDOUT, text=True, start_new_session=True)
    try:
        out, _ = p.communicate(timeout=timeout)
        return p.returncode, out
    except subprocess.TimeoutExpired:
        try:
            os.killpg(p.pid, signal.SIGKILL)
        except OSError:
            pass
        p.wait()
        return 124, "TIMEOUT"


def run_mutant(slot, mut, idx):
    rel, line, a, b, rep, k = mut
    wt = os.path.join(WORKROOT, "wt%d" % slot)
    sh(["git", "-C", wt, "checkout", "--", "."])
    path = os.path.join(wt, rel)
    lines = open(path, encoding="utf-8").read().split("\n")
    old = lines[line]
    lines[line] = old[:a] + rep + old[b:]
    open(path, "w", encoding="utf-8").write("\n".join(lines))
    res = {"idx": idx, "file": rel, "line": line + 1, "old": old.strip()[:160], "new": lines[line].strip()[:160]}
    env = dict(os.environ, CARGO_NET_OFFLINE="true", CARGO_TARGET_DIR=os.path.join(WORKROOT, "target%d" % slot))
    rc, out = sh("cargo build --offline -q -p konst --features 'rust_latest_stable alloc' 2>&1 | tail -3", cwd=wt, env=env)
    rc2, out2 = sh("cargo build --offline -q --workspace 2>&1 | tail -3", cwd=wt, env=env)
    if "error" in out or "error" in out2:
        res["status"] = "nocompile"
        return res
    env2 = dict(env, KONST_REPO=wt, VERIF_EVIDENCE=os.path.join(WORKROOT, "ev%d" % slot), VERIF_NO_PRUNE="1")
    alarms = []
    for p in PROPS:
        rc, out = sh(["/verif/check", p], cwd="/verif", env=env2)
        if rc != 0:
            rules = sorted(set(re.findall(r"rule=(\S+)", out)))
            alarms.append((p, rules[:4]))
            if len(alarms) >= 2:
                break           # reported: good enough
    res["alarms"] = alarms
    if alarms:
        res["status"] = "reported"
        return res
    # no check reported it: ask the repository's tests
    failed = []
    for cmd in ("cargo test --workspace --no-fail-fast --offline", "cargo test --offline -p konst --features 'rust_latest_stable alloc' --no-fail-fast"):
        rc, out = sh("timeout -k 5 900 " + cmd + " 2>&1", cwd=wt, env=env)
        if rc in (124, 137):
            failed.append("TIMEOUT: " + cmd)
        for l in out.splitlines():
            if (re.match(r"^test .* FAILED$", l) or re.match(r"^error(\[E[0-9]+\])?: ", l)) and not re.search(r"priv_string_tests::invalid_|error: test failed|error: [0-9]+ target", l):
                failed.append(l)
    res["tests_failed"] = failed[:6]
    res["status"] = "MISS" if failed else "SURVIVOR"
    return res


def main():
    ap = argparse.ArgumentParser()
    ap.add_argument("--n", type=int, default=100)
    ap.add_argument("--seed", type=int, default=1)
    ap.add_argument("--jobs", type=int, default=4)
    ap.add_argument("--match", default=None, help="only files whose path contains this")
    a = ap.parse_args()
    cands = candidates()
    if a.match:
        cands = [c for c in cands if a.match in c[0]]
    rng = random.Random(a.seed)
    rng.shuffle(cands)
    muts = cands[:a.n]
    os.makedirs(WORKROOT, exist_ok=True)
    os.makedirs("/verif/.work/mutsweep", exist_ok=True)
    for s in range(a.jobs):
        wt = os.path.join(WORKROOT, "wt%d" % s)
        sh(["git", "-C", REPO, "worktree", "remove", "--force", wt])
        shutil.rmtree(wt, ignore_errors=True)
        sh(["git", "-C", REPO, "worktree", "add", "--detach", wt, "HEAD"])
    out_path = "/verif/.work/mutsweep/%d.jsonl" % a.seed
    fh = open(out_path, "a")
    import queue
    slots = queue.Queue()
    for s in range(a.jobs):
        slots.put(s)

    def work(item):
        idx, mut = item
        s = slots.get()
        try:
            r = run_mutant(s, mut, idx)
        except Exception as e:
            r = {"idx": idx, "file": mut[0], "line": mut[1] + 1, "status": "error", "err": str(e)[:200]}
        finally:
            slots.put(s)
        fh.write(json.dumps(r) + "\n")
        fh.flush()
        print("%4d %-9s %s:%d  %s  ->  %s  %s" % (idx, r["status"], r["file"], r["line"], r.get("old", "")[:60], r.get("new", "")[:60],
                                                   r.get("alarms") or r.get("tests_failed") or ""), flush=True)
        return r
    with ThreadPoolExecutor(max_workers=a.jobs) as ex:
        results = list(ex.map(work, list(enumerate(muts))))
    for s in range(a.jobs):
        sh(["git", "-C", REPO, "worktree", "remove", "--force", os.path.join(WORKROOT, "wt%d" % s)])
    shutil.rmtree(WORKROOT, ignore_errors=True)
    sh(["git", "-C", REPO, "worktree", "prune"])
    from collections import Counter
    print(Counter(r["status"] for r in results))


if __name__ == "__main__":
    main()
