#!/usr/bin/env python3
"""tools/seed_task.py <round> <ID> [--note "extra line for the 'already used' list"]...

Prepares a scratch worktree /tmp/seed<round>_<ID> of /repo HEAD for a fresh sub-agent: _seed/PROPERTY.txt (title, statement and
quantifier of the property - nothing from /verif's checks) and _seed/TASK.md (tools/templates/TASK.md.in, with the summaries of the
seeds already kept for that property listed as "already used").  Prints the prompt to give the agent.
"""
import glob, json, os, subprocess, sys

a = sys.argv[1:]
rnd, pid = a[0], a[1]
notes = [a[i + 1] for i in range(2, len(a) - 1) if a[i] == "--note"]
wt = "/tmp/seed%s_%s" % (rnd, pid)
subprocess.run(["git", "-C", "/repo", "worktree", "remove", "--force", wt], stdout=subprocess.DEVNULL, stderr=subprocess.DEVNULL)
subprocess.run(["rm", "-rf", wt])
subprocess.run(["git", "-C", "/repo", "worktree", "add", "--detach", wt, "HEAD"], check=True, stdout=subprocess.DEVNULL, stderr=subprocess.DEVNULL)
os.makedirs(wt + "/_seed", exist_ok=True)
prop = [json.loads(l) for l in open("/verif/properties.jsonl") if json.loads(l)["id"] == pid][0]
with open(wt + "/_seed/PROPERTY.txt", "w") as fh:
    fh.write("%s — %s\n\n%s\n\nQuantified over: %s\n" % (pid, prop["title"], prop["statement"], prop["quantifier"]["text"]))
used = []
for d in sorted(glob.glob("/verif/seeded/%s*" % pid)):
    try:
        m = json.load(open(d + "/meta.json"))
        used.append("- " + " ".join(str(m.get("summary", "")).split())[:350])
    except Exception:
        pass
used += ["- " + n for n in notes]
t = open(os.environ.get("SEED_TEMPLATE", "/verif/tools/templates/TASK.md.in")).read().replace("@ID@", pid).replace("@R@", rnd).replace("@USED@", "\n".join(used) or "- (nothing yet)")
open(wt + "/_seed/TASK.md", "w").write(t)
print("Read %s/_seed/TASK.md and carry out the task exactly as described there (work only inside %s). Finish with the 5-line summary it asks for." % (wt, wt))
