#!/bin/bash
# tools/seed_confirm.sh <ID> [srcdir] [name under /verif/seeded, default <ID>]
# Confirms a seeded change in a fresh scratch worktree of /repo HEAD:
#   demo passes without the patch; with the patch the workspace builds, the existing
#   suite shows only the 3 always-failing tests, and the demo fails.
# On success copies patch.diff, demo.rs, meta.json to /verif/seeded/<ID>/ (meta gets a
# "confirmed" block).  Scratch worktree is removed afterwards.
set -u
ID=$1
SRC=${2:-/tmp/seed_$ID/_seed}
DEST=${3:-$ID}
WT=/tmp/sv_$ID
export CARGO_NET_OFFLINE=true
export CARGO_TARGET_DIR=/tmp/sv_target_$ID
FEAT='rust_latest_stable alloc'
git -C /repo worktree remove --force $WT 2>/dev/null
git -C /repo worktree add --detach $WT HEAD >/dev/null 2>&1 || { echo "worktree failed"; exit 2; }
cd $WT
cp $SRC/demo.rs konst/tests/demo.rs
demo() { cargo test --offline -p konst --features "$FEAT" --test demo 2>&1 | tail -5; }
echo "== demo without patch"; D0=$(demo); echo "$D0" | tail -3
echo "$D0" | grep -q "test result: ok" && R0=pass || R0=FAIL
git apply $SRC/patch.diff || { echo "patch does not apply"; R0=noapply; }
echo "== build with patch"
cargo build --offline -p konst --features "$FEAT" 2>&1 | tail -1
cargo build --offline --workspace 2>&1 | tail -1; B=$?
echo "== suite with patch"
rm konst/tests/demo.rs
cargo test --workspace --no-fail-fast --offline > /tmp/sv_$ID.log 2>&1
FAILS=$(grep -E "^test .* FAILED$|^test .*\.\.\. FAILED" /tmp/sv_$ID.log | grep -v "priv_string_tests::invalid_" | sort -u)
NPASS=$(grep -E "^test result" /tmp/sv_$ID.log | sed -E 's/.* ([0-9]+) passed.*/\1/' | paste -sd+ | bc)
CE=$(grep -cE "^error(\[E[0-9]+\])?: (could not compile|aborting)|^error\[E" /tmp/sv_$ID.log)
echo "passed(total incl doctests)=$NPASS unexpected_failures=[$FAILS] compile_errors=$CE"
cp $SRC/demo.rs konst/tests/demo.rs
echo "== demo with patch"; D1=$(demo); echo "$D1" | tail -3
echo "$D1" | grep -q "test result: FAILED" && R1=fail || R1=NOFAIL
# a demo that no longer compiles because the patched library rejects a valid program is a failing demo too
[ "$R1" = NOFAIL ] && echo "$D1" | grep -q "could not compile .konst. (test \"demo\")" && R1=fail
cd /verif
git -C /repo worktree remove --force $WT
rm -rf $CARGO_TARGET_DIR /tmp/sv_$ID.log
echo "RESULT $ID demo_without=$R0 demo_with=$R1 unexpected_failures=$(echo -n "$FAILS" | wc -l) compile_errors=$CE passed=$NPASS"
if [ "$R0" = pass ] && [ "$R1" = fail ] && [ -z "$FAILS" ] && [ "$CE" = 0 ]; then
  mkdir -p /verif/seeded/$DEST
  cp $SRC/patch.diff $SRC/demo.rs /verif/seeded/$DEST/
  python3 - "$SRC/meta.json" "/verif/seeded/$DEST/meta.json" "$NPASS" <<'E'
import json,sys
try: m=json.load(open(sys.argv[1]))
except Exception as e: m={"property":None,"note":"agent meta unreadable: %s"%e}
m["confirmed"]={"by":"tools/seed_confirm.sh in scratch worktree /tmp/sv_<ID> of /repo HEAD",
  "ran":["cargo test -p konst --features 'rust_latest_stable alloc' --test demo (without patch): pass",
         "git apply patch.diff; cargo build -p konst --features ...; cargo build --workspace: ok",
         "cargo test --workspace --no-fail-fast --offline: only the 3 always-failing priv_string_tests fail; %s tests+doctests pass"%sys.argv[3],
         "demo with patch: FAILED"]}
json.dump(m,open(sys.argv[2],"w"),indent=1)
E
  echo "KEPT /verif/seeded/$DEST"
else
  echo "NOT KEPT"
fi
