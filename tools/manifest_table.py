chk("C02", "static analysis: MIR gated-path decision tables vs std slice-indexing views",
    "For each of the 14 getters/splitters (+_mut twins), get/get_mut, try_into_array{,_mut}, as_chunks/as_rchunks the gated "
    "paths of the MIR (callees inlined down to from_raw_parts) are compared with std's definition as (offset,count) views for "
    "every order type of (len,start,end); first_mut/last_mut/split_first_mut/split_last_mut are None on an empty slice and the "
    "first/last element (with the rest) otherwise: symbolic in all lengths, indices and element types, so it covers the inputs tests "
    "cannot enumerate. Any change of offset, count, guard direction, fallback or argument order is a mismatch.",
    "Trusted: rustc MIR construction; the models of len/overflowing_sub/as_ptr/offset/from_raw_parts; the arithmetic fact "
    "(len/N)*N <= len and len%N <= len for the chunk functions.")
chk("C03", "static analysis: exact byte-class computation + MIR decision tables vs str::get / is_char_boundary",
    "The byte classes tested by the boundary predicates are computed exactly over all 256 bytes (all tests of one byte are decided "
    "over the partition of 0..255 they generate, so any spelling of the test - one mask, two comparisons, a nibble table - is compared "
    "by meaning) and must select the non-continuation bytes; the strict/forgiving predicates, get_up_to/get_from/get_range and the clamping "
    "str_up_to/str_from/str_range/split_at are compared (callees inlined to raw views) with std's str::get / documented "
    "clamping / panic-inside-a-char rule for every order type of (len,start,end) x boundary-ness of each indexed byte. "
    "A subtraction the path walks past is checked against every case (an `len - 1` on an empty string is a mismatch). "
    "Symbolic in the string, so all strings and indices are covered.",
    "Trusted: rustc MIR; models of len/as_bytes/from_raw_parts. Not decided: the two boundary *search* loops "
    "(__find_next/prev_char_boundary) beyond what C07 checks.")
chk("C13", "static analysis: slice-provenance (cut kind) vs offset-update typestate over MIR, per Parser method",
    "Inductive invariant 'remainder == original[start..end]' is checked as one proof obligation per Parser-producing function "
    "(15 combinators, 13 parse_*, new, with_start_offset, skip, skip_back): the D1 provenance of the new remainder w.r.t. the "
    "old one (Suffix/Prefix/Middle, computed from the callees' own bodies) must match the start_offset update actually "
    "performed and the direction set (a cut must set it) (a Parser value the analysis cannot recognise is itself a violation); methods written in "
    "terms of a looping Parser method (skip, skip_back) compose with the law that method's own row establishes; errors must be "
    "built from the pre-operation parser; ParseError::new/other_error/offset "
    "and the accessors are decided as tables; parse_direction/len/into_error/into_other_error and ParseError::{error_direction,kind,"
    "copy} return the named field / call / field-wise copy. Symbolic in the string and in the operation history (induction), which tests "
    "cannot enumerate.",
    "Trusted: rustc MIR; loops are abstracted (loop-modified locals become fresh symbols, others keep their pre-loop value); "
    "`skip` relies on its count being <= len (loop bound not proved). Char-boundary clause rests on C01/C03.")
chk("C14", "static analysis: MIR delegation rules and one-step protocol decision tables",
    "Each combinator's new remainder must be (the payload of) the same-named konst::string function applied to "
    "(old remainder, argument), Some/None mapped to Ok/Err with the method's ErrorKind (10 rows); the five split methods are "
    "compared as one-step decision tables over (exhausted flag, remainder empty, split_once/find Some/None) with the protocol "
    "in the property text, including what is yielded, the new remainder and the new flag; only those five may write the flag and every constructor starts with it clear; "
    "the 13 StdParser::parse_with impls must return the matching parse_* call; the integer/bool prefix parse (which has no free "
    "function to delegate to) is decided on the Parser::parse_* bodies with C12's rule set (sign byte, digit classes, multiply-add "
    "recurrence with both overflow exits, sign/limit table, consumed length, bool spellings). Covers all strings/patterns symbolically.",
    "Trusted: rustc MIR. The results of the string functions themselves are C04/C05; histories follow by induction over "
    "the one-step tables (written argument, DESIGN.md App. D).")
chk("C16", "static analysis: MIR decision tables vs Ord/PartialEq, lexicographic-placement rule, loop-exit tables with derived counter invariant",
    "Every cmp_*/eq_*/const_cmp/const_eq function (about 400: scalars, NonZero, bool, char, Ordering, ranges, Options, "
    "CmpWrapper impls) is inlined to primitive comparisons and compared with Ord/PartialEq for every order type of its "
    "operands and every Some/None combination, with operand order (left,right) checked; slice/str orderings must not decide "
    "from the lengths before the element loop (LEX) and their loop-exit tables (first differing element, prefix exhausted -> "
    "lengths; counter starts at 0, +1, guarded; elements compared as primitives or through an ordering function called as inner(left[i], right[i]), for slice-pattern and index loops alike) must be lexicographic; equality loops likewise; U8Ordering constants/mapping. "
    "Symbolic in all values, so it covers the pairs tests cannot enumerate.",
    "Trusted: rustc MIR; the step from one-iteration tables to the whole loop is the standard induction on the counter "
    "(premises checked: init 0, +1, guard). The macros (const_cmp_for!/const_eq_for! option, slice, range and range_inclusive arms in all four "
    "comparator forms, const_cmp!/const_eq! on each supported type, assertc_eq!/assertc_ne!) are expanded in a witness crate "
    "(45 + 6 witnesses, incl. the range and range_inclusive arms of const_eq_for!) and decided by the same tables (TAB-MACRO, TAB-ASSERT: returns exactly when the relation holds); the documented call shapes with one operand's type inferred "
    "from the other must compile (ACC-INFER).")
chk("C05", "static analysis: exact byte-set computation, MIR iteration decision tables, delegation rules",
    "The byte set removed by the whitespace trimmers is computed exactly from the loop's continue condition and must equal "
    "u8::is_ascii_whitespace; the strip_prefix/strip_suffix loops and the two-level trim_*_matches loops are compared as "
    "iteration decision tables (length pre-check and its invariant, byte compare, one-byte advance from the right end, "
    "rollback to the outer-iteration snapshot, needle reset on a full repetition, empty needle returns input) with the "
    "definition of strip_prefix / trim_start_matches and their mirrors; 20 delegation rows tie starts_with/ends_with/strip_*/"
    "trim* (bytes and str, all four pattern kinds) to those loops with the right arguments, order and result mapping.",
    "Trusted: rustc MIR; the induction from the one-iteration tables to the whole loop is written (DESIGN.md), not mechanised.")
chk("C04", "static analysis: matcher restart-completeness lint, scan-completeness iteration tables, delegation rules over MIR",
    "The six byte matchers are checked two ways: the restart-completeness lint flags any single-pass matcher whose remaining "
    "pattern is reset to the needle on a mismatch while the haystack cursor never rewinds (necessarily incomplete for needles "
    "with borders - this reported the original defect); a candidate-offset search is accepted only if its iteration table is "
    "a complete scan (starts at the extreme offset, moves by one, exits only on 'prefix test hit -> Some(offset)' or "
    "'candidates exhausted -> None', hit test = the C05 prefix test on the haystack sliced at the candidate; an empty pattern in forward search hits at the "
    "first candidate or leaves through an explicit `Some(0)`). The skip/keep "
    "forms must be find/rfind composed with slice_from/slice_up_to at pos / pos+len, split_once/rsplit_once are decided as "
    "tables, and 16 delegation rows tie the public str/bytes functions (all four pattern kinds) to the matchers (a path may answer 'not "
    "found' without searching only under len(haystack) < len(pattern)).",
    "Trusted: rustc MIR; C05's prefix test. A matcher of any other shape (e.g. KMP) is not decided: the SCAN floor then fails "
    "closed. Reverse search with an empty pattern is outside the property.")
chk("C12", "static analysis: exact byte classes from MIR branch conditions, recurrence/overflow-flag dataflow, loop-exit decision tables",
    "For the 12 integer parsers: the only byte consumed before the first digit is '-' (signed) or nothing (so '+' is never "
    "accepted), first-digit and loop-digit classes are exactly 30-39, the accumulator recurrence is num*10+(byte-'0') in the "
    "unsigned twin with both overflow flags reaching Err(ParseInteger), the loop-exit table per type is "
    "(negative: n<=|MIN| -> wrapping_neg, positive: n<=MAX, unsigned: n) with the limits computed from the type width (a sign "
    "test on the accumulator reinterpreted in the signed type is read as the range of the accumulator it denotes), and "
    "the new remainder is str_from(old, len(old)-len(unparsed)); every Ok comes out of the function's own digit loop (a result "
    "taken over from another parser or a special case is reported). parse_bool must spell exactly true/false and skip their "
    "lengths; the 13 whole-string wrappers return Ok only when the parser succeeded with an empty remainder. Symbolic in the "
    "input, so every string and every width is covered.",
    "Trusted: rustc MIR; Horner recurrence is checked as the one-iteration relation (induction over digits is the written step).")
chk("C09", "static analysis: per-type MIR step tables, one-step iterator decision tables, forward/reverse isomorphism",
    "increment/decrement are decided per Step type (12 integer arms + char): finished flags = start>end / start>=end, next = "
    "start+1 / end-1 with the overflow flag of that very operation (flags computed with branches are decided as a table over "
    "start vs end; the value of an overflowing/wrapping step may not be compared - it has wrapped at the extreme), char arm as a decision table over the value classes of the stepped scalar x every other condition it branches on (D7FF<->E000 "
    "jump, 10FFFF/0 overflow, +-1 otherwise); "
    "for_range! is decided on witness expansions for five integer types (cursor starts at `start`, body runs under "
    "cursor < end with the pre-increment value, +1 per round, exit on end <= cursor); the next/next_back of RangeIter, RangeInclusiveIter, RangeFromIter are compared as one-step tables (yielded value, new "
    "(start,end), the (MAX,MIN) exhausted encoding) with std's range step relation; the Rev types must be the forward types "
    "stepping from the other end; MIN_VAL/MAX_VAL of all 13 types; const_into_iter field mapping. Symbolic in the bounds, so "
    "all pairs of every width are covered.",
    "Trusted: rustc MIR. History equivalence follows from the one-step relation by the simulation "
    "exhausted <=> (start,end)=(MAX,MIN) (written, DESIGN.md App. C); chr::from_u32 on the produced scalars is C07.")
chk("C07", "static analysis: exact value sets, bit-provenance abstract interpretation, one-step MIR decision tables",
    "from_u32's accepted set is computed exactly from its branch conditions (interval sets propagated backward through xor/and/or/"
    "shift/wrapping add-sub with constants; no enumeration, no solver) and must be the Unicode scalar values with the "
    "payload being that same value, with no panicking input; for each UTF-8 length class the encoder's arm range must be std's and every output byte "
    "must be marker bits | the right payload bits of the scalar (bit provenance through shifts/masks/casts); the decoder "
    "string_to_usv composed with the encoder must be the identity on the scalar's bits for each length; the next/next_back "
    "of Chars/CharIndices (and the R* twins by isomorphism) are one-step tables (item, remainder, byte offsets) with the "
    "boundary search opaque, and the two boundary searches are checked as one-iteration relations (move by one, stop on the "
    "forgiving boundary predicate, whose table (C03 TAB-PRED) is decided here too); copy() of the four iterators is a field-wise copy and rev() the other "
    "direction's type with the same fields. Covers every char/u32 and all strings symbolically.",
    "Trusted: rustc MIR; char <= 10FFFF type invariant. The boundary-search loops are decided as one-iteration relations only.")
chk("C06", "static analysis: one-step MIR transition tables vs std's SplitInternal step, forward/reverse isomorphism",
    "Split::next/next_back, SplitTerminator::next and RSplitTerminator::next are compared as one-step transition tables over "
    "(state Normal/Empty(Start)/Empty(Continue)/Finished, remainder empty, find/rfind Some/None) with std's split step "
    "(yielded piece, new remainder around the delimiter, new state; empty-delimiter mode char by char; the documented "
    "mirrored rule for rsplit_terminator); RSplit must be Split stepping from the other end; constructors are a decision table over (delimiter empty, input "
    "empty): Empty(Start) exactly for an empty delimiter, else Normal with the normalised pattern (or, for an empty input, the state "
    "that takes the same single step); rsplit = split.rev(), rsplit_terminator copies split_terminator's fields, "
    "remainder() returns the remainder field, copy() is a field-wise copy; the two matcher loops every step searches with are decided "
    "here as well with C04's restart lint and scan tables (the tables read `find` as \"the first occurrence, if any\"). Symbolic in string and delimiter.",
    "Trusted: rustc MIR; find/rfind return Some only when the needle fits in the haystack (C04). The sequence of pieces follows from the one-step tables by the simulation argument in DESIGN.md "
    "App. D (not mechanised); find/rfind are C04, the boundary search is C07.")
chk("C08", "static analysis: one-step MIR decision tables over (offset,count) views vs std's slice-iterator steps, forward/reverse isomorphism",
    "next/next_back of Iter, IterCopied, Windows, Chunks::next, RChunks::next, ChunksExact, RChunksExact and ArrayChunks are "
    "inlined down to raw (offset,count) views of the iterator's own slice and compared with std's step (item view, new "
    "remainder view, Some/None exhaustion encoding) for every order type of (len,size) under arithmetic-consistency facts; "
    "the two div/mod back steps (Chunks::next_back, RChunks::next_back) are accepted only as the listed idioms with the "
    "right item/remainder parts; all 8 *Rev types must be the forward types stepping from the other end, rev()/copy() "
    "keep the fields; constructors assert size != 0 and pre-split the exact variants at len - len%size / len%size; "
    "remainder/as_slice accessors of forward and reversed types, iter/iter_copied and the four slice const_into_iter impls build the "
    "iterator over the given slice; array_chunks is as_chunks(slice), whose table (C02 TAB-CHUNKS) is decided here too. Symbolic in "
    "slice length, size and element type.",
    "A `len + c` on a path must be bounded above (a slice of zero-sized elements can be usize::MAX long) and no subtraction may "
    "underflow in any case. Trusted: rustc MIR; arithmetic facts a-b<=a, (a-b==0 <=> a==b), a%b<b. The div/mod split points are matched against an "
    "idiom list (an equivalent rewrite in a new idiom is reported as unrecognised). Histories follow by the simulation "
    "argument over one-step tables (DESIGN.md App. E).")
chk("C19", "static analysis: MIR decision tables of macro expansions in a witness crate (opaque marker closures), accept programs, macro token lint",
    "Every option::/result:: macro in both argument forms (closure, function path), option::copied, try_!, try_!(map_err), "
    "try_opt!, unwrap_ctx! is expanded in a witness crate whose closures are opaque marker functions; for each variant of the "
    "input the returned term and the exact list of marker calls made on that path are compared with the std method "
    "(so an eager/lazy slip or a wrong payload is a mismatch for all values). min!/max!/_by/_by_key are decided as operand "
    "tables over Less/Equal/Greater (ties: first for min, second for max), and each argument expression must be evaluated "
    "exactly once. try_rebind!/rebind_if_ok! must be accepted by "
    "rustc for arities 1..6 with place / let / typed-let / `_` positions and each position must receive component i of the Ok "
    "payload (argument provenance of a sink call), Err must propagate / skip; components must be assigned left to right "
    "(ORD-REBIND: the same place at positions k and k+1 must end up holding component k+1, every adjacent pair of every "
    "arity, both macros). A token lint over the macro definitions "
    "rejects fragment specifiers inside transcribers (this found the arity>=3 defect); HYGIENE lint on the 43 macros of the family; all "
    "35 option/result forms re-typed with payload and error types that are neither Copy nor Clone must compile (ACC-NONCOPY), as must "
    "the documented shapes with an operand type inferred from the other (ACC-INFER) and every closure-taking form with each kind of "
    "irrefutable closure-parameter pattern (`|&x|`, `|mut x|`, `|ref x|`, tuple, struct and tuple-struct patterns, `_`: ACC-PARAM, 72 programs), "
    "and fallbacks that only coerce to the payload type (array reference to slice, fn item to fn pointer, reference to trait object).",
    "Trusted: rustc's macro expansion and MIR for the witness crate; marker functions are opaque (`#[inline(never)] loop{}`), "
    "so results hold for every closure. The accept family is sampled per arity in the quick tier (uniform + mixed kinds).",
    cat="other")
chk("C17", "static analysis: compile-reject / compile-accept witness programs with matched diagnostics, compile_error! inventory",
    "A generated family of about 400 reject programs, each with an accept twin differing only in the offending element, is compiled "
    "by the real stable rustc against the current konst: destructure! x {Drop type (braced/tuple struct, generic, path/type "
    "form, +-annotation), reference ({&, &mut} x 10 shapes incl. generic type-form / turbofish / self:: paths x +-annotation), "
    "wrong field/element count (12 shapes incl. one-element patterns and annotations naming a longer tuple or a struct), `..` rest (3 shapes)}, "
    "iterator DSL x {double reversal for every reverser and all three macros, also with each of the 12 adapters between the two reversers (every adapter arm threads the direction state), unknown methods, consumer in adapter-only "
    "macro, arguments to argument-less methods, argument-shape guards; the first four also with the offender after each state-"
    "rebuilding adapter (map, flatten, flat_map, zip, take_while, skip, enumerate, filter) and in all three for_each! forms}, parser_method! x {non-literal pattern for all six "
    "methods incl. a const/variable/nested macro hidden inside concat!(..) and patterns that begin with or wrap a string literal "
    "(range patterns, bindings, references, parentheses - the range forms were accepted by the pinned tree: F9, fixed), missing default, branch after default, unknown method}. A reject must fail with the guard's own diagnostic "
    "(code / message / guard macro in the expansion back-trace), the twin must compile. Every compile_error! arm of the six "
    "anchored macro files must be hit by the family or be listed as a shadowed fall-back with the reason.",
    "Trusted: rustc's accept/reject verdict (that is the property). The family is finite; shapes outside it (deeper nesting, "
    "macro-generated invocations) are not enumerated.",
    cat="exploration")
chk("C18", "static analysis: translation validation of macro expansions against rustc's own literal bytes (HIR), MIR table/shape rules",
    "Generated literal sets (every escape kind, \\x and \\u{} forms incl. underscores, line continuations incl. blank lines/CRLF/"
    "NBSP, raw strings with 0-2 hashes, multi-byte text, empty, concat! flat and nested to depth 3 with empty and trailing-comma forms, "
    "stringify!; plus seeded random literals incl. nested concat!) are put in "
    "witness crates both as parser_method!'s argument and as a plain constant; after rustc expands the proc macro, the byte "
    "list of the slice pattern it produced (HIR) must equal rustc's own unescaped bytes of the twin literal, in the prefix "
    "form [bytes.., rem @ ..] and the suffix form [rem @ .., bytes..]; a valid literal the macro rejects is a violation; with the literal placed among other alternatives (`LIT | \"zz\" => .., \"q\" | LIT "
    "=> ..`) the pattern list of the expansion must be exactly those four byte strings in order. "
    "The escape table and the line-continuation arm are read from the proc-macro crate's MIR; the strip/find/trim "
    "expansions are checked structurally, for every way of writing the branches (`=> expr,`, comma-less blocks, a block in the "
    "middle, blocks with commas) (arms in listed order, one-byte drop from the scanning end, empty match breaks the "
    "trim loop, parser advanced by skip/skip_back of len(remainder)-len(rest) on every way out of a trim form, default branch leaves "
    "the parser unchanged).",
    "rustc runs the proc macro while expanding the witness (the one place where a konst component executes, inside the "
    "compiler); no konst runtime function is called. The literal family is finite (76 quick / 450+ thorough).",
    cat="translation_validation")
chk("C20", "static analysis: MIR scan/walk templates, decision tables, loop relations and length-term rules; witness expansion structure",
    "CStr: the nul scan is a counted loop from 0 returning Ok{bytes[..i+1], i+1} at the first zero byte and Err when the "
    "slice is exhausted; from_bytes_until_nul / from_bytes_with_nul are tables (Ok exactly when the first nul is the last "
    "byte, payload = that CStr); to_bytes_with_nul is the walk to the first terminator returning i+1 bytes, to_bytes is the view "
    "w[..len-1] of that slice in any spelling (a panicking path must contradict `non-empty, last byte 0`), to_str is the checked "
    "from_utf8 of that view with Ok/Err passed on, and string::from_utf8 is core::str::from_utf8 with its outcome passed on. Concat/join: the length functions are the terms "
    "sum(len(piece_i)) [+ sep.len()*(n-1), 0 if empty]; every fill loop copies piece[j] to out[cursor] with one shared "
    "cursor advanced by one and bounds-checked stores; join writes first,(sep,piece)*; __ElemDispatch/__SepArg len agree with "
    "the bytes they produce per kind; ArrayStr::as_str re-validates; in the macro expansions LEN and the bytes are computed "
    "from the same ARGS constant; the filler element of concat_slices comes from a walk over the pieces (index or running remainder) that gives up "
    "only when every piece was empty, and is asked for only after the N == 0 return (FIRST-ELEM); HYGIENE lint on the concat/join macro family.",
    "Trusted: rustc MIR, char::len_utf8 (std) vs encode_utf8 arms (C07), the &CStr type invariant for the walk. Not decided: "
    "the bytes of the resulting constants (that would need compile-time evaluation as an oracle).")
chk("C11", "static analysis: MaybeUninit init-typestate (path coverage on the pruned CFG) over macro expansions in a witness crate, protocol rules for ArrayBuilder",
    "array::map!, from_fn! (typed and untyped), map_!, from_fn_!, collect_const! (plain, filter, flat_map, skip/take) and "
    "string::from_iter! (str and char items) are expanded in a witness crate, also with closures containing break, "
    "continue, return, panic! and a labelled break, and array::map! also on a user type that derefs to an array and has a len() of "
    "its own. For every assume_init site the rule requires: dominated by the true edge "
    "of counter == LEN with LEN the length of the MaybeUninit array itself; for every increment of the counter, every path (on the CFG pruned by the BuildArray/ComputeLength "
    "discriminant) from reading the counter through the increment to the next iteration or to assume_init executes a "
    "MaybeUninit::new store at the pre-increment index, or a copy loop covers a variable step, or the counting argument applies "
    "(each increment preceded by its own checked store at a strictly advancing cursor: N counted stores hit N different slots); no other writer of "
    "the counter - so no control flow in a closure can reach assume_init with an unwritten slot. Element i must be the closure "
    "applied to input i, each round under `i < len` (from_fn_!: the running index starts at 0 and advances by one per round); a mapper given as an "
    "expression that yields the function is evaluated once, before the loop (ARG-ONCE); no "
    "transcriber of the family declares an ordinary-looking item or generic-parameter name where caller tokens are expanded (HYGIENE); ArrayBuilder push/build/new/as_slice follow the inited protocol (a panicking path of push must leave "
    "`inited` untouched: the builder outlives the panic), Clone pushes the clone of every element of as_slice() once, in order, "
    "into a fresh builder, and only new/push/copies write `inited`; map_! forgets the consumer only after next() returned None and then builds; both collect_const passes call the "
    "same generated function and count identically; while the closure body of map_! runs the element is an ordinary owned local "
    "(ManuallyDrop::into_inner dominates all caller code of the round, 8 witnesses incl. `|ref x|` with early exits: ELEM-OWNED); an array "
    "operand that borrows from its own temporaries must compile, as it does with <[T; N]>::map (ACC-TEMP); which elements collect_const! "
    "collects, and in which order, is the iterator DSL's expansion, decided here as well with C10's chain validation on its standard chain set (TV); "
    "map!/map_!/from_fn!/from_fn_! accept the closure-parameter patterns the std functions accept (ACC-PARAM).",
    "Trusted: rustc MIR and macro expansion; macro hygiene keeps the counter/array unnameable from user tokens. Values "
    "computed by user closures are opaque (marker functions).")
chk("C15", "static analysis: linear-use analysis of macro expansions in a witness crate (MIR), container read/advance/drop-range rules and field-writer invariants",
    "destructure! is expanded for braced structs (plain, reordered, renamed, `_` field, annotated), a tuple struct, a packed "
    "struct, a struct with ZST fields, tuples of arity 1,2,3,5,8,16, a tuple with `_`, and arrays (all elements, prefix+rest+"
    "suffix, rest only, prefix+rest, rest+suffix, `_`, `..`): in the MIR the value must be moved into ManuallyDrop exactly once "
    "and never dropped as a whole, each field/element read exactly once from a distinct projection/offset of that one pointer "
    "in pattern order (array offsets must tile the array: 1 per element, rest length per rest part), a `_`/`..` part's value is "
    "dropped right away, packed fields with "
    "read_unaligned, and the bound values returned are exactly those reads. ArrayConsumer: next/next_back read "
    "array[taken_front] / array[N-taken_back-1] only when the live range is non-empty and advance only their counter; "
    "as_slice/as_mut_slice/Drop cover exactly [taken_front, N-taken_back); new/empty establish the invariant; "
    "assert_is_empty forgets only an empty consumer; only new/empty/next/next_back/clone/copy write the counters; a panicking path of next/next_back leaves them as they were; in "
    "Clone the balance (slots written) - (slots newly covered by a counter update) is never negative where a call can unwind into "
    "the drop of the half-built clone, and zero after every round; "
    "ArrayBuilder's Drop covers [0,inited) on every path (or nothing, under !needs_drop::<T>()), and the builder's own invariant "
    "(push asserts inited < N before it writes slot `inited` and only then bumps the counter; only new/push/copies write it) is decided here as well (C11's BUILDER rule), and so are the consumer protocol and the element ownership of the by-value map (C11's BYVAL and ELEM-OWNED on its witnesses). Exactly-once then follows from the range invariant by induction over operations.",
    "Trusted: rustc MIR/expansion; rustc's exhaustive-pattern check for the field set; the by-value map protocol is C11's BYVAL "
    "rule. Of the unwinding paths only what the rules above name is analysed (state left behind for Drop); cleanup blocks are "
    "otherwise not walked.")
chk("C01", "static analysis: unsafe-operation inventory from MIR against an obligation table, path-condition proofs, provenance analysis, re-run of the owning rule sets",
    "Every operation that needs `unsafe` (unsafe-fn call, raw deref, union read, transmute) in konst_kernel and konst "
    "(configs FULL and DEBUG, +MIN in thorough) and in the witness expansions of the 8 macros whose transcribers contain "
    "`unsafe` is enumerated from MIR and must match an entry of the obligation table; an unlisted operation fails the check. "
    "Discharge: from_raw_parts/offset in the 9 getters by the path's own conditions (k=0 & n<=len, or n=len-k & k<=len, "
    "disjoint halves for split_at_mut); every bytes->str conversion by provenance (sub-range of the input's bytes) plus its "
    "justification (the byte tests of the path on the very index cut leave only non-continuation bytes / whole-pattern cutter on the normalised pattern / ASCII trimmers / "
    "encoder output); the other schemas by re-running the owning rules here (chunk and array casts, from_u32 scalar set, "
    "UTF-8 encoder/decoder bits, CStr scan/walk, ArrayBuilder/ArrayConsumer protocols and drop ranges, INIT typestate (incl. the "
    "length obligation and the counting argument) and "
    "linear-use of the macro expansions, and the compile-time guards of destructure! (not a reference / not Drop / every field "
    "named, for arities 1..3) that make its unsafe reads sound). Sub-range clause: D1 provenance of all 139 safe pub fns returning slices/strs must "
    "root in a parameter or the static empty slice.",
    "Trusted: rustc MIR; documented safety contracts of the std callees; repr(transparent)/MaybeUninit layout facts; the &CStr "
    "invariant; the two deprecated pointer->Option<NonNull> niche transmutes are allow-listed with the reason. Cleanup "
    "(unwind) paths are not analysed. That the byte matchers cut only after whole matches is C04/C05's behaviour.")
chk("C10", "static analysis: translation validation of macro expansions - per-iteration relation extracted from witness MIR vs relation composed from per-method reference semantics",
    "A generator enumerates type-correct chains from the documented method grammar (every adapter alone x every consumer, all "
    "ordered adapter pairs x 3 consumers, plus flat_map/flatten alone and combined with every adapter on either side x every "
    "consumer: about 900 chains; thorough: +2500 seeded depth-3 chains) over opaque source types whose "
    "next/next_back and all closures are marker calls. rustc expands the macros; from each generated function's MIR the "
    "loop's iteration relation (paths to continue/exit with ordered marker calls and their outcomes, counter tests and "
    "updates, result value, initial state) is extracted and must equal the relation composed from one reference entry per "
    "method (std semantics of filter, filter_map, map, copied, enumerate, skip, skip_while, take, take_while, zip incl. "
    "its direction after rev, and of the 13 consumers); for flat_map/flatten the outer and the inner loop are extracted "
    "separately (state symbol by state symbol: which loop carries what, entry values of the inner loop, exits, back edges to "
    "either header) and compared with the two-phase schema. The direction rule reports positional adapters before a reversing "
    "method (12 (adapter,reverser) pairs, a design limitation recorded as known findings). The closure-taking methods must accept "
    "the irrefutable parameter patterns a closure may have (11 methods x 8 pattern shapes as accept programs: ACC-PARAM).",
    "Trusted: rustc expansion/MIR; the written equivalence between the pull-based schema and std for side-effect-free "
    "sources (DESIGN.md App. A). At most one flat_map/flatten per chain; collect_const is outside the composer (INIT for "
    "collect_const is C11); chains whose counter is never carried round a loop are skipped and counted (TV-SKIP). NEST2: in chains with two flattening steps every way out of a loop level continues in the level "
    "above. SCOPE: after each closure-taking adapter a later closure's free variable is the caller's, not the earlier closure's parameter "
    "(found F10). HYGIENE lint: no "
    "transcriber of the macro family declares an ordinary-looking item or generic-parameter name where caller tokens are expanded.",
    cat="translation_validation")
