chk("C02", "static analysis: MIR gated-path decision tables vs std slice-indexing views",
    "For each of the 14 getters/splitters (+_mut twins), get/get_mut, try_into_array{,_mut}, as_chunks/as_rchunks the gated "
    "paths of the MIR (callees inlined down to from_raw_parts) are compared with std's definition as (offset,count) views for "
    "every order type of (len,start,end): symbolic in all lengths, indices and element types, so it covers the inputs tests "
    "cannot enumerate. Any change of offset, count, guard direction, fallback or argument order is a mismatch.",
    "Trusted: rustc MIR construction; the models of len/overflowing_sub/as_ptr/offset/from_raw_parts; the arithmetic fact "
    "(len/N)*N <= len and len%N <= len for the chunk functions.")
