#!/usr/bin/env python3
"""tools/dbg_paths.py <config> <fn-key> [inline-key...] — print the gated paths of one function (debugging aid)"""
import sys
sys.path.insert(0, "/verif/engine/py")
from kv import sym, runner
ctx = runner.Ctx("C01", "quick", 0)
prog = ctx.program(sys.argv[1])
b = prog.get(sys.argv[2])
inl = set(sys.argv[3:])
ps = sym.through_loops(b, prog, keep_back=True, inline=inl) if b.loops() else sym.paths_of(b, prog, inline=inl)
for p in ps:
    print(p.kind, "|", " & ".join(sym.show_atom(c) for c in p.conds), "|", sym.show(p.value) if isinstance(p.value, tuple) else p.value)
    import os
    if os.environ.get("DBG_ENV"):
        for l, v in sorted(p.env.items()):
            if v != ("L", l):
                print("      env L%s := %s" % (l, sym.show(v)))
        for e in p.events:
            print("      event", e[0], [sym.show(x) if isinstance(x, tuple) and x and isinstance(x[0], str) else x for x in e[1:]])
