#!/bin/bash
export VERIF_NO_PRUNE=1   # several trees are analysed over time / in parallel: keep their caches (tools/prune_cache.sh cleans up)
# usage: tools/mutate.sh <file-in-repo> <sed-expr> <prop>...   — applies the edit, runs the checks, reverts
set -u
f=$1; expr=$2; shift 2
cd /repo
cp "$f" /tmp/mut.bak
rm -rf /tmp/evid.bak; cp -r /verif/evidence /tmp/evid.bak
sed -i -E "$expr" "$f"
if git diff --quiet -- "$f"; then echo "MUTATION DID NOT APPLY"; exit 2; fi
git --no-pager diff --stat -- "$f" | tail -1
for p in "$@"; do (cd /verif && ./check $p 2>&1 | grep -E "VIOLATION|rule=|^  [a-zA-Z]|^C[0-9]+ " | head -12); done
cp /tmp/mut.bak "$f"
rm -rf /verif/evidence; cp -r /tmp/evid.bak /verif/evidence
git diff --quiet -- "$f" || echo "REVERT FAILED"
