#!/usr/bin/env python3
"""Writes engine/py/kv/known_fns.txt: the function vocabulary of the tree the reference tables were written against.
A workspace function that is NOT in this list (a helper extracted later) is inlined by the path enumerator when it is loop-free,
so that extracting a helper is not mistaken for a change of behaviour.  The list never decides a verdict."""
import sys
sys.path.insert(0, "/verif/engine/py")
from kv import facts, mir
names = set()
for cfg in ("FULL", "DEBUG", "MIN"):
    prog = mir.load_program(cfg, facts.tree_hash())
    for b in prog.bodies:
        if b.promoted is None:
            names.add(b.key)
open("/verif/engine/py/kv/known_fns.txt", "w").write("\n".join(sorted(names)) + "\n")
print(len(names), "functions")
