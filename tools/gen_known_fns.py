#!/usr/bin/env python3
"""Writes engine/py/kv/known_fns.txt: the function vocabulary of the tree the reference tables were written against.
A workspace function that is NOT in this list (a helper extracted later) is inlined by the path enumerator when it is loop-free,
so that extracting a helper is not mistaken for a change of behaviour; the recorded signature lets a check find an anchored
private function again after a pure rename (same module, same signature, new name).  The list never decides a verdict."""
import sys
sys.path.insert(0, "/verif/engine/py")
from kv import facts, mir
names = {}
for cfg in ("FULL", "DEBUG", "MIN"):
    prog = mir.load_program(cfg, facts.tree_hash())
    for b in prog.bodies:
        if b.promoted is None:
            sig = "(%s) -> %s" % (", ".join(b.rec.get("sig_inputs") or []), b.rec.get("sig_output") or "")
            names.setdefault(b.key, sig)
open("/verif/engine/py/kv/known_fns.txt", "w").write("".join("%s\t%s\n" % (k, v) for k, v in sorted(names.items())))
print(len(names), "functions")
