#!/bin/bash
export VERIF_NO_PRUNE=1   # several trees are analysed over time / in parallel: keep their caches (tools/prune_cache.sh cleans up)
# tools/neutral_check.sh <patch.diff> [props...] — apply a behaviour-preserving refactor to /repo, run the checks (default: all,
# quick tier), expect every one to stay silent; undo.  Prints the checks that raised a (false) alarm.
P=$1; shift
PROPS=${@:-C01 C02 C03 C04 C05 C06 C07 C08 C09 C10 C11 C12 C13 C14 C15 C16 C17 C18 C19 C20}
cd /verif
[ -z "$(git -C /repo status --porcelain)" ] || { echo "/repo not clean"; exit 2; }
BK=$(mktemp -d); cp -r evidence $BK/
git -C /repo apply "$P" || { echo "patch does not apply: $P"; rm -rf $BK; exit 2; }
trap 'git -C /repo checkout -- . ; rm -rf /verif/evidence; cp -r $BK/evidence /verif/evidence; rm -rf $BK' EXIT
OUT=""
for p in $PROPS; do
  ./check $p > $BK/out_$p.txt 2>&1; rc=$?
  if [ $rc -ne 0 ]; then
    echo "[$(basename $P)] $p: exit $rc"; grep -E "^  rule=" $BK/out_$p.txt | sort | uniq -c | head -6
    grep -A1 -E "^  rule=" $BK/out_$p.txt | grep -vE "^  rule=|^--" | head -3 | cut -c1-400
    OUT="$OUT $p"
  fi
done
echo "NEUTRAL $(basename $P) alarms:${OUT:- none}"
