#!/bin/bash
# tools/pair_batch.sh <worktree-prefix> <suffix> <round-dir> <ID>...   e.g. tools/pair_batch.sh /tmp/seed5_ -5 R5 C01 C02
# like seed_batch.sh, and additionally files each agent's corrected twin as neutral/<round-dir>/<ID>_ok.diff and runs the
# seed's own check (+C01) on it: the seed must be reported, the twin must not.
PFX=$1; SFX=$2; RD=$3; shift 3
cd /verif; mkdir -p neutral/$RD
for i in "$@"; do [ -f ${PFX}$i/_seed/patch_ok.diff ] && cp ${PFX}$i/_seed/patch_ok.diff neutral/$RD/${i}_ok.diff; done
printf "%s\n" "$@" | xargs -P 4 -I{} bash -c "tools/seed_confirm.sh {} ${PFX}{}/_seed {}${SFX} > /tmp/svb_{}.txt 2>&1"
for i in "$@"; do
  tail -n 1 /tmp/svb_$i.txt | sed "s/^/[$i] /"
  if grep -q "^KEPT" /tmp/svb_$i.txt; then
    tools/seed_check.sh $i$SFX $i C01 2>&1 | tail -4
  else
    grep "^RESULT" /tmp/svb_$i.txt
  fi
  if [ -f neutral/$RD/${i}_ok.diff ]; then tools/neutral_check.sh /verif/neutral/$RD/${i}_ok.diff $i C01 2>&1 | tail -3 | sed "s/^/   twin: /"; fi
  git -C /repo worktree remove --force ${PFX}$i 2>/dev/null; rm -rf ${PFX}$i
done
git -C /repo worktree prune
