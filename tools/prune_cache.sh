#!/bin/bash
# drop the fact caches of all trees except /repo's current one
cd /verif; VERIF_EVIDENCE=$(mktemp -d) ./check C02 >/dev/null 2>&1
H=$(python3 -c "import sys; sys.path.insert(0,'/verif/engine/py'); from kv import facts; print(facts.tree_hash())")
for d in /verif/.work/facts/*; do [ "$(basename $d)" = "$H" ] || rm -rf $d; done
du -sh /verif/.work/facts
