#!/bin/bash
export VERIF_NO_PRUNE=1   # several trees are analysed over time / in parallel: keep their caches (tools/prune_cache.sh cleans up)
# tools/seed_regress.sh [seed names...]  — regression test of the machinery itself (not a registered check):
# every kept seeded change must make the check of its own property exit 1, and /repo must be clean afterwards.
cd /verif
SEEDS=${@:-$(ls seeded)}
[ -z "$(git -C /repo status --porcelain)" ] || { echo "/repo not clean"; exit 2; }
BK=$(mktemp -d); cp -r evidence $BK/
trap 'git -C /repo checkout -- . ; rm -rf /verif/evidence; cp -r $BK/evidence /verif/evidence; rm -rf $BK' EXIT
bad=0
for s in $SEEDS; do
  prop=${s%%-*}
  git -C /repo apply /verif/seeded/$s/patch.diff || { echo "$s: patch does not apply"; bad=1; continue; }
  ./check $prop > $BK/out.txt 2>&1; rc=$?
  git -C /repo checkout -- .
  if [ $rc -eq 1 ] && grep -q "^VIOLATION property=$prop " $BK/out.txt; then
    echo "$s: detected by $prop ($(grep -E '^  rule=' $BK/out.txt | head -1 | sed 's/^ *//'))"
  else
    echo "$s: NOT DETECTED by $prop (rc=$rc)"; bad=1
  fi
done
exit $bad
