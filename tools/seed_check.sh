#!/bin/bash
export VERIF_NO_PRUNE=1   # several trees are analysed over time / in parallel: keep their caches (tools/prune_cache.sh cleans up)
# tools/seed_check.sh <ID> [props...]   apply /verif/seeded/<ID>/patch.diff to /repo, run checks, undo.
# default props: all 20.  Prints per-check verdict and the rules that fired. Restores /verif/evidence.
ID=$1; shift
PROPS=${@:-C01 C02 C03 C04 C05 C06 C07 C08 C09 C10 C11 C12 C13 C14 C15 C16 C17 C18 C19 C20}
TIER=${TIER:-quick}
cd /verif
[ -z "$(git -C /repo status --porcelain)" ] || { echo "/repo not clean"; exit 2; }
BK=$(mktemp -d); cp -r evidence $BK/
git -C /repo apply /verif/seeded/$ID/patch.diff || exit 2
trap 'git -C /repo checkout -- . ; rm -rf /verif/evidence; cp -r $BK/evidence /verif/evidence; rm -rf $BK' EXIT
OUT=""
for p in $PROPS; do
  ./check $p --tier $TIER > $BK/out_$p.txt 2>&1; rc=$?
  if [ $rc -ne 0 ]; then
    echo "[$ID] $p: exit $rc"; grep -E "^  rule=" $BK/out_$p.txt | sort | uniq -c | head -8
    OUT="$OUT $p"
  fi
done
echo "SEED $ID detected_by:${OUT:- NONE}"
